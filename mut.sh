#!/bin/bash
# ./mut.sh <patch.diff> <Cxx> [quick|thorough]   run a check against a scratch copy of /repo with the patch applied
set -u
PATCH="$(readlink -f "$1")"; PROP="$2"; TIER="${3:-quick}"
VERIF="$(cd "$(dirname "$0")" && pwd)"
S="/tmp/mut-$$-$PROP"
rm -rf "$S"; mkdir -p "$S"
rsync -a --exclude .git /repo/ "$S/" || exit 2
(cd "$S" && patch -p1 -s -t -N --no-backup-if-mismatch < "$PATCH") || { echo "patch failed"; rm -rf "$S"; exit 2; }
VERIF_REPO="$S" VERIF_WORKTAG="-mut$$" VERIF_NOEVIDENCE=1 "$VERIF/run.sh" "$PROP" "$TIER"
rc=$?
rm -rf "$S" "$VERIF/.work/b-$PROP-mut$$"
echo "mut exit=$rc"
exit $rc
