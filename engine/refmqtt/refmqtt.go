// Package refmqtt is an independent MQTT 3.1 / 3.1.1 / 5.0 encoder and decoder written
// from the OASIS specifications.  It shares no code with gmqtt's pkg/packets; the
// scripted clients of the harness speak through it and C06 uses it as a reference codec.
// Kept boring on purpose: flat structs, no pooling.
package refmqtt

import (
	"errors"
	"fmt"
	"unicode/utf8"
)

const (
	CONNECT     = 1
	CONNACK     = 2
	PUBLISH     = 3
	PUBACK      = 4
	PUBREC      = 5
	PUBREL      = 6
	PUBCOMP     = 7
	SUBSCRIBE   = 8
	SUBACK      = 9
	UNSUBSCRIBE = 10
	UNSUBACK    = 11
	PINGREQ     = 12
	PINGRESP    = 13
	DISCONNECT  = 14
	AUTH        = 15
)

var TypeNames = []string{"?", "CONNECT", "CONNACK", "PUBLISH", "PUBACK", "PUBREC", "PUBREL", "PUBCOMP", "SUBSCRIBE", "SUBACK", "UNSUBSCRIBE", "UNSUBACK", "PINGREQ", "PINGRESP", "DISCONNECT", "AUTH"}

// Versions (protocol level byte).
const (
	V31  = 3
	V311 = 4
	V5   = 5
)

type Sub struct {
	Filter  string
	QoS     byte
	NoLocal bool
	RAP     bool
	RH      byte
}

type KV struct{ K, V string }

// Props holds MQTT 5 properties; nil pointer / nil slice means absent.
type Props struct {
	PayloadFormat       *byte
	MessageExpiry       *uint32
	ContentType         *string
	ResponseTopic       *string
	CorrelationData     []byte
	HasCorrelationData  bool
	SubIDs              []uint32
	SessionExpiry       *uint32
	AssignedClientID    *string
	ServerKeepAlive     *uint16
	AuthMethod          *string
	AuthData            []byte
	HasAuthData         bool
	RequestProblemInfo  *byte
	WillDelay           *uint32
	RequestResponseInfo *byte
	ResponseInfo        *string
	ServerReference     *string
	ReasonString        *string
	ReceiveMax          *uint16
	TopicAliasMax       *uint16
	TopicAlias          *uint16
	MaxQoS              *byte
	RetainAvailable     *byte
	User                []KV
	MaxPacketSize       *uint32
	WildcardSubAvail    *byte
	SubIDAvail          *byte
	SharedSubAvail      *byte
}

type Packet struct {
	Type     byte
	Flags    byte // as decoded; on encode only used when RawFlags
	RawFlags bool
	Version  byte

	// CONNECT
	ProtoName   string
	ProtoLevel  byte
	CleanStart  bool
	KeepAlive   uint16
	ClientID    string
	WillFlag    bool
	WillQoS     byte
	WillRetain  bool
	WillTopic   string
	WillPayload []byte
	WillProps   *Props
	HasUsername bool
	HasPassword bool
	Username    string
	Password    []byte

	// CONNACK
	SessionPresent bool
	Code           byte // CONNACK / acks / DISCONNECT / AUTH reason code

	// PUBLISH
	Dup      bool
	QoS      byte
	Retain   bool
	Topic    string
	PacketID uint16
	Payload  []byte

	Subs    []Sub    // SUBSCRIBE
	Codes   []byte   // SUBACK / UNSUBACK(v5)
	Filters []string // UNSUBSCRIBE

	Props *Props
}

func (p *Packet) String() string {
	n := "?"
	if int(p.Type) < len(TypeNames) {
		n = TypeNames[p.Type]
	}
	switch p.Type {
	case PUBLISH:
		s := fmt.Sprintf("PUBLISH(t=%q q%d id=%d dup=%v ret=%v len=%d", p.Topic, p.QoS, p.PacketID, p.Dup, p.Retain, len(p.Payload))
		if len(p.Payload) <= 12 {
			s += fmt.Sprintf(" %q", p.Payload)
		}
		if p.Props != nil {
			if len(p.Props.SubIDs) > 0 {
				s += fmt.Sprintf(" subids=%v", p.Props.SubIDs)
			}
			if p.Props.TopicAlias != nil {
				s += fmt.Sprintf(" alias=%d", *p.Props.TopicAlias)
			}
			if p.Props.MessageExpiry != nil {
				s += fmt.Sprintf(" exp=%d", *p.Props.MessageExpiry)
			}
		}
		return s + ")"
	case CONNACK:
		return fmt.Sprintf("CONNACK(sp=%v code=0x%02x)", p.SessionPresent, p.Code)
	case PUBACK, PUBREC, PUBREL, PUBCOMP:
		return fmt.Sprintf("%s(id=%d code=0x%02x)", n, p.PacketID, p.Code)
	case SUBACK, UNSUBACK:
		return fmt.Sprintf("%s(id=%d codes=%v)", n, p.PacketID, p.Codes)
	case DISCONNECT, AUTH:
		return fmt.Sprintf("%s(code=0x%02x)", n, p.Code)
	case CONNECT:
		return fmt.Sprintf("CONNECT(v%d id=%q clean=%v ka=%d will=%v)", p.ProtoLevel, p.ClientID, p.CleanStart, p.KeepAlive, p.WillFlag)
	case SUBSCRIBE:
		return fmt.Sprintf("SUBSCRIBE(id=%d %v)", p.PacketID, p.Subs)
	case UNSUBSCRIBE:
		return fmt.Sprintf("UNSUBSCRIBE(id=%d %v)", p.PacketID, p.Filters)
	}
	return n
}

// ---------------------------------------------------------------- encoding

type enc struct{ b []byte }

func (e *enc) u8(v byte)    { e.b = append(e.b, v) }
func (e *enc) u16(v uint16) { e.b = append(e.b, byte(v>>8), byte(v)) }
func (e *enc) u32(v uint32) { e.b = append(e.b, byte(v>>24), byte(v>>16), byte(v>>8), byte(v)) }
func (e *enc) str(s string) { e.u16(uint16(len(s))); e.b = append(e.b, s...) }
func (e *enc) bin(s []byte) { e.u16(uint16(len(s))); e.b = append(e.b, s...) }
func (e *enc) raw(s []byte) { e.b = append(e.b, s...) }
func (e *enc) vbi(v uint32) { e.b = AppendVBI(e.b, v) }

// AppendVBI appends the canonical variable byte integer encoding of v.
func AppendVBI(b []byte, v uint32) []byte {
	for {
		d := byte(v % 128)
		v /= 128
		if v > 0 {
			d |= 0x80
		}
		b = append(b, d)
		if v == 0 {
			return b
		}
	}
}

func encProps(p *Props) []byte {
	var e enc
	if p == nil {
		return AppendVBI(nil, 0)
	}
	if p.PayloadFormat != nil {
		e.u8(0x01)
		e.u8(*p.PayloadFormat)
	}
	if p.MessageExpiry != nil {
		e.u8(0x02)
		e.u32(*p.MessageExpiry)
	}
	if p.ContentType != nil {
		e.u8(0x03)
		e.str(*p.ContentType)
	}
	if p.ResponseTopic != nil {
		e.u8(0x08)
		e.str(*p.ResponseTopic)
	}
	if p.HasCorrelationData || p.CorrelationData != nil {
		e.u8(0x09)
		e.bin(p.CorrelationData)
	}
	for _, id := range p.SubIDs {
		e.u8(0x0B)
		e.vbi(id)
	}
	if p.SessionExpiry != nil {
		e.u8(0x11)
		e.u32(*p.SessionExpiry)
	}
	if p.AssignedClientID != nil {
		e.u8(0x12)
		e.str(*p.AssignedClientID)
	}
	if p.ServerKeepAlive != nil {
		e.u8(0x13)
		e.u16(*p.ServerKeepAlive)
	}
	if p.AuthMethod != nil {
		e.u8(0x15)
		e.str(*p.AuthMethod)
	}
	if p.HasAuthData || p.AuthData != nil {
		e.u8(0x16)
		e.bin(p.AuthData)
	}
	if p.RequestProblemInfo != nil {
		e.u8(0x17)
		e.u8(*p.RequestProblemInfo)
	}
	if p.WillDelay != nil {
		e.u8(0x18)
		e.u32(*p.WillDelay)
	}
	if p.RequestResponseInfo != nil {
		e.u8(0x19)
		e.u8(*p.RequestResponseInfo)
	}
	if p.ResponseInfo != nil {
		e.u8(0x1A)
		e.str(*p.ResponseInfo)
	}
	if p.ServerReference != nil {
		e.u8(0x1C)
		e.str(*p.ServerReference)
	}
	if p.ReasonString != nil {
		e.u8(0x1F)
		e.str(*p.ReasonString)
	}
	if p.ReceiveMax != nil {
		e.u8(0x21)
		e.u16(*p.ReceiveMax)
	}
	if p.TopicAliasMax != nil {
		e.u8(0x22)
		e.u16(*p.TopicAliasMax)
	}
	if p.TopicAlias != nil {
		e.u8(0x23)
		e.u16(*p.TopicAlias)
	}
	if p.MaxQoS != nil {
		e.u8(0x24)
		e.u8(*p.MaxQoS)
	}
	if p.RetainAvailable != nil {
		e.u8(0x25)
		e.u8(*p.RetainAvailable)
	}
	for _, kv := range p.User {
		e.u8(0x26)
		e.str(kv.K)
		e.str(kv.V)
	}
	if p.MaxPacketSize != nil {
		e.u8(0x27)
		e.u32(*p.MaxPacketSize)
	}
	if p.WildcardSubAvail != nil {
		e.u8(0x28)
		e.u8(*p.WildcardSubAvail)
	}
	if p.SubIDAvail != nil {
		e.u8(0x29)
		e.u8(*p.SubIDAvail)
	}
	if p.SharedSubAvail != nil {
		e.u8(0x2A)
		e.u8(*p.SharedSubAvail)
	}
	return append(AppendVBI(nil, uint32(len(e.b))), e.b...)
}

// Encode serialises p for protocol version p.Version (3, 4 or 5).
func Encode(p *Packet) []byte {
	var e enc
	v5 := p.Version == V5
	flags := byte(0)
	switch p.Type {
	case CONNECT:
		name, level := p.ProtoName, p.ProtoLevel
		if name == "" {
			if p.Version == V31 {
				name = "MQIsdp"
			} else {
				name = "MQTT"
			}
		}
		if level == 0 {
			level = p.Version
		}
		e.str(name)
		e.u8(level)
		var cf byte
		if p.CleanStart {
			cf |= 0x02
		}
		if p.WillFlag {
			cf |= 0x04 | p.WillQoS<<3
			if p.WillRetain {
				cf |= 0x20
			}
		}
		if p.HasPassword {
			cf |= 0x40
		}
		if p.HasUsername {
			cf |= 0x80
		}
		e.u8(cf)
		e.u16(p.KeepAlive)
		if v5 {
			e.raw(encProps(p.Props))
		}
		e.str(p.ClientID)
		if p.WillFlag {
			if v5 {
				e.raw(encProps(p.WillProps))
			}
			e.str(p.WillTopic)
			e.bin(p.WillPayload)
		}
		if p.HasUsername {
			e.str(p.Username)
		}
		if p.HasPassword {
			e.bin(p.Password)
		}
	case CONNACK:
		if p.SessionPresent {
			e.u8(1)
		} else {
			e.u8(0)
		}
		e.u8(p.Code)
		if v5 {
			e.raw(encProps(p.Props))
		}
	case PUBLISH:
		flags = p.QoS << 1
		if p.Dup {
			flags |= 8
		}
		if p.Retain {
			flags |= 1
		}
		e.str(p.Topic)
		if p.QoS > 0 {
			e.u16(p.PacketID)
		}
		if v5 {
			e.raw(encProps(p.Props))
		}
		e.raw(p.Payload)
	case PUBACK, PUBREC, PUBREL, PUBCOMP:
		if p.Type == PUBREL {
			flags = 2
		}
		e.u16(p.PacketID)
		if v5 && (p.Code != 0 || p.Props != nil) {
			e.u8(p.Code)
			if p.Props != nil {
				e.raw(encProps(p.Props))
			}
		}
	case SUBSCRIBE:
		flags = 2
		e.u16(p.PacketID)
		if v5 {
			e.raw(encProps(p.Props))
		}
		for _, s := range p.Subs {
			e.str(s.Filter)
			o := s.QoS
			if v5 {
				if s.NoLocal {
					o |= 4
				}
				if s.RAP {
					o |= 8
				}
				o |= s.RH << 4
			}
			e.u8(o)
		}
	case SUBACK:
		e.u16(p.PacketID)
		if v5 {
			e.raw(encProps(p.Props))
		}
		e.raw(p.Codes)
	case UNSUBSCRIBE:
		flags = 2
		e.u16(p.PacketID)
		if v5 {
			e.raw(encProps(p.Props))
		}
		for _, f := range p.Filters {
			e.str(f)
		}
	case UNSUBACK:
		e.u16(p.PacketID)
		if v5 {
			e.raw(encProps(p.Props))
			e.raw(p.Codes)
		}
	case PINGREQ, PINGRESP:
	case DISCONNECT:
		if v5 && (p.Code != 0 || p.Props != nil) {
			e.u8(p.Code)
			if p.Props != nil {
				e.raw(encProps(p.Props))
			}
		}
	case AUTH:
		if p.Code != 0 || p.Props != nil {
			e.u8(p.Code)
			e.raw(encProps(p.Props))
		}
	}
	if p.RawFlags {
		flags = p.Flags
	}
	out := []byte{p.Type<<4 | flags&0x0f}
	out = AppendVBI(out, uint32(len(e.b)))
	return append(out, e.b...)
}

// ---------------------------------------------------------------- decoding

var (
	ErrIncomplete = errors.New("refmqtt: incomplete packet")
	ErrMalformed  = errors.New("refmqtt: malformed packet")
)

func malformed(format string, a ...any) error {
	return fmt.Errorf("%w: %s", ErrMalformed, fmt.Sprintf(format, a...))
}

type dec struct {
	b   []byte
	err error
}

func (d *dec) fail(format string, a ...any) {
	if d.err == nil {
		d.err = malformed(format, a...)
	}
}
func (d *dec) u8() byte {
	if d.err != nil || len(d.b) < 1 {
		d.fail("short u8")
		return 0
	}
	v := d.b[0]
	d.b = d.b[1:]
	return v
}
func (d *dec) u16() uint16 {
	if d.err != nil || len(d.b) < 2 {
		d.fail("short u16")
		return 0
	}
	v := uint16(d.b[0])<<8 | uint16(d.b[1])
	d.b = d.b[2:]
	return v
}
func (d *dec) u32() uint32 {
	if d.err != nil || len(d.b) < 4 {
		d.fail("short u32")
		return 0
	}
	v := uint32(d.b[0])<<24 | uint32(d.b[1])<<16 | uint32(d.b[2])<<8 | uint32(d.b[3])
	d.b = d.b[4:]
	return v
}
func (d *dec) bin() []byte {
	n := int(d.u16())
	if d.err != nil || len(d.b) < n {
		d.fail("short binary")
		return nil
	}
	v := append([]byte{}, d.b[:n]...)
	d.b = d.b[n:]
	return v
}

// ValidUTF8 implements MQTT 1.5.4: well-formed UTF-8, no U+0000, no surrogates
// (utf8.Valid already rejects encoded surrogates).
func ValidUTF8(b []byte) bool {
	if !utf8.Valid(b) {
		return false
	}
	for _, c := range b {
		if c == 0 {
			return false
		}
	}
	return true
}

func (d *dec) str() string {
	b := d.bin()
	if d.err == nil && !ValidUTF8(b) {
		d.fail("invalid utf8 string")
	}
	return string(b)
}
func (d *dec) vbi() uint32 {
	var v uint32
	for i := 0; i < 4; i++ {
		c := d.u8()
		if d.err != nil {
			return 0
		}
		v |= uint32(c&0x7f) << (7 * uint(i))
		if c&0x80 == 0 {
			return v
		}
	}
	d.fail("vbi longer than 4 bytes")
	return 0
}

// property id -> set of packet types (bit n = packet type n; bit 0 = will properties)
var propAllowed = map[byte]uint32{
	0x01: 1<<PUBLISH | 1,
	0x02: 1<<PUBLISH | 1,
	0x03: 1<<PUBLISH | 1,
	0x08: 1<<PUBLISH | 1,
	0x09: 1<<PUBLISH | 1,
	0x0B: 1<<PUBLISH | 1<<SUBSCRIBE,
	0x11: 1<<CONNECT | 1<<CONNACK | 1<<DISCONNECT,
	0x12: 1 << CONNACK,
	0x13: 1 << CONNACK,
	0x15: 1<<CONNECT | 1<<CONNACK | 1<<AUTH,
	0x16: 1<<CONNECT | 1<<CONNACK | 1<<AUTH,
	0x17: 1 << CONNECT,
	0x18: 1,
	0x19: 1 << CONNECT,
	0x1A: 1 << CONNACK,
	0x1C: 1<<CONNACK | 1<<DISCONNECT,
	0x1F: 1<<CONNACK | 1<<PUBACK | 1<<PUBREC | 1<<PUBREL | 1<<PUBCOMP | 1<<SUBACK | 1<<UNSUBACK | 1<<DISCONNECT | 1<<AUTH,
	0x21: 1<<CONNECT | 1<<CONNACK,
	0x22: 1<<CONNECT | 1<<CONNACK,
	0x23: 1 << PUBLISH,
	0x24: 1 << CONNACK,
	0x25: 1 << CONNACK,
	0x26: 1<<CONNECT | 1<<CONNACK | 1<<PUBLISH | 1 | 1<<PUBACK | 1<<PUBREC | 1<<PUBREL | 1<<PUBCOMP | 1<<SUBSCRIBE | 1<<SUBACK | 1<<UNSUBSCRIBE | 1<<UNSUBACK | 1<<DISCONNECT | 1<<AUTH,
	0x27: 1<<CONNECT | 1<<CONNACK,
	0x28: 1 << CONNACK,
	0x29: 1 << CONNACK,
	0x2A: 1 << CONNACK,
}

func (d *dec) props(ptype byte) *Props {
	n := int(d.vbi())
	if d.err != nil {
		return nil
	}
	if len(d.b) < n {
		d.fail("short properties")
		return nil
	}
	sub := &dec{b: d.b[:n]}
	d.b = d.b[n:]
	p := &Props{}
	seen := map[byte]bool{}
	for len(sub.b) > 0 && sub.err == nil {
		id := sub.u8()
		mask, ok := propAllowed[id]
		if !ok {
			sub.fail("unknown property 0x%02x", id)
			break
		}
		if mask&(1<<ptype) == 0 {
			sub.fail("property 0x%02x not allowed in packet type %d", id, ptype)
			break
		}
		if seen[id] && id != 0x26 && !(id == 0x0B && ptype == PUBLISH) {
			sub.fail("duplicate property 0x%02x", id)
			break
		}
		seen[id] = true
		switch id {
		case 0x01:
			v := sub.u8()
			p.PayloadFormat = &v
		case 0x02:
			v := sub.u32()
			p.MessageExpiry = &v
		case 0x03:
			v := sub.str()
			p.ContentType = &v
		case 0x08:
			v := sub.str()
			p.ResponseTopic = &v
		case 0x09:
			p.CorrelationData = sub.bin()
			p.HasCorrelationData = true
		case 0x0B:
			v := sub.vbi()
			if v == 0 {
				sub.fail("subscription identifier 0")
			}
			p.SubIDs = append(p.SubIDs, v)
		case 0x11:
			v := sub.u32()
			p.SessionExpiry = &v
		case 0x12:
			v := sub.str()
			p.AssignedClientID = &v
		case 0x13:
			v := sub.u16()
			p.ServerKeepAlive = &v
		case 0x15:
			v := sub.str()
			p.AuthMethod = &v
		case 0x16:
			p.AuthData = sub.bin()
			p.HasAuthData = true
		case 0x17:
			v := sub.u8()
			p.RequestProblemInfo = &v
		case 0x18:
			v := sub.u32()
			p.WillDelay = &v
		case 0x19:
			v := sub.u8()
			p.RequestResponseInfo = &v
		case 0x1A:
			v := sub.str()
			p.ResponseInfo = &v
		case 0x1C:
			v := sub.str()
			p.ServerReference = &v
		case 0x1F:
			v := sub.str()
			p.ReasonString = &v
		case 0x21:
			v := sub.u16()
			p.ReceiveMax = &v
		case 0x22:
			v := sub.u16()
			p.TopicAliasMax = &v
		case 0x23:
			v := sub.u16()
			p.TopicAlias = &v
		case 0x24:
			v := sub.u8()
			p.MaxQoS = &v
		case 0x25:
			v := sub.u8()
			p.RetainAvailable = &v
		case 0x26:
			k := sub.str()
			v := sub.str()
			p.User = append(p.User, KV{k, v})
		case 0x27:
			v := sub.u32()
			p.MaxPacketSize = &v
		case 0x28:
			v := sub.u8()
			p.WildcardSubAvail = &v
		case 0x29:
			v := sub.u8()
			p.SubIDAvail = &v
		case 0x2A:
			v := sub.u8()
			p.SharedSubAvail = &v
		}
	}
	if sub.err != nil {
		d.err = sub.err
		return nil
	}
	return p
}

// Frame splits one packet off the front of buf: returns the total length of the packet
// (fixed header included), or ErrIncomplete, or ErrMalformed for a bad length field.
func Frame(buf []byte) (total int, hdr int, err error) {
	if len(buf) < 2 {
		return 0, 0, ErrIncomplete
	}
	var rl uint32
	i := 1
	for ; ; i++ {
		if i > 4 {
			return 0, 0, malformed("remaining length longer than 4 bytes")
		}
		if i >= len(buf) {
			return 0, 0, ErrIncomplete
		}
		c := buf[i]
		rl |= uint32(c&0x7f) << (7 * uint(i-1))
		if c&0x80 == 0 {
			break
		}
	}
	hdr = i + 1
	total = hdr + int(rl)
	if len(buf) < total {
		return total, hdr, ErrIncomplete
	}
	return total, hdr, nil
}

// Decode decodes exactly one packet from the front of buf for the given protocol
// version (for CONNECT the version is taken from the packet).  It returns the number of
// bytes consumed.
func Decode(buf []byte, version byte) (*Packet, int, error) {
	total, hdr, err := Frame(buf)
	if err != nil {
		return nil, 0, err
	}
	p := &Packet{Type: buf[0] >> 4, Flags: buf[0] & 0x0f, Version: version}
	d := &dec{b: buf[hdr:total]}
	v5 := version == V5
	wantFlags := func(f byte) {
		if p.Flags != f {
			d.fail("reserved flags %x for type %d", p.Flags, p.Type)
		}
	}
	switch p.Type {
	case CONNECT:
		wantFlags(0)
		p.ProtoName = d.str()
		p.ProtoLevel = d.u8()
		switch {
		case p.ProtoName == "MQTT" && (p.ProtoLevel == 4 || p.ProtoLevel == 5):
		case p.ProtoName == "MQIsdp" && p.ProtoLevel == 3:
		default:
			d.fail("bad protocol name/level %q/%d", p.ProtoName, p.ProtoLevel)
		}
		p.Version = p.ProtoLevel
		v5 = p.Version == V5
		cf := d.u8()
		if cf&1 != 0 {
			d.fail("connect reserved flag")
		}
		p.CleanStart = cf&2 != 0
		p.WillFlag = cf&4 != 0
		p.WillQoS = cf >> 3 & 3
		p.WillRetain = cf&0x20 != 0
		p.HasPassword = cf&0x40 != 0
		p.HasUsername = cf&0x80 != 0
		if !p.WillFlag && (p.WillQoS != 0 || p.WillRetain) {
			d.fail("will qos/retain without will flag")
		}
		if p.WillQoS == 3 {
			d.fail("will qos 3")
		}
		if !v5 && p.HasPassword && !p.HasUsername {
			d.fail("password without username (v3)")
		}
		p.KeepAlive = d.u16()
		if v5 {
			p.Props = d.props(CONNECT)
		}
		p.ClientID = d.str()
		if p.WillFlag {
			if v5 {
				p.WillProps = d.props(0)
			}
			p.WillTopic = d.str()
			p.WillPayload = d.bin()
		}
		if p.HasUsername {
			p.Username = d.str()
		}
		if p.HasPassword {
			p.Password = d.bin()
		}
	case CONNACK:
		wantFlags(0)
		f := d.u8()
		if f&0xfe != 0 {
			d.fail("connack flags")
		}
		p.SessionPresent = f&1 != 0
		p.Code = d.u8()
		if v5 {
			p.Props = d.props(CONNACK)
		}
	case PUBLISH:
		p.Dup = p.Flags&8 != 0
		p.QoS = p.Flags >> 1 & 3
		p.Retain = p.Flags&1 != 0
		if p.QoS == 3 {
			d.fail("qos 3")
		}
		if p.QoS == 0 && p.Dup {
			d.fail("dup with qos0")
		}
		p.Topic = d.str()
		if p.QoS > 0 {
			p.PacketID = d.u16()
			if p.PacketID == 0 && d.err == nil {
				d.fail("packet id 0")
			}
		}
		if v5 {
			p.Props = d.props(PUBLISH)
		}
		p.Payload = append([]byte{}, d.b...)
		d.b = nil
	case PUBACK, PUBREC, PUBREL, PUBCOMP:
		if p.Type == PUBREL {
			wantFlags(2)
		} else {
			wantFlags(0)
		}
		p.PacketID = d.u16()
		if v5 && len(d.b) > 0 {
			p.Code = d.u8()
			if len(d.b) > 0 {
				p.Props = d.props(p.Type)
			}
		}
	case SUBSCRIBE:
		wantFlags(2)
		p.PacketID = d.u16()
		if v5 {
			p.Props = d.props(SUBSCRIBE)
		}
		if len(d.b) == 0 {
			d.fail("subscribe without topics")
		}
		for len(d.b) > 0 && d.err == nil {
			var s Sub
			s.Filter = d.str()
			o := d.u8()
			s.QoS = o & 3
			if s.QoS == 3 {
				d.fail("sub qos 3")
			}
			if v5 {
				s.NoLocal = o&4 != 0
				s.RAP = o&8 != 0
				s.RH = o >> 4 & 3
				if s.RH == 3 || o&0xc0 != 0 {
					d.fail("subscription options reserved")
				}
			} else if o&0xfc != 0 {
				d.fail("subscription options reserved (v3)")
			}
			p.Subs = append(p.Subs, s)
		}
	case SUBACK:
		wantFlags(0)
		p.PacketID = d.u16()
		if v5 {
			p.Props = d.props(SUBACK)
		}
		p.Codes = append([]byte{}, d.b...)
		d.b = nil
	case UNSUBSCRIBE:
		wantFlags(2)
		p.PacketID = d.u16()
		if v5 {
			p.Props = d.props(UNSUBSCRIBE)
		}
		if len(d.b) == 0 {
			d.fail("unsubscribe without topics")
		}
		for len(d.b) > 0 && d.err == nil {
			p.Filters = append(p.Filters, d.str())
		}
	case UNSUBACK:
		wantFlags(0)
		p.PacketID = d.u16()
		if v5 {
			p.Props = d.props(UNSUBACK)
			p.Codes = append([]byte{}, d.b...)
			d.b = nil
		}
	case PINGREQ, PINGRESP:
		wantFlags(0)
	case DISCONNECT:
		wantFlags(0)
		if v5 && len(d.b) > 0 {
			p.Code = d.u8()
			if len(d.b) > 0 {
				p.Props = d.props(DISCONNECT)
			}
		}
	case AUTH:
		wantFlags(0)
		if !v5 {
			d.fail("AUTH in v3")
		}
		if len(d.b) > 0 {
			p.Code = d.u8()
			p.Props = d.props(AUTH)
		}
	default:
		d.fail("packet type %d", p.Type)
	}
	if d.err == nil && len(d.b) != 0 {
		d.fail("%d trailing bytes", len(d.b))
	}
	if d.err != nil {
		return p, total, d.err
	}
	return p, total, nil
}

// ---------------------------------------------------------------- topic rules (MQTT 4.7)

// ValidTopicName: at least one character, no wildcards, valid UTF-8 without NUL.
func ValidTopicName(t string) bool {
	if len(t) == 0 || len(t) > 65535 || !ValidUTF8([]byte(t)) {
		return false
	}
	for i := 0; i < len(t); i++ {
		if t[i] == '+' || t[i] == '#' {
			return false
		}
	}
	return true
}

// ValidTopicFilter: non-empty; '#' only as last level occupying the whole level;
// '+' occupies a whole level.
func ValidTopicFilter(f string) bool {
	if len(f) == 0 || len(f) > 65535 || !ValidUTF8([]byte(f)) {
		return false
	}
	levels := splitLevels(f)
	for i, l := range levels {
		for j := 0; j < len(l); j++ {
			if l[j] == '#' {
				if len(l) != 1 || i != len(levels)-1 {
					return false
				}
			}
			if l[j] == '+' && len(l) != 1 {
				return false
			}
		}
	}
	return true
}

func splitLevels(s string) []string {
	var out []string
	start := 0
	for i := 0; i < len(s); i++ {
		if s[i] == '/' {
			out = append(out, s[start:i])
			start = i + 1
		}
	}
	return append(out, s[start:])
}

// Match decides whether topic name t matches filter f under MQTT 4.7 (both assumed valid).
func Match(t, f string) bool {
	tl, fl := splitLevels(t), splitLevels(f)
	if len(t) > 0 && t[0] == '$' && len(f) > 0 && (f[0] == '+' || f[0] == '#') {
		return false
	}
	for i, l := range fl {
		if l == "#" {
			return true // matches parent level too (i == len(tl)) and any deeper level
		}
		if i >= len(tl) {
			return false
		}
		if l != "+" && l != tl[i] {
			return false
		}
	}
	return len(tl) == len(fl)
}

// SplitShared parses "$share/<group>/<filter>".
func SplitShared(f string) (group, filter string, shared bool) {
	const pfx = "$share/"
	if len(f) <= len(pfx) || f[:len(pfx)] != pfx {
		return "", f, false
	}
	rest := f[len(pfx):]
	for i := 0; i < len(rest); i++ {
		if rest[i] == '/' {
			return rest[:i], rest[i+1:], true
		}
	}
	return "", f, false
}
