package harness

import "errors"

// Minimal RFC 6455 framing written independently of gorilla/websocket: the scripted
// client builds masked frames by hand and parses the broker's unmasked frames.

const (
	WSText   = 1
	WSBinary = 2
	WSClose  = 8
)

// WSClientFrame builds one masked client-to-server frame.
func WSClientFrame(opcode byte, payload []byte, fin bool, key [4]byte) []byte {
	b0 := opcode
	if fin {
		b0 |= 0x80
	}
	out := []byte{b0}
	n := len(payload)
	switch {
	case n < 126:
		out = append(out, 0x80|byte(n))
	case n < 65536:
		out = append(out, 0x80|126, byte(n>>8), byte(n))
	default:
		out = append(out, 0x80|127, 0, 0, 0, 0, byte(n>>24), byte(n>>16), byte(n>>8), byte(n))
	}
	out = append(out, key[:]...)
	for i, c := range payload {
		out = append(out, c^key[i%4])
	}
	return out
}

type WSFrame struct {
	Opcode  byte
	Fin     bool
	Masked  bool
	Payload []byte
}

var ErrWSIncomplete = errors.New("incomplete websocket frame")

// WSParseFrames parses complete server-to-client frames from buf.
func WSParseFrames(buf []byte) (frames []WSFrame, rest []byte, err error) {
	for len(buf) > 0 {
		if len(buf) < 2 {
			return frames, buf, nil
		}
		f := WSFrame{Opcode: buf[0] & 0x0f, Fin: buf[0]&0x80 != 0, Masked: buf[1]&0x80 != 0}
		if buf[0]&0x70 != 0 {
			return frames, buf, errors.New("reserved bits set")
		}
		n := int(buf[1] & 0x7f)
		off := 2
		switch n {
		case 126:
			if len(buf) < 4 {
				return frames, buf, nil
			}
			n = int(buf[2])<<8 | int(buf[3])
			off = 4
		case 127:
			if len(buf) < 10 {
				return frames, buf, nil
			}
			n = int(buf[6])<<24 | int(buf[7])<<16 | int(buf[8])<<8 | int(buf[9])
			off = 10
		}
		var key []byte
		if f.Masked {
			if len(buf) < off+4 {
				return frames, buf, nil
			}
			key = buf[off : off+4]
			off += 4
		}
		if len(buf) < off+n {
			return frames, buf, nil
		}
		f.Payload = append([]byte{}, buf[off:off+n]...)
		for i := range f.Payload {
			if key != nil {
				f.Payload[i] ^= key[i%4]
			}
		}
		frames = append(frames, f)
		buf = buf[off+n:]
	}
	return frames, nil, nil
}

// SkipHTTPResponse strips the HTTP/1.1 101 response head; returns nil if incomplete.
func SkipHTTPResponse(buf []byte) (rest []byte, ok bool) {
	for i := 0; i+3 < len(buf); i++ {
		if buf[i] == '\r' && buf[i+1] == '\n' && buf[i+2] == '\r' && buf[i+3] == '\n' {
			return buf[i+4:], true
		}
	}
	return nil, false
}
