package harness

import (
	"context"
	"fmt"
	"strings"

	"github.com/DrmagicE/gmqtt"
	"github.com/DrmagicE/gmqtt/config"
	_ "github.com/DrmagicE/gmqtt/persistence"
	"github.com/DrmagicE/gmqtt/server"
	_ "github.com/DrmagicE/gmqtt/topicalias/fifo"
	"github.com/DrmagicE/gmqtt/zzverif/vsched"

	"verif/refmqtt"
)

// Drop is one OnMsgDropped report.
type Drop struct {
	ClientID string
	Topic    string
	Payload  string
	QoS      byte
	Err      string
}

// Closed is one OnClosed report.
type Closed struct {
	ClientID string
	Err      string
}

// World is one in-process broker plus its scripted clients, living inside one vsched
// execution.
type World struct {
	Srv     server.Server
	L       *Listener
	Clients []*Client
	Cfg     config.Config

	Drops     []Drop
	Closeds   []Closed
	RunErr    error
	RunDone   bool
	InitErr   error
	StopDone  bool
	StopErr   error
	Delivered []string
}

// DefaultConfig returns the broker configuration used by most scenarios: defaults
// with listeners/API/plugins removed.
func DefaultConfig() config.Config {
	c := config.DefaultConfig()
	c.Listeners = nil
	c.PluginOrder = nil
	c.Plugins = nil
	c.API = config.API{}
	c.MQTT = config.DefaultMQTTConfig
	return c
}

// Hooks returns recording hooks; checks may add their own fields before NewWorld.
func (w *World) baseHooks(h server.Hooks) server.Hooks {
	userDropped := h.OnMsgDropped
	h.OnMsgDropped = func(ctx context.Context, clientID string, msg *gmqtt.Message, err error) {
		d := Drop{ClientID: clientID, Err: fmt.Sprint(err)}
		if msg != nil {
			d.Topic, d.Payload, d.QoS = msg.Topic, string(msg.Payload), msg.QoS
		}
		w.Drops = append(w.Drops, d)
		if userDropped != nil {
			userDropped(ctx, clientID, msg, err)
		}
	}
	userClosed := h.OnClosed
	h.OnClosed = func(ctx context.Context, client server.Client, err error) {
		c := Closed{ClientID: client.ClientOptions().ClientID}
		if err != nil {
			c.Err = err.Error()
		}
		w.Closeds = append(w.Closeds, c)
		if userClosed != nil {
			userClosed(ctx, client, err)
		}
	}
	return h
}

// NewWorld boots a broker (must be called from inside a vsched execution) and waits
// until it is quiescent.
func NewWorld(cfg config.Config, hooks server.Hooks, opts ...server.Options) *World {
	w := &World{L: NewListener(), Cfg: cfg}
	all := []server.Options{server.WithConfig(cfg), server.WithTCPListener(w.L), server.WithHook(w.baseHooks(hooks))}
	all = append(all, opts...)
	srv := server.New(all...)
	w.Srv = srv
	if err := srv.Init(); err != nil {
		w.InitErr = err
		return w
	}
	vsched.Go("server.Run", func() {
		w.RunErr = srv.Run()
		w.RunDone = true
	})
	vsched.Settle()
	return w
}

// Stop stops the broker from a separate thread and settles.
func (w *World) Stop() {
	vsched.Go("server.Stop", func() {
		w.StopErr = w.Srv.Stop(context.Background())
		w.StopDone = true
	})
	vsched.Settle()
}

// SwallowedPanic returns the first OnClosed error text that looks like a recovered
// runtime panic inside one of the client goroutines.
func (w *World) SwallowedPanic() string {
	for _, c := range w.Closeds {
		if LooksLikePanic(c.Err) {
			return c.ClientID + ": " + c.Err
		}
	}
	return ""
}

func LooksLikePanic(s string) bool {
	for _, k := range []string{"runtime error", "index out of range", "nil pointer", "interface conversion", "slice bounds", "nil map", "close of closed", "send on closed", "negative WaitGroup", "unlock of unlocked", "divide by zero"} {
		if strings.Contains(s, k) {
			return true
		}
	}
	return false
}

// ---------------------------------------------------------------- scripted client

// Rx is one packet received by a scripted client.
type Rx struct {
	P     *refmqtt.Packet
	Stamp int64 // logical time at which its last byte was written by the broker
	Len   int
	Err   error // decode error (reference codec rejected the broker's bytes)
	Raw   []byte
}

type Client struct {
	W         *World
	Name      string
	Conn      *Conn
	Version   byte
	ID        string
	rx        []byte
	rxOff     int64
	Inbox     []Rx // everything ever received, in order
	read      int  // Inbox index up to which the test has consumed
	nextPID   uint16
	DecodeErr error
	Sent      []Tx // every write made through SendRaw/Send, in order
}

// Tx is one write of a scripted client (for packets sent whole: type, flags, length).
type Tx struct {
	Type  byte
	Flags byte
	Len   int
	Stamp int64
	PID   uint16
}

// Dial opens a new connection to the broker.
func (w *World) Dial(name string) *Client {
	c := &Client{W: w, Name: name, Conn: w.L.Dial(name), Version: refmqtt.V5}
	w.Clients = append(w.Clients, c)
	return c
}

// DialCap opens a connection whose buffers hold only bufcap bytes per direction.
func (w *World) DialCap(name string, bufcap int) *Client {
	c := &Client{W: w, Name: name, Conn: w.L.DialCap(name, bufcap), Version: refmqtt.V5}
	w.Clients = append(w.Clients, c)
	return c
}

// SendRaw writes bytes to the broker (no settle).
func (c *Client) SendRaw(b []byte) error {
	_, err := c.Conn.Write(b)
	if len(b) > 0 {
		c.Sent = append(c.Sent, Tx{Type: b[0] >> 4, Flags: b[0] & 15, Len: len(b), Stamp: vsched.Stamp()})
	}
	return err
}

// Send encodes and writes one packet (no settle).
func (c *Client) Send(p *refmqtt.Packet) error {
	if p.Version == 0 {
		p.Version = c.Version
	}
	err := c.SendRaw(refmqtt.Encode(p))
	if n := len(c.Sent); n > 0 {
		c.Sent[n-1].PID = p.PacketID
	}
	return err
}

// WaitPacket blocks the calling harness thread until the broker has written another
// packet (returned, and consumed like Recv) or closed the connection (ok=false).
func (c *Client) WaitPacket() (Rx, bool) {
	for {
		c.Pump()
		if c.read < len(c.Inbox) {
			c.read++
			return c.Inbox[c.read-1], true
		}
		if c.Conn.PeerClosed() || c.Conn.Closed() {
			return Rx{}, false
		}
		vsched.WaitUntil("client.WaitPacket", func() bool {
			return c.Conn.Buffered() > 0 || c.Conn.PeerClosed() || c.Conn.Closed()
		})
	}
}

// Pump parses everything the broker has written so far into Inbox.
func (c *Client) Pump() {
	b := c.Conn.TakeAll()
	c.rx = append(c.rx, b...)
	for len(c.rx) > 0 {
		p, n, err := refmqtt.Decode(c.rx, c.Version)
		if err == refmqtt.ErrIncomplete {
			return
		}
		if n == 0 {
			// unframeable garbage: record and stop parsing
			c.DecodeErr = err
			c.Inbox = append(c.Inbox, Rx{Err: err, Raw: append([]byte{}, c.rx...), Len: len(c.rx), Stamp: c.Conn.StampAt(c.rxOff + int64(len(c.rx)) - 1)})
			c.rxOff += int64(len(c.rx))
			c.rx = nil
			return
		}
		rx := Rx{P: p, Len: n, Err: err, Raw: append([]byte{}, c.rx[:n]...), Stamp: c.Conn.StampAt(c.rxOff + int64(n) - 1)}
		if err != nil && c.DecodeErr == nil {
			c.DecodeErr = err
		}
		c.Inbox = append(c.Inbox, rx)
		c.rx = c.rx[n:]
		c.rxOff += int64(n)
	}
}

// Recv returns the packets received since the previous Recv.
func (c *Client) Recv() []Rx {
	c.Pump()
	out := c.Inbox[c.read:]
	c.read = len(c.Inbox)
	return out
}

// RecvPackets is Recv returning only the packets.
func (c *Client) RecvPackets() []*refmqtt.Packet {
	var out []*refmqtt.Packet
	for _, r := range c.Recv() {
		out = append(out, r.P)
	}
	return out
}

// ClosedByBroker reports whether the broker closed this connection.
func (c *Client) ClosedByBroker() bool { return c.Conn.PeerClosed() }

// Close closes the client's socket (abrupt disconnect) — no settle.
func (c *Client) Close() { c.Conn.Close() }

// PID returns a fresh packet identifier.
func (c *Client) PID() uint16 {
	c.nextPID++
	if c.nextPID == 0 {
		c.nextPID = 1
	}
	return c.nextPID
}

// ConnectOpts describes a CONNECT.
type ConnectOpts struct {
	Version     byte
	ClientID    string
	Clean       bool
	KeepAlive   uint16
	Props       *refmqtt.Props
	Will        *Will
	Username    *string
	Password    []byte
	HasPassword bool
}

type Will struct {
	Topic   string
	Payload []byte
	QoS     byte
	Retain  bool
	Props   *refmqtt.Props
}

// ConnectPacket builds the CONNECT packet.
func ConnectPacket(o ConnectOpts) *refmqtt.Packet {
	p := &refmqtt.Packet{Type: refmqtt.CONNECT, Version: o.Version, ClientID: o.ClientID, CleanStart: o.Clean, KeepAlive: o.KeepAlive, Props: o.Props}
	if o.Will != nil {
		p.WillFlag, p.WillTopic, p.WillPayload, p.WillQoS, p.WillRetain, p.WillProps = true, o.Will.Topic, o.Will.Payload, o.Will.QoS, o.Will.Retain, o.Will.Props
	}
	if o.Username != nil {
		p.HasUsername, p.Username = true, *o.Username
	}
	if o.HasPassword || o.Password != nil {
		p.HasPassword, p.Password = true, o.Password
	}
	return p
}

// Connect sends CONNECT, settles, and returns the CONNACK (nil if none arrived).
func (c *Client) Connect(o ConnectOpts) *refmqtt.Packet {
	if o.Version == 0 {
		o.Version = refmqtt.V5
	}
	c.Version, c.ID = o.Version, o.ClientID
	c.Send(ConnectPacket(o))
	vsched.Settle()
	// consume up to and including the CONNACK; later packets stay for the next Recv
	c.Pump()
	for i := c.read; i < len(c.Inbox); i++ {
		if r := c.Inbox[i]; r.P != nil && r.P.Type == refmqtt.CONNACK {
			c.read = i + 1
			return r.P
		}
	}
	return nil
}

// Subscribe sends a SUBSCRIBE, settles, returns the SUBACK (nil if none) and other
// packets that arrived.
func (c *Client) Subscribe(subID uint32, subs ...refmqtt.Sub) (*refmqtt.Packet, []*refmqtt.Packet) {
	p := &refmqtt.Packet{Type: refmqtt.SUBSCRIBE, PacketID: c.PID(), Subs: subs}
	if c.Version == refmqtt.V5 && subID != 0 {
		p.Props = &refmqtt.Props{SubIDs: []uint32{subID}}
	}
	c.Send(p)
	vsched.Settle()
	var ack *refmqtt.Packet
	var rest []*refmqtt.Packet
	for _, r := range c.Recv() {
		if r.P != nil && r.P.Type == refmqtt.SUBACK && ack == nil {
			ack = r.P
		} else {
			rest = append(rest, r.P)
		}
	}
	return ack, rest
}

func U8(v byte) *byte      { return &v }
func U16(v uint16) *uint16 { return &v }
func U32(v uint32) *uint32 { return &v }
func Str(v string) *string { return &v }
