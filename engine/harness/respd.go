package harness

import (
	"bufio"
	"fmt"
	"io"
	"net"
	"path"
	"sort"
	"strconv"
	"strings"
	"sync"

	"github.com/DrmagicE/gmqtt/zzverif/vsched"
)

// Respd is an in-process stand-in for redis speaking RESP over real loopback TCP.  It
// implements exactly the commands gmqtt issues (PING SELECT AUTH DEL LLEN LRANGE LREM
// RPUSH LSET HSET HMGET HGETALL HDEL SCAN..MATCH), written from the redis command
// reference, and journals every write command so that the store can be rebuilt as it
// was after any prefix of them ("the broker process died between two commands").
type Respd struct {
	mu        sync.Mutex
	ln        net.Listener
	dbs       map[int]map[string]*rval
	data      map[string]*rval // database selected by the connection being served
	Journal   []RespCmd        // write commands of database JournalDB
	JournalDB int
	conns     map[net.Conn]int // connection -> selected database
	closed    bool
	nextDB    int
}

type rval struct {
	list   [][]byte
	hash   map[string][]byte
	horder []string
}

// RespCmd is one journaled write command.
type RespCmd struct {
	Args  []string
	Stamp int64 // logical time (vsched.Stamp) at which it was executed
}

func (c RespCmd) String() string {
	var p []string
	for _, a := range c.Args {
		if len(a) > 24 || strings.ContainsAny(a, "\x00\x01\x02\x03") {
			p = append(p, fmt.Sprintf("<%d bytes>", len(a)))
		} else {
			p = append(p, a)
		}
	}
	return strings.Join(p, " ")
}

// NewRespd starts a server on 127.0.0.1:0.
func NewRespd() (*Respd, error) {
	ln, err := net.Listen("tcp", "127.0.0.1:0")
	if err != nil {
		return nil, err
	}
	r := &Respd{ln: ln, dbs: map[int]map[string]*rval{0: {}}, conns: map[net.Conn]int{}}
	r.data = r.dbs[0]
	go r.acceptLoop()
	return r, nil
}

// NewRespdFrom starts a server whose content is the result of the given write commands.
func NewRespdFrom(cmds []RespCmd) (*Respd, error) {
	r, err := NewRespd()
	if err != nil {
		return nil, err
	}
	r.mu.Lock()
	r.load(cmds)
	r.mu.Unlock()
	return r, nil
}

func (r *Respd) load(cmds []RespCmd) {
	for _, c := range cmds {
		args := make([][]byte, len(c.Args))
		for i, a := range c.Args {
			args[i] = []byte(a)
		}
		r.exec(args, false)
	}
}

// NewDB allocates a fresh logical database (selected by clients with SELECT n),
// preloaded with the result of cmds, and makes it the journaled one.
func (r *Respd) NewDB(cmds []RespCmd) int {
	r.mu.Lock()
	defer r.mu.Unlock()
	r.nextDB++
	db := r.nextDB
	r.dbs[db] = map[string]*rval{}
	r.data = r.dbs[db]
	r.load(cmds)
	r.Journal, r.JournalDB = nil, db
	return db
}

// DropDB discards a database and resets (RST, no TIME_WAIT) the connections using it.
func (r *Respd) DropDB(db int) {
	r.mu.Lock()
	defer r.mu.Unlock()
	delete(r.dbs, db)
	for c, d := range r.conns {
		if d == db {
			if tc, ok := c.(*net.TCPConn); ok {
				tc.SetLinger(0)
			}
			c.Close()
			delete(r.conns, c)
		}
	}
}

func (r *Respd) Addr() string { return r.ln.Addr().String() }

func (r *Respd) Close() {
	r.mu.Lock()
	r.closed = true
	var conns []net.Conn
	for c := range r.conns {
		conns = append(conns, c)
	}
	r.mu.Unlock()
	r.ln.Close()
	for _, c := range conns {
		if tc, ok := c.(*net.TCPConn); ok {
			tc.SetLinger(0)
		}
		c.Close()
	}
}

// Keys returns a sorted dump of the store (debugging / state comparison).
func (r *Respd) Dump() string {
	r.mu.Lock()
	defer r.mu.Unlock()
	var ks []string
	for k := range r.data {
		ks = append(ks, k)
	}
	sort.Strings(ks)
	var sb strings.Builder
	for _, k := range ks {
		v := r.data[k]
		if v.hash != nil {
			fmt.Fprintf(&sb, "%s{%d} ", k, len(v.hash))
		} else {
			fmt.Fprintf(&sb, "%s[%d] ", k, len(v.list))
		}
	}
	return sb.String()
}

func (r *Respd) acceptLoop() {
	for {
		c, err := r.ln.Accept()
		if err != nil {
			return
		}
		r.mu.Lock()
		r.conns[c] = 0
		r.mu.Unlock()
		go r.serve(c)
	}
}

func (r *Respd) serve(c net.Conn) {
	defer c.Close()
	br := bufio.NewReader(c)
	bw := bufio.NewWriter(c)
	for {
		args, err := readCommand(br)
		if err != nil {
			return
		}
		r.mu.Lock()
		db, alive := r.conns[c]
		if !alive {
			r.mu.Unlock()
			return
		}
		if len(args) == 2 && strings.ToUpper(string(args[0])) == "SELECT" {
			if n, err := strconv.Atoi(string(args[1])); err == nil {
				r.conns[c] = n
				db = n
			}
		}
		r.data = r.dbs[db]
		var reply []byte
		if r.data == nil {
			reply = rErr("ERR database was dropped")
		} else {
			reply = r.exec(args, db == r.JournalDB)
		}
		r.mu.Unlock()
		bw.Write(reply)
		if br.Buffered() == 0 {
			if bw.Flush() != nil {
				return
			}
		}
	}
}

func readCommand(br *bufio.Reader) ([][]byte, error) {
	line, err := br.ReadString('\n')
	if err != nil {
		return nil, err
	}
	line = strings.TrimRight(line, "\r\n")
	if len(line) == 0 || line[0] != '*' {
		return nil, fmt.Errorf("respd: inline commands are not supported: %q", line)
	}
	n, err := strconv.Atoi(line[1:])
	if err != nil || n < 0 {
		return nil, fmt.Errorf("respd: bad array header %q", line)
	}
	args := make([][]byte, n)
	for i := range args {
		h, err := br.ReadString('\n')
		if err != nil {
			return nil, err
		}
		h = strings.TrimRight(h, "\r\n")
		if len(h) == 0 || h[0] != '$' {
			return nil, fmt.Errorf("respd: bad bulk header %q", h)
		}
		l, err := strconv.Atoi(h[1:])
		if err != nil || l < 0 {
			return nil, fmt.Errorf("respd: bad bulk length %q", h)
		}
		b := make([]byte, l+2)
		if _, err := io.ReadFull(br, b); err != nil {
			return nil, err
		}
		args[i] = b[:l]
	}
	return args, nil
}

func rOK() []byte          { return []byte("+OK\r\n") }
func rInt(n int) []byte    { return []byte(fmt.Sprintf(":%d\r\n", n)) }
func rErr(s string) []byte { return []byte("-" + s + "\r\n") }
func rBulk(b []byte) []byte {
	if b == nil {
		return []byte("$-1\r\n")
	}
	return append(append([]byte(fmt.Sprintf("$%d\r\n", len(b))), b...), '\r', '\n')
}
func rArray(items [][]byte) []byte {
	out := []byte(fmt.Sprintf("*%d\r\n", len(items)))
	for _, it := range items {
		out = append(out, it...)
	}
	return out
}

const wrongType = "WRONGTYPE Operation against a key holding the wrong kind of value"

// exec executes one command (lock held).
func (r *Respd) exec(args [][]byte, journal bool) []byte {
	if len(args) == 0 {
		return rErr("ERR empty command")
	}
	cmd := strings.ToUpper(string(args[0]))
	write := false
	var reply []byte
	key := ""
	if len(args) > 1 {
		key = string(args[1])
	}
	switch cmd {
	case "PING":
		reply = []byte("+PONG\r\n")
	case "SELECT", "AUTH":
		reply = rOK()
	case "DEL":
		n := 0
		for _, k := range args[1:] {
			if _, ok := r.data[string(k)]; ok {
				delete(r.data, string(k))
				n++
			}
		}
		write = true
		reply = rInt(n)
	case "LLEN":
		v := r.data[key]
		switch {
		case v == nil:
			reply = rInt(0)
		case v.hash != nil:
			reply = rErr(wrongType)
		default:
			reply = rInt(len(v.list))
		}
	case "LRANGE":
		if len(args) != 4 {
			return rErr("ERR wrong number of arguments for 'lrange' command")
		}
		start, e1 := strconv.Atoi(string(args[2]))
		stop, e2 := strconv.Atoi(string(args[3]))
		if e1 != nil || e2 != nil {
			return rErr("ERR value is not an integer or out of range")
		}
		v := r.data[key]
		if v != nil && v.hash != nil {
			return rErr(wrongType)
		}
		var items [][]byte
		if v != nil {
			n := len(v.list)
			if start < 0 {
				start += n
			}
			if stop < 0 {
				stop += n
			}
			if start < 0 {
				start = 0
			}
			if stop >= n {
				stop = n - 1
			}
			for i := start; i <= stop && i < n; i++ {
				items = append(items, rBulk(v.list[i]))
			}
		}
		reply = rArray(items)
	case "LREM":
		if len(args) != 4 {
			return rErr("ERR wrong number of arguments for 'lrem' command")
		}
		cnt, err := strconv.Atoi(string(args[2]))
		if err != nil {
			return rErr("ERR value is not an integer or out of range")
		}
		v := r.data[key]
		if v != nil && v.hash != nil {
			return rErr(wrongType)
		}
		removed := 0
		if v != nil {
			var out [][]byte
			if cnt >= 0 {
				for _, e := range v.list {
					if string(e) == string(args[3]) && (cnt == 0 || removed < cnt) {
						removed++
						continue
					}
					out = append(out, e)
				}
			} else {
				for i := len(v.list) - 1; i >= 0; i-- {
					e := v.list[i]
					if string(e) == string(args[3]) && removed < -cnt {
						removed++
						continue
					}
					out = append([][]byte{e}, out...)
				}
			}
			v.list = out
			if len(v.list) == 0 {
				delete(r.data, key)
			}
		}
		write = true
		reply = rInt(removed)
	case "RPUSH":
		if len(args) < 3 {
			return rErr("ERR wrong number of arguments for 'rpush' command")
		}
		v := r.data[key]
		if v != nil && v.hash != nil {
			return rErr(wrongType)
		}
		if v == nil {
			v = &rval{}
			r.data[key] = v
		}
		for _, e := range args[2:] {
			v.list = append(v.list, append([]byte{}, e...))
		}
		write = true
		reply = rInt(len(v.list))
	case "LSET":
		if len(args) != 4 {
			return rErr("ERR wrong number of arguments for 'lset' command")
		}
		idx, err := strconv.Atoi(string(args[2]))
		if err != nil {
			return rErr("ERR value is not an integer or out of range")
		}
		v := r.data[key]
		if v == nil {
			return rErr("ERR no such key")
		}
		if v.hash != nil {
			return rErr(wrongType)
		}
		if idx < 0 {
			idx += len(v.list)
		}
		if idx < 0 || idx >= len(v.list) {
			return rErr("ERR index out of range")
		}
		v.list[idx] = append([]byte{}, args[3]...)
		write = true
		reply = rOK()
	case "HSET":
		if len(args) < 4 || len(args)%2 != 0 {
			return rErr("ERR wrong number of arguments for 'hset' command")
		}
		v := r.data[key]
		if v != nil && v.hash == nil {
			return rErr(wrongType)
		}
		if v == nil {
			v = &rval{hash: map[string][]byte{}}
			r.data[key] = v
		}
		n := 0
		for i := 2; i < len(args); i += 2 {
			f := string(args[i])
			if _, ok := v.hash[f]; !ok {
				n++
				v.horder = append(v.horder, f)
			}
			v.hash[f] = append([]byte{}, args[i+1]...)
		}
		write = true
		reply = rInt(n)
	case "HMGET":
		v := r.data[key]
		if v != nil && v.hash == nil {
			return rErr(wrongType)
		}
		var items [][]byte
		for _, f := range args[2:] {
			if v == nil {
				items = append(items, rBulk(nil))
			} else if b, ok := v.hash[string(f)]; ok {
				items = append(items, rBulk(b))
			} else {
				items = append(items, rBulk(nil))
			}
		}
		reply = rArray(items)
	case "HGETALL":
		v := r.data[key]
		if v != nil && v.hash == nil {
			return rErr(wrongType)
		}
		var items [][]byte
		if v != nil {
			for _, f := range v.horder {
				items = append(items, rBulk([]byte(f)), rBulk(v.hash[f]))
			}
		}
		reply = rArray(items)
	case "HDEL":
		v := r.data[key]
		if v != nil && v.hash == nil {
			return rErr(wrongType)
		}
		n := 0
		if v != nil {
			for _, f := range args[2:] {
				if _, ok := v.hash[string(f)]; ok {
					delete(v.hash, string(f))
					n++
					var no []string
					for _, o := range v.horder {
						if o != string(f) {
							no = append(no, o)
						}
					}
					v.horder = no
				}
			}
			if len(v.hash) == 0 {
				delete(r.data, key)
			}
		}
		write = true
		reply = rInt(n)
	case "SCAN":
		pattern := "*"
		for i := 2; i+1 < len(args); i += 2 {
			if strings.ToUpper(string(args[i])) == "MATCH" {
				pattern = string(args[i+1])
			}
		}
		var ks []string
		for k := range r.data {
			if ok, _ := path.Match(pattern, k); ok {
				ks = append(ks, k)
			}
		}
		sort.Strings(ks)
		var items [][]byte
		for _, k := range ks {
			items = append(items, rBulk([]byte(k)))
		}
		reply = rArray([][]byte{rBulk([]byte("0")), rArray(items)})
	default:
		return rErr("ERR unknown command '" + cmd + "' (respd implements only what gmqtt issues)")
	}
	if write && journal {
		a := make([]string, len(args))
		for i, x := range args {
			a[i] = string(x)
		}
		r.Journal = append(r.Journal, RespCmd{Args: a, Stamp: vsched.Stamp()})
	}
	return reply
}

// List returns a copy of the list stored under key in database db (nil if absent).
func (r *Respd) List(db int, key string) [][]byte {
	r.mu.Lock()
	defer r.mu.Unlock()
	v := r.dbs[db][key]
	if v == nil {
		return nil
	}
	out := make([][]byte, len(v.list))
	for i, b := range v.list {
		out[i] = append([]byte{}, b...)
	}
	return out
}

// Virtual registers an in-scheduler transport for this server's address: gmqtt's redis
// connections (its redigo.Dial calls are rewritten by the overlay) become in-memory
// pipes served by scheduler threads, so that every command is a scheduling point and
// executions are deterministic.  Call inside a vsched execution; connections die with it.
func (r *Respd) Virtual() {
	n := 0
	vsched.RedisDialers[r.Addr()] = func() net.Conn {
		n++
		cl, sv := Pipe(fmt.Sprintf("redis%d", n), 1<<20)
		r.mu.Lock()
		r.conns[sv] = 0
		r.mu.Unlock()
		vsched.Go("respd.serve", func() { r.serve(sv) })
		return cl
	}
}
