// Package harness: in-memory net.Conn / net.Listener under the vsched scheduler,
// scripted MQTT clients speaking through refmqtt, and a World that boots a real broker.
package harness

import (
	"errors"
	"io"
	"net"
	"os"
	"time"

	"github.com/DrmagicE/gmqtt/zzverif/vsched"
)

type addr string

func (a addr) Network() string { return "mem" }
func (a addr) String() string  { return string(a) }

type chunk struct {
	end   int64 // absolute offset one past the last byte of this write
	stamp int64
}

// half is one direction of a connection.
type half struct {
	buf        []byte
	total      int64 // bytes ever written
	wclosed    bool  // writer closed: reader sees EOF after draining
	rclosed    bool  // reader closed: writer gets an error
	cap        int
	chunks     []chunk
	closeStamp int64
}

// Conn is one endpoint of an in-memory duplex byte stream.
type Conn struct {
	Name   string
	r, w   *half
	closed bool
	rdl    int64
	wdl    int64
	rdlT   vsched.TimerHandle
	wdlT   vsched.TimerHandle
	la, ra addr
	// CloseStamp is the logical time at which this endpoint was closed (0 = open).
	CloseStamp int64
}

type timeoutErr struct{}

func (timeoutErr) Error() string     { return "i/o timeout" }
func (timeoutErr) Timeout() bool     { return true }
func (timeoutErr) Temporary() bool   { return true }
func (timeoutErr) Is(err error) bool { return err == os.ErrDeadlineExceeded }

var errClosed = net.ErrClosed
var errPipe = errors.New("write: broken pipe")

// Pipe creates a connected pair with per-direction buffer capacity bufcap.
func Pipe(name string, bufcap int) (client, server *Conn) {
	c2s := &half{cap: bufcap}
	s2c := &half{cap: bufcap}
	client = &Conn{Name: name + "/c", r: s2c, w: c2s, la: addr("client:" + name), ra: addr("server")}
	server = &Conn{Name: name + "/s", r: c2s, w: s2c, la: addr("server"), ra: addr("client:" + name)}
	return
}

func (c *Conn) Read(p []byte) (int, error) {
	if len(p) == 0 {
		return 0, nil
	}
	vsched.WaitUntil("conn.Read", func() bool {
		return c.closed || len(c.r.buf) > 0 || c.r.wclosed || (c.rdl != 0 && vsched.Now() >= c.rdl)
	})
	switch {
	case c.closed:
		return 0, errClosed
	case len(c.r.buf) > 0:
		n := copy(p, c.r.buf)
		c.r.buf = c.r.buf[n:]
		return n, nil
	case c.r.wclosed:
		return 0, io.EOF
	default:
		return 0, timeoutErr{}
	}
}

func (c *Conn) Write(p []byte) (int, error) {
	n := 0
	for n < len(p) {
		vsched.WaitUntil("conn.Write", func() bool {
			return c.closed || c.w.rclosed || len(c.w.buf) < c.w.cap || (c.wdl != 0 && vsched.Now() >= c.wdl)
		})
		switch {
		case c.closed:
			return n, errClosed
		case c.w.rclosed:
			return n, errPipe
		case len(c.w.buf) < c.w.cap:
			k := c.w.cap - len(c.w.buf)
			if k > len(p)-n {
				k = len(p) - n
			}
			c.w.buf = append(c.w.buf, p[n:n+k]...)
			c.w.total += int64(k)
			c.w.chunks = append(c.w.chunks, chunk{end: c.w.total, stamp: vsched.Stamp()})
			n += k
		default:
			return n, timeoutErr{}
		}
	}
	return n, nil
}

func (c *Conn) Close() error {
	if c.closed {
		return errClosed
	}
	c.closed = true
	c.CloseStamp = vsched.Stamp()
	c.w.wclosed = true
	c.w.closeStamp = c.CloseStamp
	c.r.rclosed = true
	c.rdlT.Stop()
	c.wdlT.Stop()
	return nil
}

func (c *Conn) Closed() bool         { return c.closed }
func (c *Conn) LocalAddr() net.Addr  { return c.la }
func (c *Conn) RemoteAddr() net.Addr { return c.ra }

func (c *Conn) SetDeadline(t time.Time) error {
	c.SetReadDeadline(t)
	return c.SetWriteDeadline(t)
}

func (c *Conn) SetReadDeadline(t time.Time) error {
	c.rdlT.Stop()
	if t.IsZero() {
		c.rdl = 0
		return nil
	}
	c.rdl = t.UnixNano()
	c.rdlT = vsched.AddTimer(c.rdl-vsched.Now(), 0, func(int64) {})
	return nil
}

func (c *Conn) SetWriteDeadline(t time.Time) error {
	c.wdlT.Stop()
	if t.IsZero() {
		c.wdl = 0
		return nil
	}
	c.wdl = t.UnixNano()
	c.wdlT = vsched.AddTimer(c.wdl-vsched.Now(), 0, func(int64) {})
	return nil
}

// ---- direct (non-blocking, harness side) access

// PeerClosed reports whether the other endpoint has closed (EOF pending or seen).
func (c *Conn) PeerClosed() bool { return c.r.wclosed }

// PeerCloseStamp is the logical time of the peer's close (0 if open).
func (c *Conn) PeerCloseStamp() int64 { return c.r.closeStamp }

// TakeAll removes and returns everything buffered for reading, without blocking.
func (c *Conn) TakeAll() []byte {
	b := c.r.buf
	c.r.buf = nil
	return b
}

// Take removes up to n buffered bytes.
func (c *Conn) Take(n int) []byte {
	if n > len(c.r.buf) {
		n = len(c.r.buf)
	}
	b := append([]byte{}, c.r.buf[:n]...)
	c.r.buf = c.r.buf[n:]
	return b
}

// Buffered returns the number of bytes waiting to be read.
func (c *Conn) Buffered() int { return len(c.r.buf) }

// StampAt returns the logical stamp of the write that produced the byte at absolute
// offset off (0-based) of the incoming stream.
func (c *Conn) StampAt(off int64) int64 {
	for _, ch := range c.r.chunks {
		if off < ch.end {
			return ch.stamp
		}
	}
	return 0
}

// InTotal is the number of bytes ever written towards this endpoint.
func (c *Conn) InTotal() int64 { return c.r.total }

// OutTotal is the number of bytes this endpoint has written.
func (c *Conn) OutTotal() int64 { return c.w.total }

// Listener is an in-memory net.Listener.
type Listener struct {
	pending []*Conn
	closed  bool
	n       int
	BufCap  int
}

func NewListener() *Listener { return &Listener{BufCap: 1 << 20} }

func (l *Listener) Accept() (net.Conn, error) {
	vsched.WaitUntil("listener.Accept", func() bool { return l.closed || len(l.pending) > 0 })
	if l.closed {
		return nil, errClosed
	}
	c := l.pending[0]
	l.pending = l.pending[1:]
	return c, nil
}

func (l *Listener) Close() error {
	if l.closed {
		return errClosed
	}
	l.closed = true
	return nil
}

func (l *Listener) IsClosed() bool { return l.closed }
func (l *Listener) Addr() net.Addr { return addr("memlistener") }

// Dial returns the client endpoint of a new connection queued for Accept.
func (l *Listener) Dial(name string) *Conn {
	l.n++
	c, s := Pipe(name, l.BufCap)
	l.pending = append(l.pending, s)
	return c
}

// DialCap is Dial with an explicit buffer capacity (stalled-reader scenarios).
func (l *Listener) DialCap(name string, bufcap int) *Conn {
	l.n++
	c, s := Pipe(name, bufcap)
	l.pending = append(l.pending, s)
	return c
}
