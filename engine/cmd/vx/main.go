// vx: the instrumented verification binary.  One process per check; checks shard
// their work over worker sub-processes of the same binary.
package main

import (
	"flag"
	"fmt"
	"os"
	"runtime"
	"runtime/debug"
	"runtime/pprof"
	"strconv"
	"strings"

	"verif/checks"
	"verif/explore"
)

func main() {
	prop := flag.String("prop", "", "property id")
	tier := flag.String("tier", "quick", "quick|thorough")
	worker := flag.String("worker", "", "phase:idx:n (internal)")
	out := flag.String("out", "", "worker result file (internal)")
	replay := flag.String("replay", "", "replay file")
	flag.Parse()
	runtime.GOMAXPROCS(1) // hand-offs between scheduler threads are cheapest on one P
	// tiny live heaps + huge allocation rates: collect only when 768 MiB are in use
	debug.SetGCPercent(-1)
	debug.SetMemoryLimit(768 << 20)
	fn := checks.Registry[*prop]
	if fn == nil {
		fmt.Printf("MACHINERY-ERROR: no check registered for %q\n", *prop)
		os.Exit(2)
	}
	c := explore.NewCtx(*prop, *tier)
	c.ReplayArg = *replay
	if *worker != "" {
		p := strings.Split(*worker, ":")
		if len(p) < 3 {
			os.Exit(2)
		}
		n, _ := strconv.Atoi(p[len(p)-1])
		i, _ := strconv.Atoi(p[len(p)-2])
		c.SetWorker(strings.Join(p[:len(p)-2], ":"), i, n)
		explore.SetWorkerOut(*out)
	}
	if pf := os.Getenv("VERIF_CPUPROFILE"); pf != "" {
		f, _ := os.Create(pf)
		pprof.StartCPUProfile(f)
		defer pprof.StopCPUProfile()
		fn(c)
		pprof.StopCPUProfile()
		os.Exit(c.Finish())
	}
	fn(c)
	os.Exit(c.Finish())
}
