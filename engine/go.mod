module verif

go 1.26.1

require github.com/DrmagicE/gmqtt v0.0.0

replace github.com/DrmagicE/gmqtt => /repo
