// Package statekey dumps the private state of a Go object canonically (reflection over
// unexported fields, sorted map entries, pointers numbered by first visit).  Two object
// graphs with equal dumps are structurally identical, hence have the same futures.
package statekey

import (
	"reflect"
	"sort"
	"strconv"
	"time"
	"unsafe"
)

type dumper struct {
	b     []byte
	ptrs  map[uintptr]int
	skip  map[string]bool
	depth int
}

// Dump returns the canonical dump of v.  Field names listed in skip (as
// "TypeName.Field") are omitted (monotone counters checked separately).
func Dump(v any, skip ...string) string {
	d := &dumper{ptrs: map[uintptr]int{}, b: make([]byte, 0, 1024)}
	if len(skip) > 0 {
		d.skip = map[string]bool{}
		for _, s := range skip {
			d.skip[s] = true
		}
	}
	d.val(reflect.ValueOf(v))
	return string(d.b)
}

var timeType = reflect.TypeOf(time.Time{})

func (d *dumper) str(s string) { d.b = append(d.b, s...) }

func (d *dumper) val(v reflect.Value) {
	if !v.IsValid() {
		d.str("<nil>")
		return
	}
	d.depth++
	defer func() { d.depth-- }()
	if d.depth > 200 {
		d.str("<deep>")
		return
	}
	switch v.Kind() {
	case reflect.Bool:
		if v.Bool() {
			d.b = append(d.b, 'T')
		} else {
			d.b = append(d.b, 'F')
		}
	case reflect.Int, reflect.Int8, reflect.Int16, reflect.Int32, reflect.Int64:
		d.b = strconv.AppendInt(d.b, v.Int(), 10)
	case reflect.Uint, reflect.Uint8, reflect.Uint16, reflect.Uint32, reflect.Uint64, reflect.Uintptr:
		d.b = strconv.AppendUint(d.b, v.Uint(), 10)
	case reflect.Float32, reflect.Float64:
		d.b = strconv.AppendFloat(d.b, v.Float(), 'g', -1, 64)
	case reflect.String:
		d.b = strconv.AppendQuote(d.b, v.String())
	case reflect.Ptr:
		if v.IsNil() {
			d.str("nil")
			return
		}
		p := v.Pointer()
		if id, ok := d.ptrs[p]; ok {
			d.b = append(d.b, '^')
			d.b = strconv.AppendInt(d.b, int64(id), 10)
			return
		}
		id := len(d.ptrs)
		d.ptrs[p] = id
		d.b = append(d.b, '&')
		d.b = strconv.AppendInt(d.b, int64(id), 10)
		d.val(v.Elem())
	case reflect.Interface:
		if v.IsNil() {
			d.str("nil")
			return
		}
		e := v.Elem()
		d.str(e.Type().String())
		d.b = append(d.b, ':')
		d.val(e)
	case reflect.Struct:
		t := v.Type()
		if t == timeType {
			var tm time.Time
			if v.CanInterface() {
				tm = v.Interface().(time.Time)
			} else if v.CanAddr() {
				tm = *(*time.Time)(unsafe.Pointer(v.UnsafeAddr()))
			} else {
				cp := reflect.New(t).Elem()
				cp.Set(v)
				tm = cp.Interface().(time.Time)
			}
			if tm.IsZero() {
				d.str("T0")
			} else {
				d.b = append(d.b, 'T')
				d.b = strconv.AppendInt(d.b, tm.UnixNano(), 10)
			}
			return
		}
		d.b = append(d.b, '{')
		for i := 0; i < v.NumField(); i++ {
			f := t.Field(i)
			if d.skip != nil && d.skip[t.Name()+"."+f.Name] {
				continue
			}
			d.str(f.Name)
			d.b = append(d.b, ':')
			d.val(v.Field(i))
			d.b = append(d.b, ' ')
		}
		d.b = append(d.b, '}')
	case reflect.Slice:
		if v.IsNil() {
			d.str("nil[]")
			return
		}
		if v.Type().Elem().Kind() == reflect.Uint8 {
			d.bytes(v)
			return
		}
		fallthrough
	case reflect.Array:
		d.b = append(d.b, '[')
		for i := 0; i < v.Len(); i++ {
			if i > 0 {
				d.b = append(d.b, ' ')
			}
			d.val(v.Index(i))
		}
		d.b = append(d.b, ']')
	case reflect.Map:
		if v.IsNil() {
			d.str("nilmap")
			return
		}
		keys := v.MapKeys()
		d.str("map[")
		if v.Type().Key().Kind() == reflect.String {
			sort.Slice(keys, func(i, j int) bool { return keys[i].String() < keys[j].String() })
			for _, k := range keys {
				d.b = strconv.AppendQuote(d.b, k.String())
				d.b = append(d.b, '=')
				d.val(v.MapIndex(k))
				d.b = append(d.b, ' ')
			}
		} else {
			km := make(map[string]reflect.Value, len(keys))
			ks := make([]string, 0, len(keys))
			for _, k := range keys {
				kd := &dumper{ptrs: map[uintptr]int{}, skip: d.skip}
				kd.val(k)
				s := string(kd.b)
				km[s] = k
				ks = append(ks, s)
			}
			sort.Strings(ks)
			for _, s := range ks {
				d.str(s)
				d.b = append(d.b, '=')
				d.val(v.MapIndex(km[s]))
				d.b = append(d.b, ' ')
			}
		}
		d.b = append(d.b, ']')
	case reflect.Chan:
		d.str("chan(len=")
		d.b = strconv.AppendInt(d.b, int64(v.Len()), 10)
		d.b = append(d.b, ')')
	case reflect.Func:
		if v.IsNil() {
			d.str("nilfunc")
		} else {
			d.str("func")
		}
	case reflect.UnsafePointer:
		d.str("uptr")
	default:
		d.str("?" + v.Kind().String())
	}
}

func (d *dumper) bytes(v reflect.Value) {
	n := v.Len()
	d.str("b[")
	zero := 0
	flush := func() {
		if zero > 0 {
			d.b = append(d.b, '0', 'x')
			d.b = strconv.AppendInt(d.b, int64(zero), 10)
			d.b = append(d.b, ' ')
			zero = 0
		}
	}
	const hex = "0123456789abcdef"
	for i := 0; i < n; i++ {
		b := byte(v.Index(i).Uint())
		if b == 0 {
			zero++
			continue
		}
		flush()
		d.b = append(d.b, hex[b>>4], hex[b&15], ' ')
	}
	flush()
	d.b = append(d.b, ']')
}
