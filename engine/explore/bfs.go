package explore

import (
	"crypto/sha1"
)

// BFSConfig describes an explicit-state search over a real object.  States are
// identified by the key Replay returns (a canonical dump of the implementation's own
// state); successors are produced by replaying the shortest path on a fresh instance
// plus one operation, because live objects cannot be cloned.
type BFSConfig struct {
	Name   string
	NumOps int
	// Replay builds fresh implementation + reference model, applies path (op indexes),
	// runs the per-step and per-state oracles for the LAST step (earlier ones were
	// checked when their prefix was explored) and returns the state key.  ok=false
	// means the last op is not enabled in that state (transition not counted).
	Replay    func(path []int) (key string, ok bool)
	MaxDepth  int // 0 = until closure
	MaxStates int // 0 = 200000
}

type BFSResult struct {
	States, Transitions, Depth int
	Closed                     bool
}

// BFS runs the search in-process (single unit of work).
func BFS(c *Ctx, cfg BFSConfig) BFSResult {
	type node struct{ path []int }
	maxStates := cfg.MaxStates
	if maxStates == 0 {
		maxStates = 200000
	}
	seen := map[[20]byte]bool{}
	k0, _ := cfg.Replay(nil)
	seen[sha1.Sum([]byte(k0))] = true
	frontier := []node{{nil}}
	res := BFSResult{States: 1}
	depth := 0
	for len(frontier) > 0 {
		if cfg.MaxDepth > 0 && depth >= cfg.MaxDepth {
			break
		}
		var next []node
		for _, n := range frontier {
			if c.Expired() {
				c.NotExhaustive("deadline reached in BFS " + cfg.Name)
				res.Depth = depth
				return res
			}
			for op := 0; op < cfg.NumOps; op++ {
				p := make([]int, len(n.path)+1)
				copy(p, n.path)
				p[len(n.path)] = op
				key, ok := cfg.Replay(p)
				if !ok {
					continue
				}
				res.Transitions++
				h := sha1.Sum([]byte(key))
				if !seen[h] {
					seen[h] = true
					res.States++
					next = append(next, node{p})
					if res.States >= maxStates {
						c.NotExhaustive("state cap reached in BFS " + cfg.Name)
						res.Depth = depth + 1
						return res
					}
				}
			}
		}
		frontier = next
		depth++
	}
	res.Depth = depth
	res.Closed = len(frontier) == 0
	return res
}
