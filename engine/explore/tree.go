package explore

// Tree enumerates every event sequence over an alphabet up to a depth.  run executes
// one sequence on a fresh system, checks the property after every event and returns
// the number of leading events that were enabled/valid (== len(seq) if all were).
// Sequences sharing an invalid prefix are skipped.  Every maximal sequence is executed
// exactly once; prefixes are covered as prefixes of those executions.
type TreeConfig struct {
	Alphabet int
	Depth    int
	// Run executes seq; returns valid prefix length.  If stop is true the sequence
	// ended early on purpose (terminal event) and extensions are skipped.
	Run func(seq []int) (valid int)
	// First restricts the first event (sharding): only sequences with seq[0]==First[i].
	Prefix []int
}

type TreeResult struct {
	Executions int64
	Nodes      int64 // distinct valid event-sequence prefixes executed (tree nodes)
	Events     int64 // events applied in total
}

func Tree(c *Ctx, cfg TreeConfig) TreeResult {
	var res TreeResult
	d := cfg.Depth
	seq := make([]int, d)
	copy(seq, cfg.Prefix)
	fixed := len(cfg.Prefix)
	if fixed > d {
		fixed = d
	}
	lastValid := fixed // length of the prefix shared with previous execution known valid
	for {
		if c.Expired() {
			c.NotExhaustive("deadline reached in scenario tree")
			return res
		}
		valid := cfg.Run(append([]int{}, seq...))
		res.Executions++
		res.Events += int64(valid)
		// new tree nodes contributed by this execution: positions >= first differing index
		if valid > lastValid {
			res.Nodes += int64(valid - lastValid)
		}
		// advance: increment position pos = min(valid, d-1); positions after it reset to 0
		pos := valid
		if pos >= d {
			pos = d - 1
		}
		for pos >= fixed {
			seq[pos]++
			if seq[pos] < cfg.Alphabet {
				break
			}
			pos--
		}
		if pos < fixed {
			return res
		}
		for i := pos + 1; i < d; i++ {
			seq[i] = 0
		}
		lastValid = pos
	}
}
