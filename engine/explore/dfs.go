package explore

import (
	"fmt"

	"github.com/DrmagicE/gmqtt/zzverif/vsched"
)

// replayChooser replays a prefix of picks and then takes choice 0.
type replayChooser struct {
	prefix []int
	sigs   []uint64 // optional expected signatures for prefix positions
	i      int
	div    string
}

func (r *replayChooser) Choose(c *vsched.Choice) int {
	i := r.i
	r.i++
	if i < len(r.prefix) {
		if r.prefix[i] >= c.N {
			if r.div == "" {
				r.div = fmt.Sprintf("replay divergence at choice %d: pick %d but only %d alternatives (%c %s)", i, r.prefix[i], c.N, c.Kind, c.Label)
			}
			return 0
		}
		if i < len(r.sigs) && r.sigs[i] != c.Sig {
			if r.div == "" {
				r.div = fmt.Sprintf("replay divergence at choice %d: enabled-set signature differs (%c %s)", i, c.Kind, c.Label)
			}
		}
		return r.prefix[i]
	}
	return 0
}

// RunPrefix executes body once under the given choice prefix.
// SwitchChoice is passed to the scheduler by RunPrefix (see vsched.Options.SwitchChoice).
var SwitchChoice bool

func RunPrefix(prefix []int, sigs []uint64, trace bool, body func()) (*vsched.Result, string) {
	ch := &replayChooser{prefix: prefix, sigs: sigs}
	r := vsched.Run(ch, vsched.Options{Trace: trace, SwitchChoice: SwitchChoice}, body)
	if ch.div == "" && ch.i < len(prefix) {
		ch.div = fmt.Sprintf("replay divergence: execution ended after %d choices, prefix has %d", ch.i, len(prefix))
	}
	return r, ch.div
}

// DFSConfig describes a stateless schedule search with iterative preemption bounding.
type DFSConfig struct {
	Name  string
	Bound int // maximum number of non-default scheduling decisions (deviations)
	// Body is the scenario; it is run from scratch for every execution.  It must build
	// all of its state itself.  Check is called after each execution with the result.
	Body  func()
	Check func(r *vsched.Result, choices []int)
	// MaxExec caps the number of executions per unit (0 = none).
	MaxExec int64
	// ShardDepth: the parent expands the tree this many branch levels to create units.
	ShardDepth int
}

type dfsTask struct {
	prefix []int
	sigs   []uint64
	cost   int
}

// DFS explores all schedules of cfg.Body with at most cfg.Bound preemptions (select
// and rand alternatives cost nothing).  Work is sharded over worker processes by
// top-level subtrees.
func DFS(c *Ctx, cfg DFSConfig) {
	// Level 0: the default execution; collect its alternatives as tasks.
	tasks := []dfsTask{{}}
	depth := cfg.ShardDepth
	if depth == 0 {
		depth = 1
	}
	// expand `depth` levels in every process identically (deterministic).
	var leafTasks []dfsTask
	expandCount := int64(0)
	for lvl := 0; lvl < depth; lvl++ {
		var next []dfsTask
		for _, t := range tasks {
			r, div := RunPrefix(t.prefix, t.sigs, false, cfg.Body)
			expandCount++
			if div != "" {
				c.Fatal("%s: %s", cfg.Name, div)
				return
			}
			if r.Fatal != "" {
				c.Fatal("%s: %s", cfg.Name, r.Fatal)
				return
			}
			// the execution itself is checked by whoever owns task index (unit) below; to keep
			// it simple the parent-level executions are checked in unit -1 (in-process, all
			// processes skip except parent/inproc).
			if !c.IsWorker() {
				c.Count("executions", 1)
				c.Count("choice_points", int64(len(r.Choices)-len(t.prefix)))
				cfg.Check(r, picks(r))
			}
			next = append(next, children(r, t, cfg.Bound)...)
		}
		tasks = next
		if len(tasks) == 0 {
			break
		}
	}
	leafTasks = tasks
	_ = expandCount
	c.Units("dfs:"+cfg.Name, len(leafTasks), func(u int) {
		dfsSubtree(c, cfg, leafTasks[u])
	})
}

func picks(r *vsched.Result) []int {
	p := make([]int, len(r.Choices))
	for i, ch := range r.Choices {
		p[i] = ch.Pick
	}
	return p
}

// children lists the alternative tasks branching off execution r beyond t.prefix.
func children(r *vsched.Result, t dfsTask, bound int) []dfsTask {
	var out []dfsTask
	cost := t.cost
	for i := len(t.prefix); i < len(r.Choices); i++ {
		ch := r.Choices[i]
		// cost of choices taken before i is already in `cost` (default picks are 0 => free)
		// deviation bounding: every non-default scheduling decision costs 1 (whether it
		// preempts a runnable thread or picks another thread than the lowest-numbered one
		// after a block); select-case and rand alternatives are free (all enumerated).
		alt := cost
		if ch.Kind == 's' {
			alt++
		}
		if alt <= bound {
			for a := 1; a < ch.N; a++ {
				p := make([]int, i+1)
				sg := make([]uint64, i+1)
				for j := 0; j < i; j++ {
					p[j] = r.Choices[j].Pick
					sg[j] = r.Choices[j].Sig
				}
				p[i] = a
				sg[i] = ch.Sig
				out = append(out, dfsTask{prefix: p, sigs: sg, cost: alt})
			}
		}
	}
	return out
}

func dfsSubtree(c *Ctx, cfg DFSConfig, root dfsTask) {
	stack := []dfsTask{root}
	var n int64
	for len(stack) > 0 {
		if c.Expired() {
			c.NotExhaustive("deadline reached in schedule DFS " + cfg.Name)
			return
		}
		if cfg.MaxExec > 0 && n >= cfg.MaxExec {
			c.NotExhaustive("execution cap reached in schedule DFS " + cfg.Name)
			return
		}
		t := stack[len(stack)-1]
		stack = stack[:len(stack)-1]
		r, div := RunPrefix(t.prefix, t.sigs, false, cfg.Body)
		n++
		if div != "" {
			c.Fatal("%s: %s (prefix %v)", cfg.Name, div, t.prefix)
			return
		}
		if r.Fatal != "" {
			c.Fatal("%s: %s", cfg.Name, r.Fatal)
			return
		}
		c.Count("executions", 1)
		c.Count("choice_points", int64(len(r.Choices)-len(t.prefix)))
		cfg.Check(r, picks(r))
		stack = append(stack, children(r, t, cfg.Bound)...)
	}
}

// EnumerateFree runs body under every combination of its zero-cost choices (rand.Intn
// values, simultaneously-ready select cases) with the default schedule (no deviation).
// In-process, no sharding; returns the number of executions.
func EnumerateFree(c *Ctx, name string, body func(), check func(r *vsched.Result, choices []int)) int {
	stack := []dfsTask{{}}
	n := 0
	for len(stack) > 0 {
		t := stack[len(stack)-1]
		stack = stack[:len(stack)-1]
		r, div := RunPrefix(t.prefix, t.sigs, false, body)
		n++
		if div != "" {
			c.Fatal("%s: %s", name, div)
			return n
		}
		if r.Fatal != "" {
			c.Fatal("%s: %s", name, r.Fatal)
			return n
		}
		check(r, picks(r))
		stack = append(stack, children(r, t, 0)...)
		if n > 5000 {
			c.NotExhaustive("free-choice cap reached in " + name)
			return n
		}
	}
	return n
}
