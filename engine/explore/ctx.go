// Package explore holds the explorers (state BFS, scenario tree, schedule DFS), the
// evidence writer, the known-findings matcher and the worker-process sharding.
package explore

import (
	"crypto/sha1"
	"encoding/hex"
	"encoding/json"
	"fmt"
	"os"
	"os/exec"
	"path/filepath"
	"runtime/debug"
	"sort"
	"strconv"
	"strings"
	"sync"
	"time"
)

// Violation is one oracle failure.  Class names the *shape* of the wrong behaviour (the
// failing input shape / call site), so that known findings stay narrow.
type Violation struct {
	Property string `json:"property"`
	Rule     string `json:"rule"`
	Class    string `json:"class"`
	Case     any    `json:"case"`
	Expected string `json:"expected"`
	Observed string `json:"observed"`
	Count    int    `json:"count"`
}

type Finding struct {
	Property string `json:"property"`
	Rule     string `json:"rule"`
	Class    string `json:"class"`
	Text     string `json:"text"`
	Status   string `json:"status"` // "open" | "fixed"
	Commit   string `json:"commit,omitempty"`
}

// Data is what a worker hands back to the parent.
type Data struct {
	Counts        map[string]int64      `json:"counts"`
	Samples       []any                 `json:"samples"`
	Violations    map[string]*Violation `json:"violations"` // key rule|class
	Outcomes      map[string]int64      `json:"outcomes"`
	NotExhaustive []string              `json:"not_exhaustive"`
	Fatal         string                `json:"fatal"`
	Notes         []string              `json:"notes"`
}

func newData() *Data {
	return &Data{Counts: map[string]int64{}, Violations: map[string]*Violation{}, Outcomes: map[string]int64{}}
}

type Ctx struct {
	Prop     string
	Tier     string
	Seed     int64
	Start    time.Time
	Deadline time.Time
	Verif    string // /verif
	Workers  int

	workerPhase string
	workerIdx   int
	workerN     int

	mu sync.Mutex
	D  *Data

	Level       string
	Rule        string
	Assumptions []string
	Trusted     []string
	Extra       map[string]any
	ReplayArg   string
	maxSamples  int
}

func NewCtx(prop, tier string) *Ctx {
	c := &Ctx{Prop: prop, Tier: tier, Start: time.Now(), D: newData(), Extra: map[string]any{}, maxSamples: 6, Workers: 16}
	c.Verif = os.Getenv("VERIF_DIR")
	if c.Verif == "" {
		c.Verif = "/verif"
	}
	if s := os.Getenv("VERIF_SEED"); s != "" {
		c.Seed, _ = strconv.ParseInt(s, 10, 64)
	}
	if s := os.Getenv("VERIF_WORKERS"); s != "" {
		if n, err := strconv.Atoi(s); err == nil && n > 0 {
			c.Workers = n
		}
	}
	budget := 150 * time.Second
	if tier == "thorough" {
		budget = 30 * time.Minute
	}
	if s := os.Getenv("VERIF_BUDGET_S"); s != "" {
		if n, err := strconv.Atoi(s); err == nil && n > 0 {
			budget = time.Duration(n) * time.Second
		}
	}
	c.Deadline = c.Start.Add(budget)
	if s := os.Getenv("VERIF_DEADLINE_UNIX"); s != "" {
		if n, err := strconv.ParseInt(s, 10, 64); err == nil {
			c.Deadline = time.Unix(n, 0)
		}
	}
	return c
}

func (c *Ctx) Quick() bool    { return c.Tier != "thorough" }
func (c *Ctx) IsWorker() bool { return c.workerPhase != "" }
func (c *Ctx) Expired() bool  { return time.Now().After(c.Deadline) }

func (c *Ctx) Count(name string, n int64) {
	c.mu.Lock()
	c.D.Counts[name] += n
	c.mu.Unlock()
}

func (c *Ctx) Get(name string) int64 {
	c.mu.Lock()
	defer c.mu.Unlock()
	return c.D.Counts[name]
}

func (c *Ctx) Outcome(o string) {
	c.mu.Lock()
	c.D.Outcomes[o]++
	c.mu.Unlock()
}

func (c *Ctx) Note(format string, a ...any) {
	c.mu.Lock()
	c.D.Notes = append(c.D.Notes, fmt.Sprintf(format, a...))
	c.mu.Unlock()
}

func (c *Ctx) Sample(s any) {
	c.mu.Lock()
	if len(c.D.Samples) < c.maxSamples {
		c.D.Samples = append(c.D.Samples, s)
	}
	c.mu.Unlock()
}

// NotExhaustive records that some part was cut by a cap or deadline.
func (c *Ctx) NotExhaustive(why string) {
	c.mu.Lock()
	for _, w := range c.D.NotExhaustive {
		if w == why {
			c.mu.Unlock()
			return
		}
	}
	c.D.NotExhaustive = append(c.D.NotExhaustive, why)
	c.mu.Unlock()
}

// Fatal records a machinery error: exit 2, never a VIOLATION.
func (c *Ctx) Fatal(format string, a ...any) {
	c.mu.Lock()
	if c.D.Fatal == "" {
		c.D.Fatal = fmt.Sprintf(format, a...)
	}
	c.mu.Unlock()
}

// Violate records a violation; the first case per (rule, class) is kept as the replay.
func (c *Ctx) Violate(rule, class string, cas any, expected, observed string) {
	c.mu.Lock()
	defer c.mu.Unlock()
	k := rule + "|" + class
	if v := c.D.Violations[k]; v != nil {
		v.Count++
		return
	}
	c.D.Violations[k] = &Violation{Property: c.Prop, Rule: rule, Class: class, Case: cas, Expected: expected, Observed: observed, Count: 1}
}

func (c *Ctx) merge(d *Data) {
	c.mu.Lock()
	defer c.mu.Unlock()
	for k, v := range d.Counts {
		c.D.Counts[k] += v
	}
	for k, v := range d.Outcomes {
		c.D.Outcomes[k] += v
	}
	for _, s := range d.Samples {
		if len(c.D.Samples) < c.maxSamples {
			c.D.Samples = append(c.D.Samples, s)
		}
	}
	for k, v := range d.Violations {
		if e := c.D.Violations[k]; e != nil {
			e.Count += v.Count
		} else {
			c.D.Violations[k] = v
		}
	}
	for _, w := range d.NotExhaustive {
		dup := false
		for _, e := range c.D.NotExhaustive {
			dup = dup || e == w
		}
		if !dup {
			c.D.NotExhaustive = append(c.D.NotExhaustive, w)
		}
	}
	c.D.Notes = append(c.D.Notes, d.Notes...)
	if c.D.Fatal == "" {
		c.D.Fatal = d.Fatal
	}
}

// SetWorker puts the context in worker mode (called by main from flags).
func (c *Ctx) SetWorker(phase string, idx, n int) {
	c.workerPhase, c.workerIdx, c.workerN = phase, idx, n
}

// Units runs fn(u) for u in [0,n), sharded over worker processes.  In the parent it
// spawns the workers and merges their data; in a worker it runs the units of its
// residue class for the matching phase and exits the process.
func (c *Ctx) Units(phase string, n int, fn func(u int)) {
	if c.IsWorker() {
		if phase != c.workerPhase {
			return
		}
		for u := c.workerIdx; u < n; u += c.workerN {
			if c.Expired() {
				c.NotExhaustive("deadline reached in phase " + phase)
				break
			}
			c.guarded(phase, u, fn)
		}
		c.finishWorker()
	}
	w := c.Workers
	if w > n {
		w = n
	}
	if w <= 1 || os.Getenv("VERIF_INPROC") != "" {
		for u := 0; u < n; u++ {
			if c.Expired() {
				c.NotExhaustive("deadline reached in phase " + phase)
				break
			}
			c.guarded(phase, u, fn)
		}
		return
	}
	exe, err := os.Executable()
	if err != nil {
		c.Fatal("os.Executable: %v", err)
		return
	}
	var wg sync.WaitGroup
	for i := 0; i < w; i++ {
		wg.Add(1)
		go func(i int) {
			defer wg.Done()
			out := filepath.Join(c.Verif, ".work", "wk", fmt.Sprintf("%s-%s-%d.json", c.Prop, sanitize(phase), i))
			os.MkdirAll(filepath.Dir(out), 0o755)
			os.Remove(out)
			cmd := exec.Command(exe, "-prop", c.Prop, "-tier", c.Tier, "-worker", fmt.Sprintf("%s:%d:%d", phase, i, w), "-out", out)
			cmd.Env = append(os.Environ(), "GOMAXPROCS=1", "VERIF_DEADLINE_UNIX="+strconv.FormatInt(c.Deadline.Unix(), 10))
			cmd.Stderr = os.Stderr
			err := cmd.Run()
			b, rerr := os.ReadFile(out)
			if rerr != nil {
				c.Fatal("worker %s/%d: no result (%v, run error %v)", phase, i, rerr, err)
				return
			}
			var d Data
			if jerr := json.Unmarshal(b, &d); jerr != nil {
				c.Fatal("worker %s/%d: bad result: %v", phase, i, jerr)
				return
			}
			c.merge(&d)
			os.Remove(out)
		}(i)
	}
	wg.Wait()
}

// guarded runs one unit.  A panic that escapes it is a violation (rule no-panic) when
// the stack shows it was raised inside gmqtt code called by the check, and a machinery
// error otherwise.
func (c *Ctx) guarded(phase string, u int, fn func(u int)) {
	defer func() {
		x := recover()
		if x == nil {
			return
		}
		st := string(debug.Stack())
		frame := ""
		lines := strings.Split(st, "\n")
		seenPanic := false
		for _, l := range lines {
			l = strings.TrimSpace(l)
			if strings.HasPrefix(l, "panic(") {
				seenPanic = true
				continue
			}
			if !seenPanic || !strings.Contains(l, "(") || strings.HasPrefix(l, "/") {
				continue
			}
			if strings.HasPrefix(l, "runtime.") || strings.HasPrefix(l, "runtime/") {
				continue
			}
			// first non-runtime frame after the panic: gmqtt's own code or ours?
			if strings.HasPrefix(l, "github.com/DrmagicE/gmqtt/") && !strings.Contains(l, "/zzverif/") && !strings.Contains(l, "Verif") {
				frame = strings.TrimPrefix(l, "github.com/DrmagicE/gmqtt/")
				if j := strings.Index(frame, "("); j > 0 {
					frame = frame[:j]
				}
			}
			break
		}
		msg := fmt.Sprint(x)
		if len(msg) > 80 {
			msg = msg[:80]
		}
		if frame == "" {
			c.Fatal("panic in phase %s unit %d outside gmqtt code: %v\n%s", phase, u, x, st)
			return
		}
		if len(lines) > 30 {
			lines = lines[:30]
		}
		c.Violate("no-panic", msg+" @ "+frame, map[string]any{"phase": phase, "unit": u}, "no panic", fmt.Sprint(x)+"\n"+strings.Join(lines, "\n"))
	}()
	fn(u)
}

func sanitize(s string) string {
	return strings.Map(func(r rune) rune {
		if r >= 'a' && r <= 'z' || r >= 'A' && r <= 'Z' || r >= '0' && r <= '9' || r == '-' || r == '_' {
			return r
		}
		return '_'
	}, s)
}

var workerOut string

func SetWorkerOut(p string) { workerOut = p }

func (c *Ctx) finishWorker() {
	b, _ := json.Marshal(c.D)
	if err := os.WriteFile(workerOut, b, 0o644); err != nil {
		fmt.Fprintln(os.Stderr, "worker: write:", err)
		os.Exit(2)
	}
	os.Exit(0)
}

// ---------------------------------------------------------------- finishing

func loadFindings(verif string) ([]Finding, error) {
	b, err := os.ReadFile(filepath.Join(verif, "known_findings.json"))
	if err != nil {
		if os.IsNotExist(err) {
			return nil, nil
		}
		return nil, err
	}
	var fs []Finding
	if err := json.Unmarshal(b, &fs); err != nil {
		return nil, err
	}
	return fs, nil
}

// outDir: evidence/replays go to /verif/<kind>, or to .work/mut/<kind> for mutant runs.
func (c *Ctx) outDir(kind string) string {
	if os.Getenv("VERIF_NOEVIDENCE") != "" {
		return filepath.Join(c.Verif, ".work", "mut", kind)
	}
	return filepath.Join(c.Verif, kind)
}

// Finish writes the evidence file, prints KNOWN-FINDING / VIOLATION lines and returns
// the process exit code.
func (c *Ctx) Finish() int {
	if c.IsWorker() {
		c.finishWorker()
	}
	d := c.D
	if d.Fatal != "" {
		fmt.Printf("MACHINERY-ERROR property=%s %s\n", c.Prop, d.Fatal)
		return 2
	}
	findings, err := loadFindings(c.Verif)
	if err != nil {
		fmt.Printf("MACHINERY-ERROR property=%s known_findings.json: %v\n", c.Prop, err)
		return 2
	}
	if old, _ := filepath.Glob(filepath.Join(c.outDir("replays"), c.Prop+"-*.json")); c.ReplayArg == "" {
		for _, f := range old {
			os.Remove(f)
		}
	}
	keys := make([]string, 0, len(d.Violations))
	for k := range d.Violations {
		keys = append(keys, k)
	}
	sort.Strings(keys)
	newViol := 0
	known := 0
	for _, k := range keys {
		v := d.Violations[k]
		matched := false
		for _, f := range findings {
			if f.Property == c.Prop && f.Rule == v.Rule && f.Class == v.Class && f.Status == "open" {
				fmt.Printf("KNOWN-FINDING: property=%s %s [rule=%s class=%s occurrences=%d]\n", c.Prop, f.Text, v.Rule, v.Class, v.Count)
				matched = true
				known++
				break
			}
		}
		if matched {
			continue
		}
		newViol++
		h := sha1.Sum([]byte(k))
		path := filepath.Join(c.outDir("replays"), fmt.Sprintf("%s-%s.json", c.Prop, hex.EncodeToString(h[:5])))
		os.MkdirAll(filepath.Dir(path), 0o755)
		b, _ := json.MarshalIndent(v, "", " ")
		os.WriteFile(path, b, 0o644)
		fmt.Printf("VIOLATION property=%s replay=%s\n", c.Prop, path)
		fmt.Printf("  rule=%s class=%s occurrences=%d\n  expected: %s\n  observed: %s\n", v.Rule, v.Class, v.Count, v.Expected, v.Observed)
	}
	exhaustive := len(d.NotExhaustive) == 0
	cov := map[string]any{}
	for k, v := range c.Extra {
		cov[k] = v
	}
	for k, v := range d.Counts {
		cov[k] = v
	}
	cov["rule"] = c.Rule
	cov["samples"] = d.Samples
	if len(d.Samples) == 0 {
		cov["samples"] = []any{"(no sample recorded)"}
	}
	cov["exhaustive"] = exhaustive
	if !exhaustive {
		cov["not_exhaustive_because"] = d.NotExhaustive
	}
	if len(d.Outcomes) > 0 {
		cov["distinct_outcomes"] = len(d.Outcomes)
		if len(d.Outcomes) <= 40 {
			cov["outcomes"] = d.Outcomes
		}
	}
	if len(c.Trusted) > 0 {
		cov["trusted_base"] = c.Trusted
	}
	if len(d.Notes) > 0 {
		if len(d.Notes) > 20 {
			d.Notes = d.Notes[:20]
		}
		cov["notes"] = d.Notes
	}
	cov["known_findings_seen"] = known
	ev := map[string]any{
		"property_id": c.Prop,
		"tier":        c.Tier,
		"seed":        c.Seed,
		"level":       c.Level,
		"coverage":    cov,
		"assumptions": c.Assumptions,
		"wall_s":      time.Since(c.Start).Seconds(),
		"violations":  newViol,
	}
	if c.Assumptions == nil {
		ev["assumptions"] = []string{}
	}
	b, _ := json.MarshalIndent(ev, "", " ")
	if c.ReplayArg != "" {
		if newViol > 0 {
			return 1
		}
		return 0
	}
	os.MkdirAll(c.outDir("evidence"), 0o755)
	if err := os.WriteFile(filepath.Join(c.outDir("evidence"), c.Prop+".json"), b, 0o644); err != nil {
		fmt.Printf("MACHINERY-ERROR property=%s evidence: %v\n", c.Prop, err)
		return 2
	}
	var parts []string
	cn := make([]string, 0, len(d.Counts))
	for k := range d.Counts {
		cn = append(cn, k)
	}
	sort.Strings(cn)
	for _, k := range cn {
		parts = append(parts, fmt.Sprintf("%s=%d", k, d.Counts[k]))
	}
	fmt.Printf("%s %s: %s exhaustive=%v outcomes=%d known=%d violations=%d wall=%.1fs\n", c.Prop, c.Tier, strings.Join(parts, " "), exhaustive, len(d.Outcomes), known, newViol, time.Since(c.Start).Seconds())
	if newViol > 0 {
		return 1
	}
	return 0
}
