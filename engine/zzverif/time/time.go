// Package time is the vsched shim of the standard time package (subset used by gmqtt).
// Time and Duration are aliases of the std types so values flow to other libraries.
package time

import (
	std "time"

	"github.com/DrmagicE/gmqtt/zzverif/vsched"
)

type Time = std.Time
type Duration = std.Duration
type Month = std.Month
type Location = std.Location

const (
	Nanosecond  = std.Nanosecond
	Microsecond = std.Microsecond
	Millisecond = std.Millisecond
	Second      = std.Second
	Minute      = std.Minute
	Hour        = std.Hour
	RFC3339     = std.RFC3339
)

var UTC = std.UTC

func Now() Time                                { return std.Unix(0, vsched.Now()) }
func Unix(sec int64, nsec int64) Time          { return std.Unix(sec, nsec) }
func Since(t Time) Duration                    { return Now().Sub(t) }
func Until(t Time) Duration                    { return t.Sub(Now()) }
func ParseDuration(s string) (Duration, error) { return std.ParseDuration(s) }
func Sleep(d Duration)                         { vsched.Sleep(int64(d)) }

type Timer struct {
	C <-chan Time
	c chan Time
	h vsched.TimerHandle
}

func NewTimer(d Duration) *Timer {
	c := make(chan Time, 1)
	t := &Timer{C: c, c: c}
	t.h = vsched.AddTimer(int64(d), 0, t.fire)
	return t
}

func (t *Timer) fire(now int64) {
	select {
	case t.c <- std.Unix(0, now):
		vsched.NotifySent(vsched.S((chan<- Time)(t.c)))
	default:
	}
}

func (t *Timer) Stop() bool { return t.h.Stop() }

func (t *Timer) Reset(d Duration) bool {
	was := t.h.Stop()
	t.h = vsched.AddTimer(int64(d), 0, t.fire)
	return was
}

func After(d Duration) <-chan Time { return NewTimer(d).C }

func AfterFunc(d Duration, f func()) *Timer {
	t := &Timer{}
	t.h = vsched.AddTimer(int64(d), 0, func(int64) { vsched.Go("AfterFunc", f) })
	return t
}

type Ticker struct {
	C <-chan Time
	c chan Time
	h vsched.TimerHandle
}

func NewTicker(d Duration) *Ticker {
	if d <= 0 {
		panic("non-positive interval for NewTicker")
	}
	c := make(chan Time, 1)
	t := &Ticker{C: c, c: c}
	t.h = vsched.AddTimer(int64(d), int64(d), func(now int64) {
		select {
		case c <- std.Unix(0, now):
			vsched.NotifySent(vsched.S((chan<- Time)(c)))
		default:
		}
	})
	return t
}

func (t *Ticker) Stop() { t.h.Stop() }
