// Package time is the vsched shim of the standard time package (subset used by gmqtt).
// Time and Duration are aliases of the std types so values flow to other libraries.
package time

import (
	std "time"

	"github.com/DrmagicE/gmqtt/zzverif/vsched"
)

type Time = std.Time
type Duration = std.Duration
type Month = std.Month
type Location = std.Location
type Weekday = std.Weekday
type ParseError = std.ParseError

const (
	Nanosecond  = std.Nanosecond
	Microsecond = std.Microsecond
	Millisecond = std.Millisecond
	Second      = std.Second
	Minute      = std.Minute
	Hour        = std.Hour
	RFC3339     = std.RFC3339
	RFC3339Nano = std.RFC3339Nano
	RFC1123     = std.RFC1123
	RFC822      = std.RFC822
	Kitchen     = std.Kitchen
	DateTime    = std.DateTime
	DateOnly    = std.DateOnly
	TimeOnly    = std.TimeOnly
	January     = std.January
)

var UTC = std.UTC
var Local = std.Local

// clock-independent functions pass through
func UnixMilli(ms int64) Time { return std.UnixMilli(ms) }
func UnixMicro(us int64) Time { return std.UnixMicro(us) }
func Date(y int, m Month, d, h, mi, s, ns int, loc *Location) Time {
	return std.Date(y, m, d, h, mi, s, ns, loc)
}
func Parse(layout, value string) (Time, error)    { return std.Parse(layout, value) }
func LoadLocation(name string) (*Location, error) { return std.LoadLocation(name) }
func FixedZone(name string, offset int) *Location { return std.FixedZone(name, offset) }
func Tick(d Duration) <-chan Time                 { return NewTicker(d).C }

func Now() Time                                { return std.Unix(0, vsched.Now()) }
func Unix(sec int64, nsec int64) Time          { return std.Unix(sec, nsec) }
func Since(t Time) Duration                    { return Now().Sub(t) }
func Until(t Time) Duration                    { return t.Sub(Now()) }
func ParseDuration(s string) (Duration, error) { return std.ParseDuration(s) }
func Sleep(d Duration)                         { vsched.Sleep(int64(d)) }

type Timer struct {
	C <-chan Time
	c chan Time
	h vsched.TimerHandle
}

func NewTimer(d Duration) *Timer {
	c := make(chan Time, 1)
	t := &Timer{C: c, c: c}
	t.h = vsched.AddTimer(int64(d), 0, t.fire)
	return t
}

func (t *Timer) fire(now int64) {
	select {
	case t.c <- std.Unix(0, now):
		vsched.NotifySent(vsched.S((chan<- Time)(t.c)))
	default:
	}
}

func (t *Timer) Stop() bool { return t.h.Stop() }

func (t *Timer) Reset(d Duration) bool {
	was := t.h.Stop()
	t.h = vsched.AddTimer(int64(d), 0, t.fire)
	return was
}

func After(d Duration) <-chan Time { return NewTimer(d).C }

func AfterFunc(d Duration, f func()) *Timer {
	t := &Timer{}
	t.h = vsched.AddTimer(int64(d), 0, func(int64) { vsched.Go("AfterFunc", f) })
	return t
}

type Ticker struct {
	C <-chan Time
	c chan Time
	h vsched.TimerHandle
}

func NewTicker(d Duration) *Ticker {
	if d <= 0 {
		panic("non-positive interval for NewTicker")
	}
	c := make(chan Time, 1)
	t := &Ticker{C: c, c: c}
	t.h = vsched.AddTimer(int64(d), int64(d), func(now int64) {
		select {
		case c <- std.Unix(0, now):
			vsched.NotifySent(vsched.S((chan<- Time)(c)))
		default:
		}
	})
	return t
}

func (t *Ticker) Stop() { t.h.Stop() }

// Reset is not used by gmqtt; it restarts the period.
func (t *Ticker) Reset(d Duration) {
	t.h.Stop()
	c := t.c
	t.h = vsched.AddTimer(int64(d), int64(d), func(now int64) {
		select {
		case c <- std.Unix(0, now):
			vsched.NotifySent(vsched.S((chan<- Time)(c)))
		default:
		}
	})
}
