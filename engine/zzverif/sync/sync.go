// Package sync is the vsched shim of the standard sync package (subset used by gmqtt).
package sync

import (
	"github.com/DrmagicE/gmqtt/zzverif/vsched"
)

type Locker interface {
	Lock()
	Unlock()
}

type Mutex struct {
	held bool
}

func (m *Mutex) Lock() {
	if m.held || vsched.Active() {
		vsched.WaitUntil("Mutex.Lock", func() bool { return !m.held })
	}
	m.held = true
}

func (m *Mutex) TryLock() bool {
	if vsched.Active() {
		vsched.Point("Mutex.TryLock")
	}
	if m.held {
		return false
	}
	m.held = true
	return true
}

func (m *Mutex) Unlock() {
	if !m.held {
		if vsched.Killing() {
			return
		}
		panic("sync: unlock of unlocked mutex")
	}
	m.held = false
}

type RWMutex struct {
	w       bool
	readers int
}

func (m *RWMutex) Lock() {
	if m.w || m.readers > 0 || vsched.Active() {
		vsched.WaitUntil("RWMutex.Lock", func() bool { return !m.w && m.readers == 0 })
	}
	m.w = true
}

func (m *RWMutex) Unlock() {
	if !m.w {
		if vsched.Killing() {
			return
		}
		panic("sync: Unlock of unlocked RWMutex")
	}
	m.w = false
}

func (m *RWMutex) RLock() {
	if m.w || vsched.Active() {
		vsched.WaitUntil("RWMutex.RLock", func() bool { return !m.w })
	}
	m.readers++
}

func (m *RWMutex) RUnlock() {
	if m.readers <= 0 {
		if vsched.Killing() {
			return
		}
		panic("sync: RUnlock of unlocked RWMutex")
	}
	m.readers--
}

// TryLock / TryRLock: a scheduling point (whether the lock is free depends on who ran first),
// never blocking.
func (m *RWMutex) TryLock() bool {
	if vsched.Active() {
		vsched.Point("RWMutex.TryLock")
	}
	if m.w || m.readers > 0 {
		return false
	}
	m.w = true
	return true
}

func (m *RWMutex) TryRLock() bool {
	if vsched.Active() {
		vsched.Point("RWMutex.TryRLock")
	}
	if m.w {
		return false
	}
	m.readers++
	return true
}

func (m *RWMutex) RLocker() Locker { return (*rlocker)(m) }

type rlocker RWMutex

func (r *rlocker) Lock()   { (*RWMutex)(r).RLock() }
func (r *rlocker) Unlock() { (*RWMutex)(r).RUnlock() }

type condWaiter struct{ signaled bool }

type Cond struct {
	L       Locker
	waiters []*condWaiter
}

func NewCond(l Locker) *Cond { return &Cond{L: l} }

func (c *Cond) Wait() {
	w := &condWaiter{}
	c.waiters = append(c.waiters, w)
	c.L.Unlock()
	vsched.WaitUntil("Cond.Wait", func() bool { return w.signaled })
	c.L.Lock()
}

func (c *Cond) Signal() {
	if len(c.waiters) > 0 {
		c.waiters[0].signaled = true
		c.waiters = c.waiters[1:]
	}
}

func (c *Cond) Broadcast() {
	for _, w := range c.waiters {
		w.signaled = true
	}
	c.waiters = nil
}

type WaitGroup struct {
	n int
}

func (wg *WaitGroup) Add(d int) {
	wg.n += d
	if wg.n < 0 {
		if vsched.Killing() {
			wg.n = 0
			return
		}
		panic("sync: negative WaitGroup counter")
	}
}

func (wg *WaitGroup) Done() { wg.Add(-1) }

func (wg *WaitGroup) Wait() {
	if wg.n != 0 || vsched.Active() {
		vsched.WaitUntil("WaitGroup.Wait", func() bool { return wg.n == 0 })
	}
}

type Once struct {
	done    bool
	running bool
}

func (o *Once) Do(f func()) {
	if o.done {
		return
	}
	if o.running || vsched.Active() {
		vsched.WaitUntil("Once.Do", func() bool { return !o.running })
	}
	if o.done {
		return
	}
	o.running = true
	defer func() {
		o.running = false
		o.done = true
	}()
	f()
}

// Pool is a deterministic LIFO free list.
type Pool struct {
	New   func() any
	items []any
}

func (p *Pool) Get() any {
	if n := len(p.items); n > 0 {
		v := p.items[n-1]
		p.items = p.items[:n-1]
		return v
	}
	if p.New != nil {
		return p.New()
	}
	return nil
}

func (p *Pool) Put(v any) {
	if v == nil {
		return
	}
	if len(p.items) < 64 {
		p.items = append(p.items, v)
	}
}

// ---- the rest of package sync, so that a change that starts using it still builds.

// Map: a plain map behind the shim mutex (every method is a scheduling point through it).
type Map struct {
	mu Mutex
	m  map[any]any
	ks []any // insertion order, for a deterministic Range
}

func (m *Map) Load(k any) (any, bool) {
	m.mu.Lock()
	defer m.mu.Unlock()
	v, ok := m.m[k]
	return v, ok
}

func (m *Map) Store(k, v any) {
	m.mu.Lock()
	defer m.mu.Unlock()
	if m.m == nil {
		m.m = map[any]any{}
	}
	if _, ok := m.m[k]; !ok {
		m.ks = append(m.ks, k)
	}
	m.m[k] = v
}

func (m *Map) LoadOrStore(k, v any) (any, bool) {
	m.mu.Lock()
	defer m.mu.Unlock()
	if o, ok := m.m[k]; ok {
		return o, true
	}
	if m.m == nil {
		m.m = map[any]any{}
	}
	m.ks = append(m.ks, k)
	m.m[k] = v
	return v, false
}

func (m *Map) LoadAndDelete(k any) (any, bool) {
	m.mu.Lock()
	defer m.mu.Unlock()
	v, ok := m.m[k]
	if ok {
		delete(m.m, k)
		for i, x := range m.ks {
			if x == k {
				m.ks = append(m.ks[:i:i], m.ks[i+1:]...)
				break
			}
		}
	}
	return v, ok
}

func (m *Map) Delete(k any) { m.LoadAndDelete(k) }

func (m *Map) Swap(k, v any) (any, bool) {
	o, ok := m.Load(k)
	m.Store(k, v)
	return o, ok
}

func (m *Map) Range(f func(k, v any) bool) {
	m.mu.Lock()
	ks := append([]any{}, m.ks...)
	m.mu.Unlock()
	for _, k := range ks {
		v, ok := m.Load(k)
		if ok && !f(k, v) {
			return
		}
	}
}

func OnceFunc(f func()) func() {
	var o Once
	return func() { o.Do(f) }
}

func OnceValue[T any](f func() T) func() T {
	var o Once
	var v T
	return func() T {
		o.Do(func() { v = f() })
		return v
	}
}
