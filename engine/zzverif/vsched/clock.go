package vsched

import (
	"sort"
	stdtime "time"
)

// Virtual clock.  Time only moves when the harness calls Advance (or FireNext).

type vtimer struct {
	when   int64
	seq    int
	fire   func(now int64)
	active bool
	period int64
}

// Now returns the virtual time in ns since the Unix epoch (real time outside executions).
func Now() int64 {
	if s := cur; s != nil {
		return s.now
	}
	return passNow
}

// passNow is the "time" seen in passthrough mode; harness code may set it.
var passNow int64 = Epoch

// SetPassNow sets the passthrough-mode clock.
func SetPassNow(ns int64) { passNow = ns }

// TimerHandle identifies a registered virtual timer.
type TimerHandle struct{ t *vtimer }

// AddTimer registers fire to run (from the advancing context) when the clock reaches
// now+d.  period > 0 re-arms it.
func AddTimer(d int64, period int64, fire func(now int64)) TimerHandle {
	s := cur
	if s == nil {
		return TimerHandle{&vtimer{}}
	}
	if d < 0 {
		d = 0
	}
	s.tseq++
	t := &vtimer{when: s.now + d, seq: s.tseq, fire: fire, active: true, period: period}
	s.timers = append(s.timers, t)
	return TimerHandle{t}
}

// Stop deactivates the timer; reports whether it was active.
func (h TimerHandle) Stop() bool {
	if h.t == nil {
		return false
	}
	was := h.t.active
	h.t.active = false
	return was
}

func (s *Sched) nextTimer() *vtimer {
	var best *vtimer
	live := s.timers[:0]
	for _, t := range s.timers {
		if !t.active {
			continue
		}
		live = append(live, t)
		if best == nil || t.when < best.when || (t.when == best.when && t.seq < best.seq) {
			best = t
		}
	}
	s.timers = live
	return best
}

// NextTimerAt returns the instant of the earliest active timer, or -1.
func NextTimerAt() int64 {
	s := cur
	if s == nil {
		return -1
	}
	if t := s.nextTimer(); t != nil {
		return t.when
	}
	return -1
}

// FireNext advances the clock to the earliest active timer and fires it.  It does not
// settle.  Returns false when no timer is active or it is later than limit (ns, <0 = none).
func FireNext(limit int64) bool {
	s := cur
	if s == nil {
		return false
	}
	t := s.nextTimer()
	if t == nil || (limit >= 0 && t.when > limit) {
		return false
	}
	if t.when > s.now {
		s.now = t.when
	}
	if t.period > 0 {
		t.when += t.period
		s.tseq++
		t.seq = s.tseq
	} else {
		t.active = false
	}
	t.fire(s.now)
	return true
}

// Advance moves the virtual clock forward by d, firing due timers in order and
// letting the system settle after each (call from the harness thread only).
func Advance(d stdtime.Duration) {
	s := cur
	if s == nil {
		passNow += int64(d)
		return
	}
	target := s.now + int64(d)
	for FireNext(target) {
		Settle()
	}
	s.now = target
	Settle()
}

// PendingTimers returns the sorted instants (relative to now, ns) of active timers.
func PendingTimers() []int64 {
	s := cur
	if s == nil {
		return nil
	}
	var out []int64
	for _, t := range s.timers {
		if t.active {
			out = append(out, t.when-s.now)
		}
	}
	sort.Slice(out, func(i, j int) bool { return out[i] < out[j] })
	return out
}

// SleepUntil parks the current thread until the virtual clock reaches the instant.
func Sleep(d int64) {
	s := cur
	if s == nil {
		passNow += d
		return
	}
	wake := s.now + d
	h := AddTimer(d, 0, func(int64) {})
	s.park("sleep", func() bool { return s.now >= wake })
	h.Stop()
}
