package vsched

import (
	"net"

	redigo "github.com/gomodule/redigo/redis"

	"cmp"
	"slices"
)

// SortedKeys returns the keys of m in ascending order (a legal, deterministic map
// iteration order).
func SortedKeys[M ~map[K]V, K cmp.Ordered, V any](m M) []K {
	keys := make([]K, 0, len(m))
	for k := range m {
		keys = append(keys, k)
	}
	slices.Sort(keys)
	return keys
}

// RedisDialers maps a redis address to a function that opens an in-scheduler connection
// to a RESP server run by the harness.  The overlay rewrites gmqtt's redigo.Dial calls to
// RedisDial, so that every redis command becomes a pair of scheduling points (the caller
// blocks on the reply while other threads run), like the network round trip it stands for.
var RedisDialers = map[string]func() net.Conn{}

func RedisDial(network, address string, options ...redigo.DialOption) (redigo.Conn, error) {
	if f := RedisDialers[address]; f != nil && cur != nil {
		return redigo.NewConn(f(), 0, 0), nil
	}
	return redigo.Dial(network, address, options...)
}
