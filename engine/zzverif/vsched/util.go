package vsched

import (
	"cmp"
	"slices"
)

// SortedKeys returns the keys of m in ascending order (a legal, deterministic map
// iteration order).
func SortedKeys[M ~map[K]V, K cmp.Ordered, V any](m M) []K {
	keys := make([]K, 0, len(m))
	for k := range m {
		keys = append(keys, k)
	}
	slices.Sort(keys)
	return keys
}
