// Package vsched is a cooperative scheduler that owns every synchronisation
// operation of the (overlay-transformed) gmqtt code.  Exactly one thread runs at a
// time; a thread reaches the scheduler only at a "point".  All nondeterminism
// (which thread runs next, which ready select case is taken, rand.Intn) is decided
// by a Chooser, so an explorer can enumerate executions exhaustively and replay them.
package vsched

import (
	"fmt"
	"os"
	"runtime"
	"runtime/debug"
	"strings"
)

// Choice is one decision taken during an execution.
type Choice struct {
	Kind    byte // 's' schedule, 'c' select case, 'r' rand
	N       int  // number of alternatives
	Pick    int
	Preempt bool   // alternatives > 0 preempt a still-enabled running thread
	Sig     uint64 // signature of the enabled set (divergence detection on replay)
	Label   string
}

// Chooser decides choice points.  Must return 0 <= r < c.N.
type Chooser interface {
	Choose(c *Choice) int
}

type defaultChooser struct{}

func (defaultChooser) Choose(c *Choice) int { return 0 }

type Thread struct {
	ID       int
	Name     string
	wake     chan struct{}
	pred     func() bool
	label    string
	done     bool
	finished bool
	low      bool
	sel      *selState
	started  bool
	prio     int  // scheduling priority (higher first); demoted threads get negative values
	backoff  bool // parked in Backoff: keeps its low priority until Backoff returns
	since    int  // step at which the thread became runnable (FIFO run queue order); -1 = not runnable
}

func (t *Thread) String() string { return fmt.Sprintf("T%d(%s)@%s", t.ID, t.Name, t.label) }

// Label returns what the thread is currently parked on.
func (t *Thread) Label() string { return t.label }

type Options struct {
	MaxSteps int // 0 => 2,000,000
	Trace    bool
	// SwitchChoice: when the running thread blocks and several threads are runnable, demoting the
	// one that would go next is offered as a deviation too (small scenarios only: the number of
	// such points is large in whole-broker executions)
	SwitchChoice bool
}

type Result struct {
	Choices    []Choice
	Steps      int
	Panic      string // non-empty: a thread panicked (value + stack)
	Deadlock   bool   // main thread never finished
	StepLimit  bool
	Spinner    string   // with StepLimit: "name@label" of the thread that alone kept running (a busy loop), if any
	Parked     []string // threads still parked when main finished: "name@label"
	ParkedMain string
	Fatal      string // machinery error (not a property violation)
	Log        []string
}

type Sched struct {
	threads []*Thread
	running *Thread
	yield   chan struct{}
	chooser Chooser
	res     *Result
	opt     Options
	killing bool
	fatal   string
	steps   int

	// virtual time
	now    int64
	timers []*vtimer
	tseq   int

	chans   map[uintptr]*chanState
	lastSel selDone

	randSeq int
	minPrio int
	// Seq is a global logical clock: incremented by Stamp().
	seq int64
}

var cur *Sched

// Active reports whether an execution is in progress.
func Active() bool { return cur != nil }

// Killing reports whether the execution is being torn down.
func Killing() bool { return cur != nil && cur.killing }

// Epoch is the virtual start time (ns since Unix epoch): 2030-01-01T00:00:00Z.
const Epoch int64 = 1893456000 * 1e9

// Run executes main as thread 0 under the scheduler and returns when main has
// finished and no other thread is enabled (or on deadlock / panic / step limit).
func Run(ch Chooser, opt Options, main func()) *Result {
	if cur != nil {
		panic("vsched: nested Run")
	}
	if ch == nil {
		ch = defaultChooser{}
	}
	if opt.MaxSteps == 0 {
		opt.MaxSteps = 2000000
	}
	s := &Sched{yield: make(chan struct{}), chooser: ch, res: &Result{}, opt: opt, now: Epoch,
		chans: make(map[uintptr]*chanState)}
	cur = s
	defer func() { cur = nil }()
	mainT := s.spawn("main", main)
	var en []*Thread
	var lastRun *Thread
	consec := 0
	for {
		en = s.enabled(en[:0])
		if len(en) == 0 {
			break
		}
		// Scheduling policy: highest priority first; among equals the running thread
		// continues, then ascending ids.  The only scheduling choice is, at a point where
		// the running thread could continue although others are runnable, to DEMOTE it
		// below every other thread (it then sleeps until the others have run as far as
		// they can).  One demotion = one deviation from the default schedule.
		t := en[0]
		if len(en) > 1 && s.running != nil && en[0] == s.running && !s.running.low {
			c := Choice{Kind: 's', N: 2, Preempt: true, Sig: sigOf(en)}
			if opt.Trace {
				c.Label = labelsOf(en)
			}
			if s.choose(&c) == 1 {
				s.minPrio--
				s.running.prio = s.minPrio
				en = s.enabled(en[:0])
				t = en[0]
			}
		} else if len(en) > 1 && en[0] != s.running && !en[0].low && en[0].prio == 0 && en[1].prio == 0 && !en[1].low && opt.SwitchChoice {
			// the running thread blocked (or ended): by default the thread that has been runnable
			// longest goes next; as a deviation, that thread is demoted and the next one goes first
			// (two messages arriving at two servers, two waiters of one lock: either order)
			c := Choice{Kind: 'w', N: 2, Preempt: true, Sig: sigOf(en)}
			if opt.Trace {
				c.Label = labelsOf(en)
			}
			if s.choose(&c) == 1 {
				s.minPrio--
				en[0].prio = s.minPrio
				en = s.enabled(en[:0])
				t = en[0]
			}
		}
		// a demotion lasts until the demoted thread is scheduled again (i.e. until every other
		// thread has run as far as it can): from then on it competes normally, so that one
		// deviation is one local reordering and not a permanent change of priorities
		if t.prio < 0 && !t.backoff {
			t.prio = 0
		}
		s.running = t
		if opt.Trace && os.Getenv("VERIF_TRACE_STEPS") != "" {
			s.res.Log = append(s.res.Log, fmt.Sprintf("[%d] resume %s@%s", s.steps, t.Name, t.label))
			if len(s.res.Log) > 3000 {
				s.res.Log = s.res.Log[1000:]
			}
		}
		if t == lastRun {
			consec++
		} else {
			lastRun, consec = t, 0
		}
		t.wake <- struct{}{}
		<-s.yield
		s.steps++
		if s.fatal != "" || s.res.Panic != "" {
			break
		}
		if s.steps > opt.MaxSteps || consec > 300000 {
			s.res.StepLimit = true
			if consec > 100000 {
				s.res.Spinner = t.Name + "@" + t.label
			}
			break
		}
		if mainT.done {
			// main finished: let the rest settle is main's business (it calls Settle); stop here.
			break
		}
	}
	s.res.Steps = s.steps
	s.res.Fatal = s.fatal
	if !mainT.done && s.res.Panic == "" && s.fatal == "" && !s.res.StepLimit {
		s.res.Deadlock = true
		s.res.ParkedMain = mainT.label
	}
	for _, t := range s.threads {
		if !t.done && t != mainT {
			s.res.Parked = append(s.res.Parked, t.Name+"@"+t.label)
		}
	}
	// tear down: make every remaining thread exit.
	s.killing = true
	for _, t := range s.threads {
		if !t.done {
			s.running = t
			t.wake <- struct{}{}
			<-s.yield
		}
	}
	s.running = nil
	return s.res
}

func sigOf(en []*Thread) uint64 {
	var h uint64 = 1469598103934665603
	for _, t := range en {
		h ^= uint64(t.ID) + 1
		h *= 1099511628211
	}
	return h
}

func labelsOf(en []*Thread) string {
	var sb strings.Builder
	for i, t := range en {
		if i > 0 {
			sb.WriteByte(' ')
		}
		fmt.Fprintf(&sb, "T%d:%s:%s", t.ID, t.Name, t.label)
	}
	return sb.String()
}

func (s *Sched) choose(c *Choice) int {
	r := s.chooser.Choose(c)
	if r < 0 || r >= c.N {
		s.fatal = fmt.Sprintf("chooser returned %d for N=%d (kind %c %s)", r, c.N, c.Kind, c.Label)
		r = 0
	}
	c.Pick = r
	s.res.Choices = append(s.res.Choices, *c)
	return r
}

// enabled returns runnable threads in canonical order: the running thread first if
// it is still enabled, then ascending ids.  Low-priority threads only when no normal
// thread is enabled.
func (s *Sched) enabled(buf []*Thread) []*Thread {
	en := buf
	for _, t := range s.threads {
		if t.done || t.low {
			continue
		}
		if t.pred == nil || t.pred() {
			if t.since < 0 {
				t.since = s.steps
			}
			en = append(en, t)
		} else {
			t.since = -1
		}
	}
	if len(en) > 0 {
		// order: priority desc; the running thread continues; otherwise the thread that
		// has been runnable longest (FIFO run queue, like the Go scheduler), then id.
		best := 0
		for i, t := range en {
			b := en[best]
			switch {
			case t.prio != b.prio:
				if t.prio > b.prio {
					best = i
				}
			case b == s.running:
			case t == s.running:
				best = i
			case t.since < b.since:
				best = i
			}
		}
		if best != 0 {
			t := en[best]
			copy(en[1:best+1], en[:best])
			en[0] = t
		}
		return en
	}
	for _, t := range s.threads {
		if t.done || !t.low {
			continue
		}
		if t.pred == nil || t.pred() {
			en = append(en, t)
		}
	}
	return en
}

func (s *Sched) spawn(name string, fn func()) *Thread {
	t := &Thread{ID: len(s.threads), Name: name, wake: make(chan struct{}), label: "start", since: s.steps}
	s.threads = append(s.threads, t)
	go func() {
		defer func() {
			if !t.finished && !s.killing {
				if r := recover(); r != nil {
					s.res.Panic = fmt.Sprintf("thread %s: panic: %v\n%s", t.Name, r, debug.Stack())
				}
			} else if s.killing {
				_ = recover()
			}
			t.done = true
			s.yield <- struct{}{}
		}()
		<-t.wake
		if s.killing {
			return
		}
		t.started = true
		fn()
		t.finished = true
	}()
	return t
}

// park yields to the scheduler; returns when this thread is scheduled again (pred true).
func (s *Sched) park(label string, pred func() bool) {
	t := s.running
	if s.killing {
		runtime.Goexit()
	}
	t.pred, t.label = pred, label
	s.yield <- struct{}{}
	<-t.wake
	if s.killing {
		runtime.Goexit()
	}
	t.pred = nil
}

// Go starts fn as a new thread.
func Go(name string, fn func()) {
	s := cur
	if s == nil {
		panic("vsched: go statement outside an execution: " + name)
	}
	if s.killing {
		return
	}
	s.spawn(name, fn)
}

// Point is a plain scheduling point.
func Point(label string) {
	if s := cur; s != nil {
		s.park(label, nil)
	}
}

// WaitUntil blocks the current thread until pred holds.
func WaitUntil(label string, pred func() bool) {
	s := cur
	if s == nil {
		if !pred() {
			panic("vsched: blocking operation outside an execution: " + label)
		}
		return
	}
	s.park(label, pred)
}

// Settle blocks the calling (harness) thread until no other thread is enabled.
func Settle() {
	s := cur
	if s == nil {
		return
	}
	t := s.running
	t.low = true
	s.park("settle", nil)
	t.low = false
}

// Yield lets the calling harness thread wait (at low priority) until pred holds.
func SettleUntil(label string, pred func() bool) {
	s := cur
	t := s.running
	t.low = true
	s.park(label, pred)
	t.low = false
}

// Choose lets harness code add its own enumerated choice (cost 0).
func ChooseN(n int, label string) int {
	s := cur
	if s == nil || n <= 1 {
		return 0
	}
	c := Choice{Kind: 'r', N: n, Sig: uint64(n), Label: label}
	return s.choose(&c)
}

// Fatalf records a machinery error (exit 2 class) and stops the execution.
func Fatalf(format string, a ...any) {
	msg := fmt.Sprintf(format, a...)
	if s := cur; s != nil {
		if s.fatal == "" {
			s.fatal = msg
		}
		if s.killing {
			return
		}
		if s.running != nil {
			s.running.finished = true // suppress panic report
			s.park("fatal", func() bool { return false })
		}
		return
	}
	panic("vsched fatal: " + msg)
}

// Stamp returns the next value of the global logical clock.
func Stamp() int64 {
	if s := cur; s != nil {
		s.seq++
		return s.seq
	}
	return 0
}

// Steps returns the number of scheduling steps so far.
func Steps() int {
	if s := cur; s != nil {
		return s.steps
	}
	return 0
}

// Running returns the current thread's name (debugging).
func Running() string {
	if s := cur; s != nil && s.running != nil {
		return s.running.Name
	}
	return ""
}

// ThreadsParked lists threads that are currently not done, as name@label.
func ThreadsParked() []string {
	s := cur
	if s == nil {
		return nil
	}
	var out []string
	for _, t := range s.threads {
		if !t.done && t != s.running {
			out = append(out, t.Name+"@"+t.label)
		}
	}
	return out
}

// Logf appends to the execution log when tracing.
func Logf(format string, a ...any) {
	if s := cur; s != nil && s.opt.Trace {
		s.res.Log = append(s.res.Log, fmt.Sprintf("[%d %s] ", s.steps, Running())+fmt.Sprintf(format, a...))
	}
}

// Tracing reports whether trace logging is on.
func Tracing() bool { return cur != nil && cur.opt.Trace }

// Backoff models a thread that sleeps for a while before retrying (a timer-based
// back-off whose exact duration is irrelevant): it is rescheduled only after every other
// runnable thread has run as far as it can.  Without this a retry loop would spin for
// ever under a schedule that demoted the thread it is waiting for.
func Backoff(label string) {
	s := cur
	if s == nil {
		return
	}
	t := s.running
	old := t.prio
	s.minPrio--
	t.prio = s.minPrio
	t.backoff = true
	s.park(label, nil)
	t.backoff = false
	t.prio = old
}
