package vsched

import (
	"fmt"
	"unsafe"
)

// Channel operations keep the native channel as the data carrier.  Because only one
// thread runs at a time, len/cap of the native channel are coherent.  The scheduler
// adds what the gc runtime does for *parked* goroutines: a send that finds a parked
// receiver commits that receiver to that case at that moment (FIFO), a receive that
// frees a slot commits the first parked sender, close commits all parked receivers.
// A select only has a genuine random choice when >=2 cases are ready on entry.

// Ref is a type-erased handle on one end of a channel operation.
type Ref struct {
	id     uintptr
	send   bool
	length func() int
	capa   int
	closed func() bool // native probe: empty and closed (recv side only)
	keep   any
}

func chanID[T any](c chan T) uintptr { return *(*uintptr)(unsafe.Pointer(&c)) }

// R makes a receive reference.
func R[T any](c <-chan T) Ref {
	if c == nil {
		return Ref{}
	}
	return Ref{id: *(*uintptr)(unsafe.Pointer(&c)), length: func() int { return len(c) }, capa: cap(c), keep: c,
		closed: func() bool {
			if len(c) > 0 {
				return false
			}
			select {
			case _, ok := <-c:
				if ok {
					Fatalf("vsched: probe consumed a value (unmanaged concurrent sender?)")
				}
				return !ok
			default:
				return false
			}
		}}
}

// S makes a send reference.
func S[T any](c chan<- T) Ref {
	if c == nil {
		return Ref{send: true}
	}
	return Ref{id: *(*uintptr)(unsafe.Pointer(&c)), send: true, length: func() int { return len(c) }, capa: cap(c), keep: c}
}

type waiter struct {
	sel *selState
	idx int
}

type selState struct {
	t         *Thread
	refs      []Ref
	committed int
	reserved  bool
}

type chanState struct {
	keep     any
	recvq    []waiter
	sendq    []waiter
	closed   bool
	resvRecv int
	resvSend int
}

type selDone struct {
	ref      Ref
	reserved bool
	valid    bool
}

func (s *Sched) chanOf(r Ref, create bool) *chanState {
	st := s.chans[r.id]
	if st == nil && create {
		st = &chanState{keep: r.keep}
		s.chans[r.id] = st
	}
	return st
}

func (s *Sched) refReady(r Ref) bool {
	if r.id == 0 {
		return false
	}
	st := s.chans[r.id]
	if r.send {
		if st != nil && st.closed {
			return true // native send will panic, as in Go
		}
		free := r.capa - r.length()
		if st != nil {
			free -= st.resvSend
		}
		return free > 0
	}
	avail := r.length()
	if st != nil {
		avail -= st.resvRecv
	}
	if avail > 0 {
		return true
	}
	if st != nil && st.closed && r.length() == 0 {
		return true
	}
	return r.closed()
}

// Select blocks until one of refs is ready and returns its index, or -1 for default.
// The caller must perform the native operation and then call SelDone().
func Select(hasDefault bool, refs ...Ref) int {
	s := cur
	if s == nil {
		// passthrough: no other thread exists.
		for i, r := range refs {
			if passReady(r) {
				return i
			}
		}
		if hasDefault {
			return -1
		}
		panic("vsched: channel operation would block outside an execution")
	}
	if s.killing {
		// non-blocking best effort during tear-down
		s.park("kill", nil)
	}
	s.park("chanop", nil)
	s.lastSel.valid = false
	if i := s.pickReady(refs); i >= 0 {
		s.lastSel = selDone{ref: refs[i], valid: true}
		return i
	}
	if hasDefault {
		return -1
	}
	for _, r := range refs {
		if r.id != 0 && r.send && r.capa == 0 {
			Fatalf("vsched: send on unbuffered channel is not modelled")
		}
	}
	sel := &selState{t: s.running, refs: refs, committed: -1}
	for i, r := range refs {
		if r.id == 0 {
			continue
		}
		st := s.chanOf(r, true)
		if r.send {
			st.sendq = append(st.sendq, waiter{sel, i})
		} else {
			st.recvq = append(st.recvq, waiter{sel, i})
		}
	}
	s.running.sel = sel
	s.park(selLabel(refs), func() bool {
		if sel.committed >= 0 {
			return true
		}
		for _, r := range refs {
			if s.refReady(r) {
				return true
			}
		}
		return false
	})
	s.running.sel = nil
	s.dequeue(sel)
	if sel.committed >= 0 {
		s.lastSel = selDone{ref: refs[sel.committed], reserved: sel.reserved, valid: true}
		return sel.committed
	}
	i := s.pickReady(refs)
	if i < 0 {
		Fatalf("vsched: woken select has no ready case")
		return 0
	}
	s.lastSel = selDone{ref: refs[i], valid: true}
	return i
}

func selLabel(refs []Ref) string {
	if len(refs) == 1 {
		if refs[0].send {
			return "chan-send"
		}
		return "chan-recv"
	}
	return "select"
}

func passReady(r Ref) bool {
	if r.id == 0 {
		return false
	}
	if r.send {
		return r.capa-r.length() > 0
	}
	return r.length() > 0 || r.closed()
}

func (s *Sched) pickReady(refs []Ref) int {
	var ready [8]int
	rd := ready[:0]
	for i, r := range refs {
		if s.refReady(r) {
			rd = append(rd, i)
		}
	}
	switch len(rd) {
	case 0:
		return -1
	case 1:
		return rd[0]
	}
	c := Choice{Kind: 'c', N: len(rd), Sig: uint64(len(rd))}
	if s.opt.Trace {
		c.Label = fmt.Sprintf("select-ready %v", rd)
	}
	return rd[s.choose(&c)]
}

func (s *Sched) dequeue(sel *selState) {
	for _, r := range sel.refs {
		if r.id == 0 {
			continue
		}
		st := s.chans[r.id]
		if st == nil {
			continue
		}
		st.recvq = dropSel(st.recvq, sel)
		st.sendq = dropSel(st.sendq, sel)
	}
}

func dropSel(q []waiter, sel *selState) []waiter {
	out := q[:0]
	for _, w := range q {
		if w.sel != sel {
			out = append(out, w)
		}
	}
	return out
}

// SelDone must be called right after the native operation chosen by Select.
func SelDone() {
	s := cur
	if s == nil || s.killing {
		return
	}
	d := s.lastSel
	s.lastSel.valid = false
	if !d.valid {
		Fatalf("vsched: SelDone without Select")
		return
	}
	st := s.chans[d.ref.id]
	if d.reserved && st != nil {
		if d.ref.send {
			st.resvSend--
		} else {
			st.resvRecv--
		}
	}
	s.postOp(d.ref)
}

// postOp: after a native send, commit the first parked receiver; after a native
// receive, commit the first parked sender.
func (s *Sched) postOp(r Ref) {
	st := s.chans[r.id]
	if st == nil {
		return
	}
	if r.send {
		for len(st.recvq) > 0 {
			w := st.recvq[0]
			st.recvq = st.recvq[1:]
			if w.sel.committed >= 0 {
				continue
			}
			w.sel.committed = w.idx
			w.sel.reserved = true
			st.resvRecv++
			s.dequeue(w.sel)
			return
		}
		return
	}
	for len(st.sendq) > 0 {
		w := st.sendq[0]
		st.sendq = st.sendq[1:]
		if w.sel.committed >= 0 {
			continue
		}
		w.sel.committed = w.idx
		w.sel.reserved = true
		st.resvSend++
		s.dequeue(w.sel)
		return
	}
}

// NotifySent is used by shim code (timers) after a native non-blocking send.
func NotifySent(r Ref) {
	if s := cur; s != nil {
		s.postOp(r)
	}
}

// RecvV is `<-c`.
func RecvV[T any](c <-chan T) T {
	Select(false, R(c))
	v := <-c
	SelDone()
	return v
}

// RecvOK is `v, ok := <-c`.
func RecvOK[T any](c <-chan T) (T, bool) {
	Select(false, R(c))
	v, ok := <-c
	SelDone()
	return v, ok
}

// PreSend / PostSend bracket a native `c <- v`.
func PreSend[T any](c chan<- T) { Select(false, S(c)) }
func PostSend()                 { SelDone() }

// Close is `close(c)`.
func Close[T any](c chan<- T) {
	s := cur
	if s == nil {
		close(c)
		return
	}
	if s.killing {
		defer func() { _ = recover() }()
		close(c)
		return
	}
	close(c)
	r := Ref{id: *(*uintptr)(unsafe.Pointer(&c)), keep: c}
	st := s.chanOf(r, true)
	st.closed = true
	for _, w := range st.recvq {
		if w.sel.committed < 0 {
			w.sel.committed = w.idx
			w.sel.reserved = false
		}
	}
	q := st.recvq
	st.recvq = nil
	for _, w := range q {
		s.dequeue(w.sel)
	}
}
