// Package atomic is the vsched shim of sync/atomic (subset used by gmqtt).
// Loads and stores of flags are scheduling points; commutative counter adds are not.
package atomic

import (
	std "sync/atomic"

	"github.com/DrmagicE/gmqtt/zzverif/vsched"
)

func AddUint64(addr *uint64, delta uint64) uint64 { return std.AddUint64(addr, delta) }
func LoadUint64(addr *uint64) uint64              { return std.LoadUint64(addr) }
func AddUint32(addr *uint32, delta uint32) uint32 { return std.AddUint32(addr, delta) }
func AddInt64(addr *int64, delta int64) int64     { return std.AddInt64(addr, delta) }
func AddInt32(addr *int32, delta int32) int32     { return std.AddInt32(addr, delta) }

func LoadInt32(addr *int32) int32 {
	vsched.Point("atomic.LoadInt32")
	return std.LoadInt32(addr)
}
func StoreInt32(addr *int32, v int32) {
	vsched.Point("atomic.StoreInt32")
	std.StoreInt32(addr, v)
}
func LoadInt64(addr *int64) int64 {
	vsched.Point("atomic.LoadInt64")
	return std.LoadInt64(addr)
}
func StoreInt64(addr *int64, v int64) {
	vsched.Point("atomic.StoreInt64")
	std.StoreInt64(addr, v)
}
func LoadUint32(addr *uint32) uint32 {
	vsched.Point("atomic.LoadUint32")
	return std.LoadUint32(addr)
}
func StoreUint32(addr *uint32, v uint32) {
	vsched.Point("atomic.StoreUint32")
	std.StoreUint32(addr, v)
}
func CompareAndSwapInt32(addr *int32, old, new int32) bool {
	vsched.Point("atomic.CASInt32")
	return std.CompareAndSwapInt32(addr, old, new)
}
func CompareAndSwapUint32(addr *uint32, old, new uint32) bool {
	vsched.Point("atomic.CASUint32")
	return std.CompareAndSwapUint32(addr, old, new)
}
func StoreUint64(addr *uint64, v uint64) { std.StoreUint64(addr, v) }

// ---- the rest of sync/atomic, so that a change that starts using it still builds: swaps and
// compare-and-swaps are scheduling points, the typed values wrap the functions above.

func LoadUintptr(addr *uintptr) uintptr {
	vsched.Point("atomic.LoadUintptr")
	return std.LoadUintptr(addr)
}
func SwapInt32(addr *int32, v int32) int32 {
	vsched.Point("atomic.SwapInt32")
	return std.SwapInt32(addr, v)
}
func SwapInt64(addr *int64, v int64) int64 {
	vsched.Point("atomic.SwapInt64")
	return std.SwapInt64(addr, v)
}
func SwapUint32(addr *uint32, v uint32) uint32 {
	vsched.Point("atomic.SwapUint32")
	return std.SwapUint32(addr, v)
}
func SwapUint64(addr *uint64, v uint64) uint64 {
	vsched.Point("atomic.SwapUint64")
	return std.SwapUint64(addr, v)
}
func CompareAndSwapInt64(addr *int64, old, new int64) bool {
	vsched.Point("atomic.CASInt64")
	return std.CompareAndSwapInt64(addr, old, new)
}
func CompareAndSwapUint64(addr *uint64, old, new uint64) bool {
	vsched.Point("atomic.CASUint64")
	return std.CompareAndSwapUint64(addr, old, new)
}

type Int32 struct{ v int32 }

func (x *Int32) Load() int32                    { return LoadInt32(&x.v) }
func (x *Int32) Store(v int32)                  { StoreInt32(&x.v, v) }
func (x *Int32) Add(d int32) int32              { return AddInt32(&x.v, d) }
func (x *Int32) Swap(v int32) int32             { return SwapInt32(&x.v, v) }
func (x *Int32) CompareAndSwap(o, n int32) bool { return CompareAndSwapInt32(&x.v, o, n) }

type Int64 struct{ v int64 }

func (x *Int64) Load() int64                    { return LoadInt64(&x.v) }
func (x *Int64) Store(v int64)                  { StoreInt64(&x.v, v) }
func (x *Int64) Add(d int64) int64              { return AddInt64(&x.v, d) }
func (x *Int64) Swap(v int64) int64             { return SwapInt64(&x.v, v) }
func (x *Int64) CompareAndSwap(o, n int64) bool { return CompareAndSwapInt64(&x.v, o, n) }

type Uint32 struct{ v uint32 }

func (x *Uint32) Load() uint32                    { return LoadUint32(&x.v) }
func (x *Uint32) Store(v uint32)                  { StoreUint32(&x.v, v) }
func (x *Uint32) Add(d uint32) uint32             { return AddUint32(&x.v, d) }
func (x *Uint32) Swap(v uint32) uint32            { return SwapUint32(&x.v, v) }
func (x *Uint32) CompareAndSwap(o, n uint32) bool { return CompareAndSwapUint32(&x.v, o, n) }

type Uint64 struct{ v uint64 }

func (x *Uint64) Load() uint64                    { return LoadUint64(&x.v) }
func (x *Uint64) Store(v uint64)                  { StoreUint64(&x.v, v) }
func (x *Uint64) Add(d uint64) uint64             { return AddUint64(&x.v, d) }
func (x *Uint64) Swap(v uint64) uint64            { return SwapUint64(&x.v, v) }
func (x *Uint64) CompareAndSwap(o, n uint64) bool { return CompareAndSwapUint64(&x.v, o, n) }

type Bool struct{ v int32 }

func b2i32(b bool) int32 {
	if b {
		return 1
	}
	return 0
}
func (x *Bool) Load() bool                    { return LoadInt32(&x.v) != 0 }
func (x *Bool) Store(v bool)                  { StoreInt32(&x.v, b2i32(v)) }
func (x *Bool) Swap(v bool) bool              { return SwapInt32(&x.v, b2i32(v)) != 0 }
func (x *Bool) CompareAndSwap(o, n bool) bool { return CompareAndSwapInt32(&x.v, b2i32(o), b2i32(n)) }

// Value: one runner at a time, so a plain field guarded by scheduling points suffices.
type Value struct{ v any }

func (x *Value) Load() any   { vsched.Point("atomic.Value.Load"); return x.v }
func (x *Value) Store(v any) { vsched.Point("atomic.Value.Store"); x.v = v }
func (x *Value) Swap(v any) any {
	vsched.Point("atomic.Value.Swap")
	o := x.v
	x.v = v
	return o
}
func (x *Value) CompareAndSwap(o, n any) bool {
	vsched.Point("atomic.Value.CAS")
	if x.v != o {
		return false
	}
	x.v = n
	return true
}

type Pointer[T any] struct{ p *T }

func (x *Pointer[T]) Load() *T   { vsched.Point("atomic.Pointer.Load"); return x.p }
func (x *Pointer[T]) Store(p *T) { vsched.Point("atomic.Pointer.Store"); x.p = p }
func (x *Pointer[T]) Swap(p *T) *T {
	vsched.Point("atomic.Pointer.Swap")
	o := x.p
	x.p = p
	return o
}
func (x *Pointer[T]) CompareAndSwap(o, n *T) bool {
	vsched.Point("atomic.Pointer.CAS")
	if x.p != o {
		return false
	}
	x.p = n
	return true
}
