// Package atomic is the vsched shim of sync/atomic (subset used by gmqtt).
// Loads and stores of flags are scheduling points; commutative counter adds are not.
package atomic

import (
	std "sync/atomic"

	"github.com/DrmagicE/gmqtt/zzverif/vsched"
)

func AddUint64(addr *uint64, delta uint64) uint64 { return std.AddUint64(addr, delta) }
func LoadUint64(addr *uint64) uint64              { return std.LoadUint64(addr) }
func AddUint32(addr *uint32, delta uint32) uint32 { return std.AddUint32(addr, delta) }
func AddInt64(addr *int64, delta int64) int64     { return std.AddInt64(addr, delta) }
func AddInt32(addr *int32, delta int32) int32     { return std.AddInt32(addr, delta) }

func LoadInt32(addr *int32) int32 {
	vsched.Point("atomic.LoadInt32")
	return std.LoadInt32(addr)
}
func StoreInt32(addr *int32, v int32) {
	vsched.Point("atomic.StoreInt32")
	std.StoreInt32(addr, v)
}
func LoadInt64(addr *int64) int64 {
	vsched.Point("atomic.LoadInt64")
	return std.LoadInt64(addr)
}
func StoreInt64(addr *int64, v int64) {
	vsched.Point("atomic.StoreInt64")
	std.StoreInt64(addr, v)
}
func LoadUint32(addr *uint32) uint32 {
	vsched.Point("atomic.LoadUint32")
	return std.LoadUint32(addr)
}
func StoreUint32(addr *uint32, v uint32) {
	vsched.Point("atomic.StoreUint32")
	std.StoreUint32(addr, v)
}
func CompareAndSwapInt32(addr *int32, old, new int32) bool {
	vsched.Point("atomic.CASInt32")
	return std.CompareAndSwapInt32(addr, old, new)
}
func CompareAndSwapUint32(addr *uint32, old, new uint32) bool {
	vsched.Point("atomic.CASUint32")
	return std.CompareAndSwapUint32(addr, old, new)
}
func StoreUint64(addr *uint64, v uint64) { std.StoreUint64(addr, v) }
