// Package rand is the vsched shim of math/rand: every Intn is an enumerated choice.
package rand

import (
	"github.com/DrmagicE/gmqtt/zzverif/vsched"
)

func Intn(n int) int {
	if n <= 0 {
		panic("invalid argument to Intn")
	}
	return vsched.ChooseN(n, "rand.Intn")
}
