//go:build verif

package federation

import (
	"context"
	"errors"
	"fmt"
	"io"
	"net"
	"sort"
	"strings"

	"github.com/hashicorp/serf/serf"
	"go.uber.org/zap"
	"google.golang.org/grpc"
	"google.golang.org/grpc/connectivity"
	"google.golang.org/grpc/metadata"

	"github.com/DrmagicE/gmqtt"
	"github.com/DrmagicE/gmqtt/persistence/subscription"
	"github.com/DrmagicE/gmqtt/persistence/subscription/mem"
	"github.com/DrmagicE/gmqtt/retained"
	retained_trie "github.com/DrmagicE/gmqtt/retained/trie"
	"github.com/DrmagicE/gmqtt/server"
	"github.com/DrmagicE/gmqtt/zzverif/sync"
	"github.com/DrmagicE/gmqtt/zzverif/vsched"
)

// Verification harness for the federation plugin (added by the /verif overlay).  What is
// real: eventQueue, peer.initStream, stream.serve/readLoop/sendEvents, Federation.Hello,
// sessionMgr, EventStream, eventStreamHandler, fedSubStore, localSubStore, nodeJoin /
// nodeFail and the hook wrappers.  What is replaced: serf (fake iSerf; join/fail are
// delivered by calling nodeJoin/nodeFail) and the gRPC transport (in-memory message
// pipes under the vsched scheduler, which can be cut before/after any message).

type verifSerf struct{}

func (verifSerf) Join([]string, bool) (int, error) { return 0, nil }
func (verifSerf) RemoveFailedNode(string) error    { return nil }
func (verifSerf) Leave() error                     { return nil }
func (verifSerf) Members() []serf.Member           { return nil }
func (verifSerf) Shutdown() error                  { return nil }

// VerifNet is a set of federated nodes connected by fake links.
type VerifNet struct {
	Nodes map[string]*VerifNode
	// Down[a+">"+b] = true: node a cannot reach node b (Hello and streams fail)
	Down map[string]bool
	// DropHelloReply[a+">"+b] = n: the next n Hello replies from b to a are lost after b processed them
	DropHelloReply map[string]int
	// HoldAcks[a+">"+b] = true: acks from b are not delivered to a until released
	HoldAcks map[string]bool
	pipes    map[string]*verifPipe // current pipe a>b
	Dials    int
	Hellos   int // handshakes answered by a peer
	Retries  int
}

type VerifNode struct {
	Net  *VerifNet
	Name string
	F    *Federation
	// Published records what eventStreamHandler handed to the local Publisher.
	Published []string
}

type verifPublisher struct {
	n     *VerifNode
	inner server.Publisher
}

func (p *verifPublisher) Publish(m *gmqtt.Message) {
	p.n.Published = append(p.n.Published, m.Topic+"="+string(m.Payload))
	if p.inner != nil {
		p.inner.Publish(m)
	}
}

var verifNets = map[*Federation]*VerifNode{}

func NewVerifNet() *VerifNet {
	log = zap.NewNop()
	nw := &VerifNet{Nodes: map[string]*VerifNode{}, Down: map[string]bool{}, DropHelloReply: map[string]int{}, HoldAcks: map[string]bool{}, pipes: map[string]*verifPipe{}}
	servePeerEventStream = verifServePeer
	return nw
}

// AddNode creates a node.  sub/ret/pub may be the services of a real broker; when nil,
// stand-alone in-memory stores and a recording publisher are used.
func (nw *VerifNet) AddNode(name string, sub server.SubscriptionService, ret retained.Store, pub server.Publisher) *VerifNode {
	f := &Federation{
		config:        &Config{NodeName: name},
		nodeName:      name,
		localSubStore: &localSubStore{},
		fedSubStore:   &fedSubStore{TrieDB: mem.NewStore(), sharedSent: map[string]uint64{}},
		serfEventCh:   make(chan serf.Event, 16),
		sessionMgr:    &sessionMgr{sessions: map[string]*session{}},
		peers:         make(map[string]*peer),
		exit:          make(chan struct{}),
		wg:            &sync.WaitGroup{},
		serf:          verifSerf{},
	}
	n := &VerifNode{Net: nw, Name: name, F: f}
	if sub == nil {
		sub = mem.NewStore()
	}
	f.localSubStore.init(sub)
	if ret == nil {
		ret = retained_trie.NewStore()
	}
	f.retainedStore = ret
	f.publisher = &verifPublisher{n: n, inner: pub}
	nw.Nodes[name] = n
	verifNets[f] = n
	return n
}

// Attach wires the node to a real broker's services (used from a Plugin.Load).
func (n *VerifNode) Attach(srv server.Server) {
	n.F.localSubStore.init(srv.SubscriptionService())
	n.F.retainedStore = srv.RetainedService()
	n.F.publisher = &verifPublisher{n: n, inner: srv.Publisher()}
}

func verifMember(name string) serf.MemberEvent {
	return serf.MemberEvent{Type: serf.EventMemberJoin, Members: []serf.Member{{Name: name, Addr: net.IPv4(127, 0, 0, 1), Tags: map[string]string{"fed_addr": name}}}}
}

// Join delivers "member <other> joined" to this node (as the serf event handler would).
func (n *VerifNode) Join(other string) { n.F.nodeJoin(verifMember(other)) }

// Fail delivers "member <other> failed/left" to this node.
func (n *VerifNode) Fail(other string) {
	// nodeFail closes the peer's grpc connection, which ends its stream: same on the fake transport
	if pp := n.Net.pipes[n.Name+">"+other]; pp != nil {
		pp.broken = true
	}
	n.F.nodeFail(verifMember(other))
}

// Stop stops all peers of the node.
func (n *VerifNode) Stop() {
	n.F.memberMu.Lock()
	for name, p := range n.F.peers {
		// closing the (real) grpc connection is what unblocks the stream loops; the fake
		// transport needs the equivalent: break the pipe of this peer first
		n.Net.Down[n.Name+">"+name] = true
		if pp := n.Net.pipes[n.Name+">"+name]; pp != nil {
			pp.broken = true
		}
		p.stop()
	}
	n.F.memberMu.Unlock()
}

// ---- fake clients for the hooks

type verifClient struct {
	server.Client
	id string
}

func (c verifClient) ClientOptions() *server.ClientOptions {
	return &server.ClientOptions{ClientID: c.id}
}

// Subscribed fires the plugin's OnSubscribed wrapper for a local client.
func (n *VerifNode) Subscribed(clientID, fullTopic string) {
	share, filter := subscription.SplitTopic(fullTopic)
	n.F.OnSubscribedWrapper(func(context.Context, server.Client, *gmqtt.Subscription) {})(context.Background(), verifClient{id: clientID}, &gmqtt.Subscription{ShareName: share, TopicFilter: filter})
}

// Unsubscribed fires the plugin's OnUnsubscribed wrapper.
func (n *VerifNode) Unsubscribed(clientID, fullTopic string) {
	n.F.OnUnsubscribedWrapper(func(context.Context, server.Client, string) {})(context.Background(), verifClient{id: clientID}, fullTopic)
}

// SessionTerminated fires the plugin's OnSessionTerminated wrapper.
func (n *VerifNode) SessionTerminated(clientID string) {
	n.F.OnSessionTerminatedWrapper(func(context.Context, string, server.SessionTerminatedReason) {})(context.Background(), clientID, server.NormalTermination)
}

// MsgArrived fires the plugin's OnMsgArrived wrapper; reports whether the plugin dropped
// the message locally.
func (n *VerifNode) MsgArrived(m *gmqtt.Message) (dropped bool) {
	req := &server.MsgArrivedRequest{Message: m, IterationOptions: subscription.IterationOptions{Type: subscription.TypeAll, TopicName: m.Topic, MatchType: subscription.MatchFilter}}
	n.F.OnMsgArrivedWrapper(func(context.Context, server.Client, *server.MsgArrivedRequest) error { return nil })(context.Background(), verifClient{id: "pub"}, req)
	return req.Message == nil
}

// ---- observations

// LocalTopics returns the sorted full topic names the node has local subscriptions for.
func (n *VerifNode) LocalTopics() []string {
	n.F.localSubStore.Lock()
	defer n.F.localSubStore.Unlock()
	var out []string
	for k := range n.F.localSubStore.topics {
		out = append(out, k)
	}
	sort.Strings(out)
	return out
}

// ViewOf returns this node's view of the subscriptions of node other.
func (n *VerifNode) ViewOf(other string) []string {
	var out []string
	n.F.fedSubStore.Iterate(func(nodeName string, sub *gmqtt.Subscription) bool {
		if nodeName == other {
			out = append(out, sub.GetFullTopicName())
		}
		return true
	}, subscription.IterationOptions{Type: subscription.TypeAll})
	sort.Strings(out)
	return out
}

// QueueLen returns the number of events waiting in the queue towards other.
func (n *VerifNode) QueueLen(other string) int {
	n.F.memberMu.Lock()
	p := n.F.peers[other]
	n.F.memberMu.Unlock()
	if p == nil {
		return -1
	}
	q := p.queue.(*eventQueue)
	q.cond.L.Lock()
	defer q.cond.L.Unlock()
	return q.l.Len()
}

// QueuedMessages returns the payloads of message events queued (not yet acked) towards other.
func (n *VerifNode) QueuedEvents(other string) []string {
	n.F.memberMu.Lock()
	p := n.F.peers[other]
	n.F.memberMu.Unlock()
	if p == nil {
		return nil
	}
	q := p.queue.(*eventQueue)
	q.cond.L.Lock()
	defer q.cond.L.Unlock()
	var out []string
	for e := q.l.Front(); e != nil; e = e.Next() {
		ev := e.Value.(*Event)
		switch {
		case ev.GetMessage() != nil:
			out = append(out, fmt.Sprintf("%d:msg:%s=%s", ev.Id, ev.GetMessage().TopicName, ev.GetMessage().Payload))
		case ev.GetSubscribe() != nil:
			out = append(out, fmt.Sprintf("%d:sub:%s", ev.Id, subscription.GetFullTopicName(ev.GetSubscribe().ShareName, ev.GetSubscribe().TopicFilter)))
		case ev.GetUnsubscribe() != nil:
			out = append(out, fmt.Sprintf("%d:unsub:%s", ev.Id, ev.GetUnsubscribe().TopicName))
		}
	}
	return out
}

// HasSession reports whether this node holds a peer session for other.
func (n *VerifNode) HasSession(other string) bool { return n.F.sessionMgr.get(other) != nil }

// ShrinkLRU replaces the duplicate-suppression cache of the session for other.
func (n *VerifNode) ShrinkLRU(other string, size int) {
	if s := n.F.sessionMgr.get(other); s != nil {
		s.seenEvents = newLRUCache(size)
	}
}

// ---- fake transport

type verifPipe struct {
	key      string
	toServer []*Event
	toClient []*Ack
	broken   bool
	// late: the receiving side of this (old) stream gets what is still in the pipe only
	// after the sending node's next handshake has been answered (the sender noticed the
	// break first; the receiver still has buffered data of the old connection to process)
	late     bool
	lateFrom int
	nw       *VerifNet
	conn     *grpc.ClientConn // the (real, never connected) connection object the stream belongs to
	// CutAfterEvents / CutAfterAcks: break the pipe right after that many more messages
	// have been delivered in that direction (-1 = never)
	cutAfterEvents, cutAfterAcks int
	sentEvents, sentAcks         int
}

// isBroken: cut by the fault injector, ended by the server handler, or the owner closed
// the grpc connection of the stream (peer.stop, stream.setError), which ends a real stream
func (p *verifPipe) isBroken() bool {
	if !p.broken && p.conn != nil && p.conn.GetState() == connectivity.Shutdown {
		p.broken = true
	}
	return p.broken
}

// HoldReceiver stops b from reading the current a>b stream (data stays in the pipe).
func (nw *VerifNet) HoldReceiver(a, b string) bool {
	p := nw.pipes[a+">"+b]
	if p == nil || p.isBroken() {
		return false
	}
	p.late, p.lateFrom = true, 1<<30
	return true
}

// CutLate breaks the held a>b stream for the sender now; the receiver reads what is left in
// the pipe once a's next handshake has been answered.
func (nw *VerifNet) CutLate(a, b string) bool {
	p := nw.pipes[a+">"+b]
	if p == nil || !p.late {
		return false
	}
	p.lateFrom = nw.Hellos
	p.broken = true
	return true
}

// CutLosing breaks the held a>b stream and loses what was still in the pipe.
func (nw *VerifNet) CutLosing(a, b string) bool {
	p := nw.pipes[a+">"+b]
	if p == nil || !p.late {
		return false
	}
	p.toServer, p.late, p.broken = nil, false, true
	return true
}

// Cut breaks the current stream from a to b (both directions of that stream).
func (nw *VerifNet) Cut(a, b string) bool {
	p := nw.pipes[a+">"+b]
	if p == nil || p.isBroken() {
		return false
	}
	p.broken = true
	return true
}

// CutAfter arms the current a>b stream to break after n more events reached b
// (events=true) or after n more acks reached a.
func (nw *VerifNet) CutAfter(a, b string, events bool, n int) bool {
	p := nw.pipes[a+">"+b]
	if p == nil || p.isBroken() {
		return false
	}
	if events {
		p.cutAfterEvents = p.sentEvents + n
	} else {
		p.cutAfterAcks = p.sentAcks + n
	}
	return true
}

// StreamUp reports whether a live stream a>b exists.
func (nw *VerifNet) StreamUp(a, b string) bool {
	p := nw.pipes[a+">"+b]
	return p != nil && !p.isBroken()
}

var errVerifCut = errors.New("transport: stream cut by the fault injector")

type verifFedClient struct {
	nw       *VerifNet
	from, to string
	conn     *grpc.ClientConn
}

func verifIncoming(ctx context.Context) context.Context {
	md, _ := metadata.FromOutgoingContext(ctx)
	return metadata.NewIncomingContext(context.Background(), md)
}

func (c *verifFedClient) Hello(ctx context.Context, in *ClientHello, _ ...grpc.CallOption) (*ServerHello, error) {
	vsched.Point("fed.Hello")
	key := c.from + ">" + c.to
	if c.nw.Down[key] {
		return nil, errVerifCut
	}
	peer := c.nw.Nodes[c.to]
	if peer == nil {
		return nil, errVerifCut
	}
	resp, err := peer.F.Hello(verifIncoming(ctx), in)
	if err != nil {
		return nil, err
	}
	c.nw.Hellos++
	if c.nw.DropHelloReply[key] > 0 {
		c.nw.DropHelloReply[key]--
		return nil, errVerifCut
	}
	return resp, nil
}

type verifClientStream struct {
	grpc.ClientStream
	p  *verifPipe
	nw *VerifNet
}

type verifServerStream struct {
	grpc.ServerStream
	p   *verifPipe
	ctx context.Context
}

func (c *verifFedClient) EventStream(ctx context.Context, _ ...grpc.CallOption) (grpc.BidiStreamingClient[Event, Ack], error) {
	vsched.Point("fed.EventStream")
	key := c.from + ">" + c.to
	if c.nw.Down[key] {
		return nil, errVerifCut
	}
	peer := c.nw.Nodes[c.to]
	if peer == nil {
		return nil, errVerifCut
	}
	if old := c.nw.pipes[key]; old != nil {
		old.broken = true
	}
	p := &verifPipe{key: key, cutAfterEvents: -1, cutAfterAcks: -1, conn: c.conn, nw: c.nw}
	c.nw.pipes[key] = p
	c.nw.Dials++
	ss := &verifServerStream{p: p, ctx: verifIncoming(ctx)}
	vsched.Go("fed.EventStream@"+c.to, func() {
		_ = peer.F.EventStream(ss)
		p.broken = true // the handler returned: the RPC is over
	})
	return &verifClientStream{p: p, nw: c.nw}, nil
}

func (s *verifClientStream) Send(e *Event) error {
	vsched.Point("fed.client.Send")
	if s.p.isBroken() {
		return io.EOF
	}
	s.p.toServer = append(s.p.toServer, e)
	return nil
}

func (s *verifClientStream) Recv() (*Ack, error) {
	vsched.WaitUntil("fed.client.Recv", func() bool { return (len(s.p.toClient) > 0 && !s.nw.HoldAcks[s.p.key]) || s.p.isBroken() })
	if len(s.p.toClient) == 0 || s.p.isBroken() && s.nw.HoldAcks[s.p.key] {
		return nil, errVerifCut
	}
	a := s.p.toClient[0]
	s.p.toClient = s.p.toClient[1:]
	s.p.sentAcks++
	if s.p.cutAfterAcks >= 0 && s.p.sentAcks >= s.p.cutAfterAcks {
		s.p.broken = true
	}
	return a, nil
}

func (s *verifClientStream) CloseSend() error { s.p.broken = true; return nil }

func (s *verifServerStream) Context() context.Context { return s.ctx }

func (s *verifServerStream) Recv() (*Event, error) {
	vsched.WaitUntil("fed.server.Recv", func() bool {
		if s.p.late && s.p.nw != nil && s.p.nw.Hellos <= s.p.lateFrom {
			return false
		}
		return len(s.p.toServer) > 0 || s.p.isBroken()
	})
	if len(s.p.toServer) == 0 {
		return nil, errVerifCut
	}
	e := s.p.toServer[0]
	s.p.toServer = s.p.toServer[1:]
	s.p.sentEvents++
	if s.p.cutAfterEvents >= 0 && s.p.sentEvents >= s.p.cutAfterEvents {
		s.p.broken = true
	}
	return e, nil
}

func (s *verifServerStream) Send(a *Ack) error {
	vsched.Point("fed.server.Send")
	if s.p.late {
		// the receiver has not noticed the break of the old connection yet: its acks go nowhere
		return nil
	}
	if s.p.isBroken() {
		return errVerifCut
	}
	s.p.toClient = append(s.p.toClient, a)
	return nil
}

var verifDummyConns []*grpc.ClientConn

func verifConn() *grpc.ClientConn {
	c, err := grpc.Dial("passthrough:///verif-not-used", grpc.WithInsecure())
	if err != nil {
		panic(err)
	}
	return c
}

// verifServePeer replaces serveEventStream: the same connect / handshake / serve /
// reconnect cycle, with the fake client instead of grpc.Dial and no back-off timer.
func verifServePeer(p *peer) {
	n := verifNets[p.fed]
	if n == nil {
		panic("verif: unknown federation")
	}
	client := &verifFedClient{nw: n.Net, from: n.Name, to: p.member.Name}
	key := n.Name + ">" + p.member.Name
	for {
		select {
		case <-p.exit:
			return
		default:
		}
		exited := func() bool {
			select {
			case <-p.exit:
				return true
			default:
				return false
			}
		}
		vsched.WaitUntil("fed.reconnect", func() bool { return !n.Net.Down[key] || exited() })
		if exited() {
			return
		}
		conn := verifConn()
		client.conn = conn
		s, err := p.initStream(client, conn)
		if err != nil {
			conn.Close()
			if exited() {
				return
			}
			if strings.Contains(err.Error(), "has not yet joined") {
				// the other node does not list us as a member (it saw us fail): the real loop
				// keeps retrying with a back-off until it sees us join again; modelled as waiting
				to := p.member.Name
				vsched.WaitUntil("fed.retry-until-known-to-peer", func() bool {
					if exited() || n.Net.Down[key] {
						return true
					}
					other := n.Net.Nodes[to]
					if other == nil {
						return false
					}
					_, known := other.F.peers[n.Name]
					return known
				})
				continue
			}
			n.Net.Retries++
			if n.Net.Retries > 200 {
				vsched.Fatalf("verif: federation reconnect loop does not make progress: %v", err)
			}
			vsched.Backoff("fed.retry-backoff")
			continue
		}
		err = s.serve()
		if exited() {
			return
		}
		if err == nil {
			return
		}
	}
}

// VerifPlugin attaches a VerifNode's Federation to a real broker: it does what
// Federation.Load does minus the gRPC listener and serf.
type VerifPlugin struct{ N *VerifNode }

func (p *VerifPlugin) Load(s server.Server) error      { p.N.Attach(s); return nil }
func (p *VerifPlugin) Unload() error                   { return nil }
func (p *VerifPlugin) HookWrapper() server.HookWrapper { return p.N.F.HookWrapper() }
func (p *VerifPlugin) Name() string                    { return Name }
