//go:build verif

package server

import (
	"bufio"
	"net"
	"net/http"

	"github.com/DrmagicE/gmqtt/pkg/packets"
)

// Verification accessors (added by the /verif overlay, never part of the repository).

type verifHijackWriter struct {
	conn net.Conn
	hdr  http.Header
}

func (w *verifHijackWriter) Header() http.Header         { return w.hdr }
func (w *verifHijackWriter) Write(b []byte) (int, error) { return w.conn.Write(b) }
func (w *verifHijackWriter) WriteHeader(int)             {}
func (w *verifHijackWriter) Hijack() (net.Conn, *bufio.ReadWriter, error) {
	return w.conn, bufio.NewReadWriter(bufio.NewReader(w.conn), bufio.NewWriter(w.conn)), nil
}

func verifUpgradeRequest() *http.Request {
	r, _ := http.NewRequest("GET", "http://broker/", nil)
	r.Header.Set("Connection", "Upgrade")
	r.Header.Set("Upgrade", "websocket")
	r.Header.Set("Sec-WebSocket-Version", "13")
	r.Header.Set("Sec-WebSocket-Key", "dGhlIHNhbXBsZSBub25jZQ==")
	r.Header.Set("Sec-WebSocket-Protocol", "mqtt")
	return r
}

// VerifNewWSConn performs the broker's websocket upgrade over conn (fake hijackable
// ResponseWriter) and returns the broker's wsConn adapter.
func VerifNewWSConn(conn net.Conn) (net.Conn, error) {
	c, err := defaultUpgrader.Upgrade(&verifHijackWriter{conn: conn, hdr: http.Header{}}, verifUpgradeRequest(), nil)
	if err != nil {
		return nil, err
	}
	return &wsConn{Conn: c.UnderlyingConn(), c: c}, nil
}

// VerifServeWS runs the broker's real websocket handler on conn; returns when the
// client has been served.
func VerifServeWS(s Server, conn net.Conn) {
	s.(*server).wsHandler()(&verifHijackWriter{conn: conn, hdr: http.Header{}}, verifUpgradeRequest())
}

// VerifReadBufferSize is the size of the bufio reader in front of every connection.
const VerifReadBufferSize = readBufferSize

// VerifPacketReader builds the packet reader exactly as newClient does.
func VerifPacketReader(c net.Conn) *packets.Reader {
	return packets.NewReader(newBufioReaderSize(c, readBufferSize))
}

// VerifLimiter exposes the packet id limiter for component-level exploration.
type VerifLimiter struct{ pl *packetIDLimiter }

func VerifNewLimiter(limit uint16) *VerifLimiter {
	c := &client{}
	c.newPacketIDLimiter(limit)
	return &VerifLimiter{pl: c.pl}
}

func (l *VerifLimiter) Poll(max uint16) []uint16  { return l.pl.pollPacketIDs(max) }
func (l *VerifLimiter) Release(id uint16)         { l.pl.release(id) }
func (l *VerifLimiter) BatchRelease(ids []uint16) { l.pl.batchRelease(ids) }
func (l *VerifLimiter) Close()                    { l.pl.close() }
func (l *VerifLimiter) Used() uint16              { return l.pl.used }
func (l *VerifLimiter) FreePid() uint16           { return l.pl.freePid }
func (l *VerifLimiter) Locked(id uint16) bool     { return l.pl.lockedPid.Get(id) == 1 }
func (l *VerifLimiter) SetFreePid(v uint16)       { l.pl.freePid = v }
func (l *VerifLimiter) MarkUsed(id uint16) {
	l.pl.lock()
	l.pl.markUsedLocked(id)
	l.pl.unlock()
}

// VerifRunConnect feeds already-decoded packets to the connect state machine of a fresh
// client (as readLoop would hand them over) and returns what the client queued for
// writing and whether the connection was accepted.  The per-connection goroutines are
// not started.
func VerifRunConnect(s Server, conn net.Conn, in []packets.Packet) (out []packets.Packet, ok bool) {
	srv := s.(*server)
	c, err := srv.newClient(conn)
	if err != nil {
		return nil, false
	}
	for _, p := range in {
		c.in <- p
	}
	ok = c.connectWithTimeOut()
	for {
		select {
		case p := <-c.out:
			out = append(out, p)
		default:
			return out, ok
		}
	}
}
