module xform

go 1.26

require golang.org/x/tools v0.42.0

require (
	golang.org/x/mod v0.33.0 // indirect
	golang.org/x/sync v0.20.0 // indirect
)
