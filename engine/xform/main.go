// xform rewrites gmqtt's non-test source so that every synchronisation operation goes
// through the vsched cooperative scheduler, and emits a `go build -overlay` file.
// Nothing in the repository is modified.  Fails loudly (exit 2) on constructs it does
// not understand.
package main

import (
	"bytes"
	"encoding/json"
	"flag"
	"fmt"
	"go/ast"
	"go/format"
	"go/token"
	"go/types"
	"os"
	"path/filepath"
	"sort"
	"strconv"
	"strings"

	"golang.org/x/tools/go/ast/astutil"
	"golang.org/x/tools/go/packages"
)

const modPath = "github.com/DrmagicE/gmqtt"
const shimRoot = modPath + "/zzverif/"
const vsImport = shimRoot + "vsched"
const vsName = "zzvs"

var importMap = map[string]string{
	"sync":        shimRoot + "sync",
	"sync/atomic": shimRoot + "atomic",
	"time":        shimRoot + "time",
	"math/rand":   shimRoot + "rand",
}

type stats struct {
	Files, Imports, Go, Send, Recv, Close, Select, RangeChan, RangeMap int
}

var errs []string

func errorf(fset *token.FileSet, pos token.Pos, format string, a ...any) {
	errs = append(errs, fset.Position(pos).String()+": "+fmt.Sprintf(format, a...))
}

func main() {
	repo := flag.String("repo", "/repo", "repository root")
	out := flag.String("out", "", "output directory for transformed files")
	shims := flag.String("shims", "", "directory holding the zzverif shim packages (mapped to <repo>/zzverif)")
	extra := flag.String("extra", "", "directory tree of extra in-package files: <extra>/<pkgdir>/x.go is added as <repo>/<pkgdir>/zz_verif_x.go")
	plain := flag.Bool("plain", false, "do not transform; only add shims/extra files")
	flag.Parse()
	if *out == "" {
		fmt.Fprintln(os.Stderr, "usage: xform -out DIR [-repo /repo] [-shims DIR] [-extra DIR]")
		os.Exit(2)
	}
	for _, p := range []*string{repo, out, shims, extra} {
		if *p != "" {
			if a, err := filepath.Abs(*p); err == nil {
				*p = a
			}
		}
	}
	overlay := map[string]string{}
	var st stats
	if !*plain {
		transformAll(*repo, *out, overlay, &st)
	}
	if *shims != "" {
		filepath.Walk(*shims, func(p string, info os.FileInfo, err error) error {
			if err == nil && !info.IsDir() && strings.HasSuffix(p, ".go") {
				rel, _ := filepath.Rel(*shims, p)
				overlay[filepath.Join(*repo, "zzverif", rel)] = p
			}
			return nil
		})
	}
	if *extra != "" {
		filepath.Walk(*extra, func(p string, info os.FileInfo, err error) error {
			if err == nil && !info.IsDir() && strings.HasSuffix(p, ".go") {
				rel, _ := filepath.Rel(*extra, p)
				dir, base := filepath.Split(rel)
				overlay[filepath.Join(*repo, dir, "zz_verif_"+base)] = p
			}
			return nil
		})
	}
	if len(errs) > 0 {
		for _, e := range errs {
			fmt.Fprintln(os.Stderr, "xform: "+e)
		}
		os.Exit(2)
	}
	b, _ := json.MarshalIndent(map[string]any{"Replace": overlay}, "", " ")
	os.MkdirAll(*out, 0o755)
	if err := os.WriteFile(filepath.Join(*out, "overlay.json"), b, 0o644); err != nil {
		fmt.Fprintln(os.Stderr, err)
		os.Exit(2)
	}
	sb, _ := json.Marshal(st)
	os.WriteFile(filepath.Join(*out, "xform_stats.json"), sb, 0o644)
	fmt.Fprintf(os.Stderr, "xform: %s\n", sb)
}

func skipFile(name string) bool {
	b := filepath.Base(name)
	return strings.HasSuffix(b, "_test.go") || strings.HasSuffix(b, "_mock.go") || strings.Contains(b, ".pb.") ||
		strings.HasPrefix(b, "zz_verif_")
}

func transformAll(repo, out string, overlay map[string]string, st *stats) {
	cfg := &packages.Config{
		Mode: packages.NeedName | packages.NeedFiles | packages.NeedSyntax | packages.NeedTypes | packages.NeedTypesInfo | packages.NeedCompiledGoFiles,
		Dir:  repo,
		Env:  append(os.Environ(), "GOFLAGS=-mod=mod"),
	}
	pkgs, err := packages.Load(cfg, "./...")
	if err != nil {
		fmt.Fprintln(os.Stderr, "xform: load:", err)
		os.Exit(2)
	}
	sort.Slice(pkgs, func(i, j int) bool { return pkgs[i].PkgPath < pkgs[j].PkgPath })
	for _, p := range pkgs {
		if strings.HasPrefix(p.PkgPath, modPath+"/cmd") || strings.HasPrefix(p.PkgPath, modPath+"/tools") ||
			strings.HasPrefix(p.PkgPath, modPath+"/zzverif") || strings.HasSuffix(p.PkgPath, "/test") {
			continue
		}
		if len(p.Errors) > 0 {
			for _, e := range p.Errors {
				errs = append(errs, "load "+p.PkgPath+": "+e.Error())
			}
			continue
		}
		for i, f := range p.Syntax {
			name := p.CompiledGoFiles[i]
			if skipFile(name) {
				continue
			}
			x := &xf{fset: p.Fset, info: p.TypesInfo, pkg: p, file: f, st: st}
			if x.transform() {
				rel, _ := filepath.Rel(repo, name)
				dst := filepath.Join(out, "src", rel)
				os.MkdirAll(filepath.Dir(dst), 0o755)
				var buf bytes.Buffer
				if err := format.Node(&buf, p.Fset, f); err != nil {
					errs = append(errs, name+": print: "+err.Error())
					continue
				}
				if err := os.WriteFile(dst, buf.Bytes(), 0o644); err != nil {
					errs = append(errs, err.Error())
				}
				overlay[name] = dst
				st.Files++
			}
		}
	}
}

type xf struct {
	fset    *token.FileSet
	info    *types.Info
	pkg     *packages.Package
	file    *ast.File
	st      *stats
	n       int
	changed bool
	needVS  bool
	skip    map[ast.Node]bool
	funcs   []string
}

func (x *xf) tmp() *ast.Ident {
	x.n++
	return ast.NewIdent("_zv" + strconv.Itoa(x.n))
}

func vs(name string) ast.Expr {
	return &ast.SelectorExpr{X: ast.NewIdent(vsName), Sel: ast.NewIdent(name)}
}

func call(fn ast.Expr, args ...ast.Expr) *ast.CallExpr { return &ast.CallExpr{Fun: fn, Args: args} }

func define(lhs ast.Expr, rhs ast.Expr) ast.Stmt {
	return &ast.AssignStmt{Lhs: []ast.Expr{lhs}, Tok: token.DEFINE, Rhs: []ast.Expr{rhs}}
}

func (x *xf) isConstOrNil(e ast.Expr) bool {
	tv, ok := x.info.Types[e]
	if !ok {
		return false
	}
	if tv.Value != nil || tv.IsNil() {
		return true
	}
	if b, ok := tv.Type.(*types.Basic); ok && b.Info()&types.IsUntyped != 0 {
		return true
	}
	return false
}

func (x *xf) typeOf(e ast.Expr) types.Type {
	if tv, ok := x.info.Types[e]; ok {
		return tv.Type
	}
	if id, ok := e.(*ast.Ident); ok {
		if o := x.info.ObjectOf(id); o != nil {
			return o.Type()
		}
	}
	return nil
}

func (x *xf) transform() bool {
	f := x.file
	x.skip = map[ast.Node]bool{}
	// imports
	for _, is := range f.Imports {
		p, _ := strconv.Unquote(is.Path.Value)
		if np, ok := importMap[p]; ok {
			is.Path.Value = strconv.Quote(np)
			is.EndPos = 0
			x.changed = true
			x.st.Imports++
		}
	}
	astutil.Apply(f, x.pre, x.post)
	if x.needVS {
		astutil.AddNamedImport(x.fset, f, vsName, vsImport)
		x.changed = true
	}
	if x.changed {
		f.Comments = nil
		// drop doc comments that the printer would otherwise misplace
		ast.Inspect(f, func(n ast.Node) bool {
			switch d := n.(type) {
			case *ast.FuncDecl:
				d.Doc = nil
			case *ast.GenDecl:
				d.Doc = nil
			case *ast.Field:
				d.Doc, d.Comment = nil, nil
			case *ast.ValueSpec:
				d.Doc, d.Comment = nil, nil
			case *ast.TypeSpec:
				d.Doc, d.Comment = nil, nil
			case *ast.ImportSpec:
				d.Doc, d.Comment = nil, nil
			}
			return true
		})
		f.Doc = nil
	}
	return x.changed
}

func (x *xf) curFunc() string {
	if len(x.funcs) == 0 {
		return x.pkg.Name
	}
	return x.pkg.Name + "." + x.funcs[len(x.funcs)-1]
}

func (x *xf) pre(c *astutil.Cursor) bool {
	switch n := c.Node().(type) {
	case *ast.FuncDecl:
		name := n.Name.Name
		if n.Recv != nil && len(n.Recv.List) > 0 {
			t := n.Recv.List[0].Type
			if s, ok := t.(*ast.StarExpr); ok {
				t = s.X
			}
			if id, ok := t.(*ast.Ident); ok {
				name = id.Name + "." + name
			}
		}
		x.funcs = append(x.funcs, name)
	case *ast.SelectStmt:
		for _, cl := range n.Body.List {
			cc := cl.(*ast.CommClause)
			switch s := cc.Comm.(type) {
			case *ast.SendStmt:
				x.skip[s] = true
			case *ast.ExprStmt:
				x.skip[s.X] = true
			case *ast.AssignStmt:
				if len(s.Rhs) == 1 {
					x.skip[s.Rhs[0]] = true
				}
			}
		}
	case *ast.LabeledStmt:
		switch n.Stmt.(type) {
		case *ast.SelectStmt:
			errorf(x.fset, n.Pos(), "labeled select is not supported")
		case *ast.RangeStmt:
			if t := x.typeOf(n.Stmt.(*ast.RangeStmt).X); t != nil {
				if _, ok := t.Underlying().(*types.Chan); ok {
					errorf(x.fset, n.Pos(), "labeled range over channel is not supported")
				}
			}
		}
	}
	return true
}

func (x *xf) post(c *astutil.Cursor) bool {
	switch n := c.Node().(type) {
	case *ast.FuncDecl:
		x.funcs = x.funcs[:len(x.funcs)-1]
	case *ast.GoStmt:
		c.Replace(x.goStmt(n))
	case *ast.SendStmt:
		if !x.skip[n] {
			c.Replace(x.sendStmt(n))
		}
	case *ast.UnaryExpr:
		if n.Op == token.ARROW && !x.skip[n] {
			x.recvExpr(c, n)
		}
	case *ast.CallExpr:
		if sel, ok := n.Fun.(*ast.SelectorExpr); ok && sel.Sel.Name == "Dial" {
			if id, ok := sel.X.(*ast.Ident); ok {
				if pn, ok := x.info.Uses[id].(*types.PkgName); ok && pn.Imported().Path() == "github.com/gomodule/redigo/redis" {
					n.Fun = vs("RedisDial")
					x.needVS, x.changed = true, true
				}
			}
		}
		if id, ok := n.Fun.(*ast.Ident); ok && id.Name == "close" && len(n.Args) == 1 {
			if _, isB := x.info.Uses[id].(*types.Builtin); isB {
				n.Fun = vs("Close")
				x.needVS, x.changed = true, true
				x.st.Close++
			}
		}
	case *ast.SelectStmt:
		c.Replace(x.selectStmt(n))
	case *ast.RangeStmt:
		x.rangeStmt(c, n)
	}
	return true
}

func (x *xf) goStmt(n *ast.GoStmt) ast.Stmt {
	x.needVS, x.changed = true, true
	x.st.Go++
	var stmts []ast.Stmt
	callee := n.Call.Fun
	name := x.curFunc() + "$go@" + strconv.Itoa(x.fset.Position(n.Pos()).Line)
	switch fn := callee.(type) {
	case *ast.FuncLit:
	case *ast.SelectorExpr:
		name = x.pkg.Name + "." + exprName(fn)
	case *ast.Ident:
		name = x.pkg.Name + "." + fn.Name
	}
	if id, ok := callee.(*ast.Ident); ok {
		if _, isB := x.info.Uses[id].(*types.Builtin); isB {
			errorf(x.fset, n.Pos(), "go on builtin")
		}
	}
	fv := x.tmp()
	stmts = append(stmts, define(fv, callee))
	var args []ast.Expr
	for _, a := range n.Call.Args {
		if x.isConstOrNil(a) {
			args = append(args, a)
			continue
		}
		t := x.tmp()
		stmts = append(stmts, define(t, a))
		args = append(args, t)
	}
	inner := &ast.CallExpr{Fun: fv, Args: args, Ellipsis: n.Call.Ellipsis}
	if inner.Ellipsis != token.NoPos {
		inner.Ellipsis = 1
	}
	lit := &ast.FuncLit{Type: &ast.FuncType{Params: &ast.FieldList{}}, Body: &ast.BlockStmt{List: []ast.Stmt{&ast.ExprStmt{X: inner}}}}
	stmts = append(stmts, &ast.ExprStmt{X: call(vs("Go"), &ast.BasicLit{Kind: token.STRING, Value: strconv.Quote(name)}, lit)})
	return &ast.BlockStmt{List: stmts}
}

func exprName(e ast.Expr) string {
	switch v := e.(type) {
	case *ast.Ident:
		return v.Name
	case *ast.SelectorExpr:
		return exprName(v.X) + "." + v.Sel.Name
	case *ast.CallExpr:
		return exprName(v.Fun) + "()"
	}
	return "?"
}

func (x *xf) sendStmt(n *ast.SendStmt) ast.Stmt {
	x.needVS, x.changed = true, true
	x.st.Send++
	cv := x.tmp()
	stmts := []ast.Stmt{define(cv, n.Chan)}
	val := n.Value
	if !x.isConstOrNil(val) {
		vv := x.tmp()
		stmts = append(stmts, define(vv, val))
		val = vv
	}
	stmts = append(stmts,
		&ast.ExprStmt{X: call(vs("PreSend"), cv)},
		&ast.SendStmt{Chan: cv, Value: val},
		&ast.ExprStmt{X: call(vs("PostSend"))})
	return &ast.BlockStmt{List: stmts}
}

func (x *xf) recvExpr(c *astutil.Cursor, n *ast.UnaryExpr) {
	x.needVS, x.changed = true, true
	x.st.Recv++
	fn := "RecvV"
	switch p := c.Parent().(type) {
	case *ast.AssignStmt:
		if len(p.Lhs) == 2 && len(p.Rhs) == 1 {
			fn = "RecvOK"
		}
	case *ast.ValueSpec:
		if len(p.Names) == 2 && len(p.Values) == 1 {
			fn = "RecvOK"
		}
	}
	c.Replace(call(vs(fn), n.X))
}

func (x *xf) selectStmt(n *ast.SelectStmt) ast.Stmt {
	x.needVS, x.changed = true, true
	x.st.Select++
	var pre []ast.Stmt
	var refs []ast.Expr
	var cases []ast.Stmt
	hasDefault := "false"
	idx := 0
	for _, cl := range n.Body.List {
		cc := cl.(*ast.CommClause)
		if cc.Comm == nil {
			hasDefault = "true"
			cases = append(cases, &ast.CaseClause{List: nil, Body: cc.Body})
			continue
		}
		var body []ast.Stmt
		switch s := cc.Comm.(type) {
		case *ast.SendStmt:
			cv := x.tmp()
			pre = append(pre, define(cv, s.Chan))
			val := s.Value
			if !x.isConstOrNil(val) {
				vv := x.tmp()
				pre = append(pre, define(vv, val))
				val = vv
			}
			refs = append(refs, call(vs("S"), cv))
			body = append(body, &ast.SendStmt{Chan: cv, Value: val})
		case *ast.ExprStmt:
			u, ok := s.X.(*ast.UnaryExpr)
			if !ok || u.Op != token.ARROW {
				errorf(x.fset, s.Pos(), "unsupported select comm")
				continue
			}
			cv := x.tmp()
			pre = append(pre, define(cv, u.X))
			refs = append(refs, call(vs("R"), cv))
			body = append(body, &ast.ExprStmt{X: &ast.UnaryExpr{Op: token.ARROW, X: cv}})
		case *ast.AssignStmt:
			u, ok := s.Rhs[0].(*ast.UnaryExpr)
			if !ok || u.Op != token.ARROW || len(s.Rhs) != 1 {
				errorf(x.fset, s.Pos(), "unsupported select comm")
				continue
			}
			cv := x.tmp()
			pre = append(pre, define(cv, u.X))
			refs = append(refs, call(vs("R"), cv))
			as := &ast.AssignStmt{Lhs: s.Lhs, Tok: s.Tok, Rhs: []ast.Expr{&ast.UnaryExpr{Op: token.ARROW, X: cv}}}
			body = append(body, as)
			// a variable declared by the comm may be unused in the body (legal in select)
			if s.Tok == token.DEFINE {
				for _, l := range s.Lhs {
					if id, ok := l.(*ast.Ident); ok && id.Name != "_" {
						body = append(body, &ast.AssignStmt{Lhs: []ast.Expr{ast.NewIdent("_")}, Tok: token.ASSIGN, Rhs: []ast.Expr{ast.NewIdent(id.Name)}})
					}
				}
			}
		default:
			errorf(x.fset, cc.Pos(), "unsupported select comm")
			continue
		}
		// insert SelDone right after the native op (before the `_ = x` fillers is fine too)
		body = append(body[:1], append([]ast.Stmt{&ast.ExprStmt{X: call(vs("SelDone"))}}, body[1:]...)...)
		body = append(body, cc.Body...)
		cases = append(cases, &ast.CaseClause{List: []ast.Expr{&ast.BasicLit{Kind: token.INT, Value: strconv.Itoa(idx)}}, Body: body})
		idx++
	}
	args := append([]ast.Expr{ast.NewIdent(hasDefault)}, refs...)
	sw := &ast.SwitchStmt{Tag: call(vs("Select"), args...), Body: &ast.BlockStmt{List: cases}}
	return &ast.BlockStmt{List: append(pre, sw)}
}

func hasCall(e ast.Expr) bool {
	found := false
	ast.Inspect(e, func(n ast.Node) bool {
		if _, ok := n.(*ast.CallExpr); ok {
			found = true
		}
		return !found
	})
	return found
}

func isBlank(e ast.Expr) bool {
	if e == nil {
		return true
	}
	id, ok := e.(*ast.Ident)
	return ok && id.Name == "_"
}

func (x *xf) rangeStmt(c *astutil.Cursor, n *ast.RangeStmt) {
	t := x.typeOf(n.X)
	if t == nil {
		errorf(x.fset, n.Pos(), "range: unknown type")
		return
	}
	switch u := t.Underlying().(type) {
	case *types.Chan:
		x.needVS, x.changed = true, true
		x.st.RangeChan++
		if n.Tok == token.ASSIGN {
			errorf(x.fset, n.Pos(), "range over channel with '=' is not supported")
			return
		}
		cv, ok := x.tmp(), x.tmp()
		var lhs ast.Expr = ast.NewIdent("_")
		if !isBlank(n.Key) {
			lhs = n.Key
		}
		recv := &ast.AssignStmt{Lhs: []ast.Expr{lhs, ok}, Tok: token.DEFINE, Rhs: []ast.Expr{call(vs("RecvOK"), cv)}}
		brk := &ast.IfStmt{Cond: &ast.UnaryExpr{Op: token.NOT, X: ok}, Body: &ast.BlockStmt{List: []ast.Stmt{&ast.BranchStmt{Tok: token.BREAK}}}}
		body := append([]ast.Stmt{recv, brk}, n.Body.List...)
		loop := &ast.ForStmt{Body: &ast.BlockStmt{List: body}}
		c.Replace(&ast.BlockStmt{List: []ast.Stmt{define(cv, n.X), loop}})
	case *types.Map:
		if n.Tok == token.ASSIGN {
			errorf(x.fset, n.Pos(), "range over map with '=' is not supported")
			return
		}
		if !orderedKey(u.Key()) {
			errorf(x.fset, n.Pos(), "range over map with unordered key type %s", u.Key())
			return
		}
		if _, lab := c.Parent().(*ast.LabeledStmt); lab && hasCall(n.X) {
			errorf(x.fset, n.Pos(), "labeled range over map call expression is not supported")
			return
		}
		x.needVS, x.changed = true, true
		x.st.RangeMap++
		var pre []ast.Stmt
		m := n.X
		if hasCall(m) {
			mv := x.tmp()
			pre = append(pre, define(mv, m))
			m = mv
		}
		var key ast.Expr = n.Key
		if isBlank(key) {
			key = x.tmp()
		}
		ok := x.tmp()
		var val ast.Expr = ast.NewIdent("_")
		if !isBlank(n.Value) {
			val = n.Value
		}
		get := &ast.AssignStmt{Lhs: []ast.Expr{val, ok}, Tok: token.DEFINE, Rhs: []ast.Expr{&ast.IndexExpr{X: m, Index: key}}}
		cont := &ast.IfStmt{Cond: &ast.UnaryExpr{Op: token.NOT, X: ok}, Body: &ast.BlockStmt{List: []ast.Stmt{&ast.BranchStmt{Tok: token.CONTINUE}}}}
		body := append([]ast.Stmt{get, cont}, n.Body.List...)
		loop := &ast.RangeStmt{Key: ast.NewIdent("_"), Value: key, Tok: token.DEFINE, X: call(vs("SortedKeys"), m), Body: &ast.BlockStmt{List: body}}
		if len(pre) > 0 {
			c.Replace(&ast.BlockStmt{List: append(pre, loop)})
		} else {
			c.Replace(loop)
		}
	}
}

func orderedKey(t types.Type) bool {
	b, ok := t.Underlying().(*types.Basic)
	if !ok {
		return false
	}
	return b.Info()&(types.IsInteger|types.IsFloat|types.IsString) != 0
}
