package checks

import (
	"fmt"
	"reflect"
	"sort"
	"strings"

	"github.com/DrmagicE/gmqtt"
	"github.com/DrmagicE/gmqtt/server"
	"github.com/DrmagicE/gmqtt/zzverif/vsched"

	"verif/explore"
	"verif/harness"
	"verif/refmqtt"
)

// E3 scenarios shared by C01, C03 and C20: several publishers, an acknowledging
// subscriber and optional concurrent subscribe / API publish / take-over, each actor a
// harness thread, explored under every schedule within the deviation bound.  The
// oracles are schedule-independent: they are evaluated on the stamped wire logs of the
// scripted clients after the system has gone quiescent.

type concObs struct {
	problems [][3]string
	outcome  string
}

func (o *concObs) bad(rule, class, detail string) {
	o.problems = append(o.problems, [3]string{rule, class, detail})
}

type concPubSub struct {
	name        string
	pubQoS      [][]byte // per publisher: QoS of each message
	apiPub      int      // messages published through Publisher.Publish by another thread (QoS 1)
	subQoS      byte
	subVersion  byte
	recvMax     uint16 // 0 = absent
	maxInflight uint16
	lateSub     bool     // a second client subscribes (QoS 0) concurrently
	takeover    bool     // the subscriber's connection is displaced concurrently (clean start 0)
	unsub       bool     // the late subscriber also unsubscribes concurrently (separate thread, after its SUBACK)
	subMaxPkt   uint32   // subscriber's Maximum Packet Size (0 = absent)
	big         [][]bool // per publisher, per message: payload padded beyond subMaxPkt
}

func (s concPubSub) window() int {
	w := int(s.maxInflight)
	if s.subVersion == refmqtt.V5 && s.recvMax != 0 && int(s.recvMax) < w {
		w = int(s.recvMax)
	}
	return w
}

// concAckLoop acknowledges everything the broker sends on cl, as it arrives.
func concAckLoop(cl *harness.Client) {
	for {
		rx, ok := cl.WaitPacket()
		if !ok {
			return
		}
		if rx.P == nil {
			continue
		}
		switch rx.P.Type {
		case refmqtt.PUBLISH:
			if rx.P.QoS == 1 {
				cl.Send(&refmqtt.Packet{Type: refmqtt.PUBACK, PacketID: rx.P.PacketID})
			} else if rx.P.QoS == 2 {
				cl.Send(&refmqtt.Packet{Type: refmqtt.PUBREC, PacketID: rx.P.PacketID})
			}
		case refmqtt.PUBREL:
			cl.Send(&refmqtt.Packet{Type: refmqtt.PUBCOMP, PacketID: rx.P.PacketID})
		case refmqtt.PUBREC:
			cl.Send(&refmqtt.Packet{Type: refmqtt.PUBREL, PacketID: rx.P.PacketID})
		}
	}
}

type concMsg struct {
	pub, idx int
	qos      byte
	payload  string
	big      bool
	sentAt   int64 // stamp after the publisher wrote it (0 = API)
	ackedAt  int64 // stamp of PUBACK / PUBREC written by the broker
}

func concPubSubBody(obs *concObs, sc concPubSub, prop string) func() {
	return func() {
		*obs = concObs{}
		cfg := harness.DefaultConfig()
		if sc.maxInflight != 0 {
			cfg.MQTT.MaxInflight = sc.maxInflight
		}
		w := harness.NewWorld(cfg, server.Hooks{})
		// subscriber
		sprops := &refmqtt.Props{SessionExpiry: harness.U32(100)}
		if sc.recvMax != 0 {
			sprops.ReceiveMax = harness.U16(sc.recvMax)
		}
		if sc.subMaxPkt != 0 {
			sprops.MaxPacketSize = harness.U32(sc.subMaxPkt)
		}
		sopts := harness.ConnectOpts{ClientID: "s", Clean: false, Version: sc.subVersion}
		if sc.subVersion == refmqtt.V5 {
			sopts.Props = sprops
		}
		S := w.Dial("S")
		if ack := S.Connect(sopts); ack == nil || ack.Code != 0 {
			obs.bad("setup", "subscriber-connect-refused", "")
			return
		}
		S.Subscribe(0, refmqtt.Sub{Filter: "t", QoS: sc.subQoS})
		sconns := []*harness.Client{S}
		// publishers
		var pubs []*harness.Client
		var msgs []*concMsg
		for i := range sc.pubQoS {
			p := w.Dial(fmt.Sprintf("P%d", i+1))
			p.Connect(harness.ConnectOpts{ClientID: fmt.Sprintf("p%d", i+1), Clean: true, Version: refmqtt.V5})
			pubs = append(pubs, p)
			for j, q := range sc.pubQoS[i] {
				m := &concMsg{pub: i, idx: j, qos: q, payload: fmt.Sprintf("p%dm%d", i+1, j+1)}
				if i < len(sc.big) && j < len(sc.big[i]) && sc.big[i][j] {
					m.big = true
					m.payload += strings.Repeat("B", int(sc.subMaxPkt))
				}
				msgs = append(msgs, m)
			}
		}
		for k := 0; k < sc.apiPub; k++ {
			msgs = append(msgs, &concMsg{pub: len(sc.pubQoS), idx: k, qos: 1, payload: fmt.Sprintf("apim%d", k+1)})
		}
		var L *harness.Client
		if sc.lateSub {
			L = w.Dial("L")
			L.Connect(harness.ConnectOpts{ClientID: "l", Clean: true, Version: refmqtt.V5})
		}
		vsched.Settle()
		// ---- concurrent phase
		vsched.Go("sub-acks", func() { concAckLoop(S) })
		for i := range pubs {
			i := i
			vsched.Go(fmt.Sprintf("pub%d", i+1), func() {
				p := pubs[i]
				for _, m := range msgs {
					if m.pub != i {
						continue
					}
					pk := &refmqtt.Packet{Type: refmqtt.PUBLISH, Topic: "t", Payload: []byte(m.payload), QoS: m.qos}
					if m.qos > 0 {
						pk.PacketID = p.PID()
					}
					p.Send(pk)
					m.sentAt = p.Sent[len(p.Sent)-1].Stamp
				}
				// complete QoS 2 handshakes
				concAckLoop(p)
			})
		}
		if sc.apiPub > 0 {
			vsched.Go("api-pub", func() {
				for _, m := range msgs {
					if m.pub == len(sc.pubQoS) {
						w.Srv.Publisher().Publish(&gmqtt.Message{Topic: "t", Payload: []byte(m.payload), QoS: 1})
					}
				}
			})
		}
		var lSubscribedAt, lSubackAt, lUnsubAt int64
		if sc.lateSub {
			vsched.Go("late-sub", func() {
				L.Send(&refmqtt.Packet{Type: refmqtt.SUBSCRIBE, PacketID: L.PID(), Subs: []refmqtt.Sub{{Filter: "t", QoS: 0}}})
				lSubscribedAt = L.Sent[len(L.Sent)-1].Stamp
				if sc.unsub {
					// wait for the SUBACK, then unsubscribe
					for {
						rx, ok := L.WaitPacket()
						if !ok {
							return
						}
						if rx.P != nil && rx.P.Type == refmqtt.SUBACK {
							break
						}
					}
					L.Send(&refmqtt.Packet{Type: refmqtt.UNSUBSCRIBE, PacketID: L.PID(), Filters: []string{"t"}})
					lUnsubAt = L.Sent[len(L.Sent)-1].Stamp
				}
			})
		}
		if sc.takeover {
			vsched.Go("takeover", func() {
				S2 := w.Dial("S'")
				S2.Version, S2.ID = sc.subVersion, "s"
				sconns = append(sconns, S2)
				S2.Send(harness.ConnectPacket(sopts))
				concAckLoop(S2)
			})
		}
		vsched.Settle()
		// ---- quiescent: collect
		for _, cl := range append(append([]*harness.Client{}, sconns...), pubs...) {
			cl.Pump()
		}
		if L != nil {
			L.Pump()
			for _, r := range L.Inbox {
				if r.P != nil && r.P.Type == refmqtt.SUBACK && lSubackAt == 0 {
					lSubackAt = r.Stamp
				}
			}
		}
		if p := w.SwallowedPanic(); p != "" {
			obs.bad("no-panic", "recovered: "+trimTo(p, 80), p)
			return
		}
		byPayload := map[string]*concMsg{}
		for _, m := range msgs {
			byPayload[m.payload] = m
		}
		// publisher acknowledgements
		for i, p := range pubs {
			acks := map[uint16][]byte{}
			for _, r := range p.Inbox {
				if r.P == nil {
					continue
				}
				switch r.P.Type {
				case refmqtt.PUBACK, refmqtt.PUBREC, refmqtt.PUBCOMP:
					acks[r.P.PacketID] = append(acks[r.P.PacketID], r.P.Type)
					if r.P.Type != refmqtt.PUBCOMP {
						n := 0
						for _, m := range msgs {
							if m.pub == i && m.qos > 0 {
								n++
								if uint16(n) == r.P.PacketID && m.ackedAt == 0 {
									m.ackedAt = r.Stamp
								}
							}
						}
					}
				}
			}
			if prop == "C01" {
				n := uint16(0)
				for _, m := range msgs {
					if m.pub != i || m.qos == 0 {
						continue
					}
					n++
					want := []byte{refmqtt.PUBACK}
					if m.qos == 2 {
						want = []byte{refmqtt.PUBREC, refmqtt.PUBCOMP}
					}
					if string(acks[n]) != string(want) {
						obs.bad("publisher-ack", fmt.Sprintf("qos%d-publish-acks-%v-want-%v", m.qos, acks[n], want), fmt.Sprintf("publisher %d packet id %d", i+1, n))
					}
				}
				if p.ClosedByBroker() {
					obs.bad("publisher-ack", "publisher-disconnected", fmt.Sprint(i+1))
				}
			}
		}
		// ---- subscriber side
		type rec struct {
			conn  int
			rx    harness.Rx
			ackAt int64
		}
		var recs []rec
		for ci, cl := range sconns {
			for _, r := range cl.Inbox {
				if r.P == nil || r.P.Type != refmqtt.PUBLISH {
					continue
				}
				x := rec{conn: ci, rx: r}
				if r.P.QoS > 0 {
					final := byte(refmqtt.PUBACK)
					if r.P.QoS == 2 {
						final = refmqtt.PUBCOMP
					}
					for _, t := range cl.Sent {
						if t.Type == final && t.PID == r.P.PacketID && t.Stamp > r.Stamp && x.ackAt == 0 {
							x.ackAt = t.Stamp
						}
					}
				}
				recs = append(recs, x)
			}
		}
		firstCopies := map[string]int{}
		allCopies := map[string]int{}
		for _, x := range recs {
			pl := string(x.rx.P.Payload)
			allCopies[pl]++
			if !x.rx.P.Dup {
				firstCopies[pl]++
			}
		}
		switch prop {
		case "C01":
			// exactly one copy each, QoS = min, per-publisher order
			lastIdx := map[int]int{}
			for _, x := range recs {
				pl := string(x.rx.P.Payload)
				m := byPayload[pl]
				if m == nil {
					obs.bad("delivery", "unknown-message-delivered", pl)
					continue
				}
				wq := m.qos
				if sc.subQoS < wq {
					wq = sc.subQoS
				}
				if x.rx.P.QoS != wq {
					obs.bad("delivery", fmt.Sprintf("qos-%d-want-%d", x.rx.P.QoS, wq), pl)
				}
				if x.rx.P.Retain {
					obs.bad("delivery", "retain-set-on-live-forward", pl)
				}
				if !x.rx.P.Dup {
					if li, ok := lastIdx[m.pub]; ok && li > m.idx {
						obs.bad("order", "messages-of-one-publisher-reordered", fmt.Sprintf("%s after index %d", pl, li))
					}
					lastIdx[m.pub] = m.idx
				}
			}
			if !sc.takeover {
				for _, m := range msgs {
					want := 1
					if m.big {
						want = 0
					}
					if n := allCopies[m.payload]; n != want {
						obs.bad("delivery", fmt.Sprintf("%d-copies-of-a-message-want-%d", n, want), trimTo(m.payload, 12))
					}
				}
			} else {
				for _, m := range msgs {
					if m.qos > 0 && sc.subQoS > 0 && allCopies[m.payload] == 0 {
						obs.bad("delivery", "qos>0-message-lost-across-take-over", m.payload)
					}
					if firstCopies[m.payload] > 1 {
						obs.bad("delivery", "message-delivered-twice-without-DUP", m.payload)
					}
				}
			}
			if L != nil {
				got := map[string]int{}
				lastIdx := map[int]int{}
				for _, r := range L.Inbox {
					if r.P == nil || r.P.Type != refmqtt.PUBLISH {
						continue
					}
					pl := string(r.P.Payload)
					m := byPayload[pl]
					if m == nil {
						obs.bad("delivery", "unknown-message-delivered", pl)
						continue
					}
					got[pl]++
					if r.P.QoS != 0 {
						obs.bad("delivery", fmt.Sprintf("late-subscriber-qos-%d-want-0", r.P.QoS), pl)
					}
					if li, ok := lastIdx[m.pub]; ok && li > m.idx {
						obs.bad("order", "late-subscriber-messages-of-one-publisher-reordered", pl)
					}
					lastIdx[m.pub] = m.idx
					if lSubscribedAt != 0 && m.ackedAt != 0 && m.ackedAt < lSubscribedAt {
						obs.bad("delivery", "message-acknowledged-before-SUBSCRIBE-was-sent-delivered-to-late-subscriber", pl)
					}
				}
				for _, m := range msgs {
					if got[m.payload] > 1 {
						obs.bad("delivery", fmt.Sprintf("late-subscriber-%d-copies", got[m.payload]), m.payload)
					}
					if !sc.unsub && m.sentAt != 0 && lSubackAt != 0 && m.sentAt > lSubackAt && got[m.payload] == 0 {
						obs.bad("delivery", "message-published-after-SUBACK-not-delivered-to-late-subscriber", m.payload)
					}
				}
				_ = lUnsubAt
			}
		case "C03":
			win := sc.window()
			for ci := range sconns {
				// outstanding set at the instant each PUBLISH was written
				for _, x := range recs {
					if x.conn != ci || x.rx.P.QoS == 0 {
						continue
					}
					if x.rx.P.PacketID == 0 {
						obs.bad("ids", "packet-id-zero", string(x.rx.P.Payload))
					}
					n := 0
					for _, y := range recs {
						if y.conn != ci || y.rx.P.QoS == 0 || y.rx.Stamp > x.rx.Stamp {
							continue
						}
						if y.ackAt != 0 && y.ackAt < x.rx.Stamp {
							continue
						}
						n++
						if y.rx.Stamp < x.rx.Stamp && y.rx.P.PacketID == x.rx.P.PacketID {
							obs.bad("ids", "packet-id-reused-while-outstanding", fmt.Sprintf("id %d for %s and %s", x.rx.P.PacketID, y.rx.P.Payload, x.rx.P.Payload))
						}
					}
					if n > win {
						obs.bad("window", fmt.Sprintf("%d-unacknowledged-publishes-window-%d", n, win), fmt.Sprintf("at %s on connection %d", x.rx.P.Payload, ci+1))
					}
				}
			}
			// first transmission DUP=0; retransmissions (second connection only) DUP=1 before new ones
			seenOld := map[string]uint16{}
			for _, x := range recs {
				pl := string(x.rx.P.Payload)
				if x.conn == 0 {
					if x.rx.P.Dup {
						obs.bad("dup", "first-transmission-with-DUP-1", pl)
					}
					if _, twice := seenOld[pl]; twice {
						obs.bad("dup", "message-sent-twice-on-one-connection", pl)
					}
					seenOld[pl] = x.rx.P.PacketID
				}
			}
			newSeen := false
			seenNew := map[string]bool{}
			for _, x := range recs {
				if x.conn != 1 {
					continue
				}
				pl := string(x.rx.P.Payload)
				if seenNew[pl] {
					obs.bad("dup", "message-sent-twice-on-one-connection", pl)
				}
				seenNew[pl] = true
				if x.rx.P.QoS == 0 {
					continue
				}
				if x.rx.P.Dup {
					if newSeen {
						obs.bad("retransmit", "retransmission-after-a-new-message", pl)
					}
					if id, ok := seenOld[pl]; ok && id != x.rx.P.PacketID {
						obs.bad("retransmit", "retransmission-with-a-different-packet-id", fmt.Sprintf("%s: %d then %d", pl, id, x.rx.P.PacketID))
					}
				} else {
					newSeen = true
					if _, ok := seenOld[pl]; ok {
						obs.bad("retransmit", "message-seen-on-the-old-connection-resent-with-DUP-0", pl)
					}
				}
			}
			// at-least-once
			for _, m := range msgs {
				if m.qos > 0 && sc.subQoS > 0 && allCopies[m.payload] == 0 && !m.big {
					obs.bad("at-least-once", "qos>0-message-never-delivered", m.payload)
				}
			}
		case "C20":
			nbig := map[byte]uint64{}
			for _, m := range msgs {
				if m.big {
					q := m.qos
					if sc.subQoS < q {
						q = sc.subQoS
					}
					nbig[q]++
				}
			}
			concStats(obs, w, sc, append(append([]*harness.Client{}, sconns...), pubs...), L, nbig)
		}
		nd := 0
		for _, x := range recs {
			if x.rx.P.Dup {
				nd++
			}
		}
		order := ""
		for _, x := range recs {
			order += fmt.Sprintf("%d%s ", x.conn, trimTo(string(x.rx.P.Payload), 6))
		}
		obs.outcome = fmt.Sprintf("copies=%d dup=%d order=%s", len(recs), nd, strings.TrimSpace(order))
		if L != nil {
			n := 0
			for _, r := range L.Inbox {
				if r.P != nil && r.P.Type == refmqtt.PUBLISH {
					n++
				}
			}
			obs.outcome += fmt.Sprintf(" late=%d", n)
		}
	}
}

// concStats compares every packet/byte/message counter and the gauges with the wire
// logs at the final quiescent point (no take-over, everything acknowledged).
func concStats(obs *concObs, w *harness.World, sc concPubSub, clients []*harness.Client, L *harness.Client, oversize map[byte]uint64) {
	if L != nil {
		clients = append(clients, L)
	}
	T := &c20Truth{m: map[string]uint64{}}
	// messages larger than the subscriber's Maximum Packet Size are dropped whole and counted
	for q, n := range oversize {
		T.add(fmt.Sprintf("global.MessageStats.Qos%d.DroppedTotal.ExceedsMaxPacketSize", q), n)
		T.add(fmt.Sprintf("client:s.MessageStats.Qos%d.DroppedTotal.ExceedsMaxPacketSize", q), n)
	}
	for _, cl := range clients {
		cl.Pump()
		scope := "client:" + cl.ID
		for _, t := range cl.Sent {
			T.packet("global", true, t.Type, t.Len)
			T.packet(scope, true, t.Type, t.Len)
			if t.Type == refmqtt.PUBLISH {
				q := (t.Flags >> 1) & 3
				T.add(fmt.Sprintf("global.MessageStats.Qos%d.ReceivedTotal", q), 1)
				T.add(fmt.Sprintf("%s.MessageStats.Qos%d.ReceivedTotal", scope, q), 1)
			}
		}
		for _, r := range cl.Inbox {
			if r.P == nil {
				continue
			}
			T.packet("global", false, r.P.Type, r.Len)
			T.packet(scope, false, r.P.Type, r.Len)
			if r.P.Type == refmqtt.PUBLISH {
				T.add(fmt.Sprintf("global.MessageStats.Qos%d.SentTotal", r.P.QoS), 1)
				T.add(fmt.Sprintf("%s.MessageStats.Qos%d.SentTotal", scope, r.P.QoS), 1)
			}
		}
	}
	n := uint64(len(clients))
	T.set("global.ConnectionStats.ConnectedTotal", n)
	T.set("global.ConnectionStats.SessionCreatedTotal", n)
	T.set("global.ConnectionStats.ActiveCurrent", n)
	got := map[string]uint64{}
	flatten("global", reflect.ValueOf(w.Srv.StatsManager().GetGlobalStats()), got)
	for _, cl := range clients {
		if cs, exist := w.Srv.StatsManager().GetClientStats(cl.ID); exist {
			flatten("client:"+cl.ID, reflect.ValueOf(cs), got)
		} else {
			obs.bad("counter", "client-statistics-missing", cl.ID)
		}
	}
	var keys []string
	for k := range got {
		keys = append(keys, k)
	}
	for k := range T.m {
		if _, ok := got[k]; !ok {
			keys = append(keys, k)
		}
	}
	sort.Strings(keys)
	for _, k := range keys {
		if strings.Contains(k, "SubscriptionStats") {
			continue
		}
		if got[k] != T.m[k] {
			kk := k
			if i := strings.Index(k, "."); strings.HasPrefix(k, "client:") && i > 0 {
				kk = "client" + k[i:]
			}
			switch {
			case got[k] > 1<<62:
				kk += ":wrapped-below-zero"
			case got[k] > T.m[k]:
				kk += ":too-high"
			default:
				kk += ":too-low"
			}
			obs.bad("counter", kk, fmt.Sprintf("%s = %d, ground truth %d", k, got[k], T.m[k]))
		}
	}
	// global == sum of per-client (packet and message counters)
	sum := map[string]uint64{}
	for k, v := range got {
		if i := strings.Index(k, "."); strings.HasPrefix(k, "client:") && i > 0 && !strings.Contains(k, "SubscriptionStats") {
			sum["global"+k[i:]] += v
		}
	}
	for k, v := range sum {
		if got[k] != v {
			obs.bad("counter", "global-differs-from-sum-of-clients:"+k, fmt.Sprintf("global %d, sum %d", got[k], v))
		}
	}
}

func concScenarios(prop string, quick bool) []concPubSub {
	q1 := []byte{1, 1}
	all := []concPubSub{
		{name: "2pub-q1-sub-q1-recvmax2", pubQoS: [][]byte{q1, q1}, subQoS: 1, subVersion: refmqtt.V5, recvMax: 2, maxInflight: 100},
		{name: "pub-q2-pub-q0-sub-q2-inflight1", pubQoS: [][]byte{{2, 2}, {0, 0}}, subQoS: 2, subVersion: refmqtt.V311, maxInflight: 1},
		{name: "pub-q1-api-late-subscribe", pubQoS: [][]byte{{1, 1}}, apiPub: 1, subQoS: 1, subVersion: refmqtt.V5, recvMax: 1, maxInflight: 100, lateSub: true},
		{name: "2pub-oversize-among-small-recvmax1", pubQoS: [][]byte{{1, 1, 1}, {1}}, big: [][]bool{{false, true, false}, {false}}, subQoS: 1, subVersion: refmqtt.V5, recvMax: 1, subMaxPkt: 40, maxInflight: 100},
		{name: "api-2-messages-vs-client-publisher", pubQoS: [][]byte{{1, 1}}, apiPub: 2, subQoS: 1, subVersion: refmqtt.V5, recvMax: 4, maxInflight: 100},
		{name: "2pub-q1q2-takeover", pubQoS: [][]byte{{1, 2}, {1}}, subQoS: 2, subVersion: refmqtt.V5, recvMax: 2, maxInflight: 100, takeover: true},
	}
	if !quick {
		all = append(all,
			concPubSub{name: "3pub-q1-sub-q1-recvmax1", pubQoS: [][]byte{{1}, {1}, {1}}, subQoS: 1, subVersion: refmqtt.V5, recvMax: 1, maxInflight: 100},
			concPubSub{name: "pub-q1-late-subscribe-unsubscribe", pubQoS: [][]byte{{1, 1, 1}}, subQoS: 0, subVersion: refmqtt.V311, maxInflight: 2, lateSub: true, unsub: true},
			concPubSub{name: "pub-q2-takeover-inflight1", pubQoS: [][]byte{{2, 1}}, apiPub: 1, subQoS: 2, subVersion: refmqtt.V311, maxInflight: 1, takeover: true},
		)
	}
	var out []concPubSub
	for _, s := range all {
		if prop == "C20" && s.takeover {
			continue // a PUBLISH handed to a socket the broker itself is closing is counted but not written: not judged
		}
		out = append(out, s)
	}
	return out
}

// concPubSubPhase runs the shared scenarios with the oracle of one property.
func concPubSubPhase(c *explore.Ctx, prop string) {
	bound := 1
	if !c.Quick() {
		bound = 2
	}
	c.Extra["e3_deviation_bound"] = bound
	var names []string
	for _, sc := range concScenarios(prop, c.Quick()) {
		sc := sc
		obs := &concObs{}
		names = append(names, sc.name)
		schedScenario(c, "e3-"+sc.name, bound, func() [][3]string { return obs.problems }, func() string { return obs.outcome }, concPubSubBody(obs, sc, prop), map[string]any{"e3": sc.name})
		if !c.Quick() && prop == "C01" && sc.apiPub >= 2 {
			// thorough only: also vary which runnable thread goes next when the running one blocks
			// (two goroutines waiting for the same lock), at one deviation
			names = append(names, sc.name+"+switch")
			schedScenario(c, "e3-"+sc.name+"+switch", 1, func() [][3]string { return obs.problems }, func() string { return obs.outcome }, concPubSubBody(obs, sc, prop), map[string]any{"e3": sc.name, "switch_choice": true})
		}
	}
	c.Extra["e3_scenarios"] = names
}

// concReplay re-runs one recorded schedule of a shared scenario (with the scheduler
// trace) and reports what the oracle of prop says about it.
func concReplay(c *explore.Ctx, rc map[string]any, prop string) bool {
	name, ok := rc["e3"].(string)
	if !ok {
		return false
	}
	for _, sc := range concScenarios(prop, false) {
		if sc.name != name {
			continue
		}
		obs := &concObs{}
		if rc["switch_choice"] == true {
			explore.SwitchChoice = true
			defer func() { explore.SwitchChoice = false }()
		}
		r, div := explore.RunPrefix(intsOf(rc["choices"]), nil, verbose, concPubSubBody(obs, sc, prop))
		for _, l := range r.Log {
			fmt.Println(l)
		}
		fmt.Println("divergence:", div, "outcome:", obs.outcome, "panic:", firstLines(r.Panic, 8), "deadlock:", r.Deadlock, r.Parked)
		if r.Panic != "" {
			c.Violate("no-panic", panicClass(r.Panic), rc, "no panic", firstLines(r.Panic, 12))
		}
		for _, p := range obs.problems {
			c.Violate(p[0], "e3-"+name+":"+p[1], rc, "property holds in every schedule", p[2])
		}
	}
	return true
}
