package checks

import (
	"fmt"
	"time"

	"github.com/DrmagicE/gmqtt/server"
	"github.com/DrmagicE/gmqtt/zzverif/vsched"

	"verif/explore"
	"verif/harness"
	"verif/refmqtt"
)

func init() { register("C08", runC08) }

type c08Will struct {
	version byte
	qos     byte
	retain  bool
	delay   int64 // seconds, -1 absent
	props   bool
	expiry  int64 // v5 session expiry (-1 absent); v3: 0 = clean session, else non-clean
}

func (w c08Will) String() string {
	return fmt.Sprintf("v%d willq%d ret%v delay%d props%v sessexp%d", w.version, w.qos, w.retain, w.delay, w.props, w.expiry)
}

var c08Endings = []string{"DISCONNECT(0x00)", "DISCONNECT(0x04)", "socket-close", "malformed-packet", "keepalive-timeout", "takeover(clean0)", "takeover(clean1)", "Client.Close()", "TerminateSession", "invalid-DISCONNECT(0x00,session-expiry-30-after-CONNECT-with-expiry-0)"}
var c08Follow = []string{"advance(4s)", "advance(6s)", "advance(21s)", "reconnect(clean0)", "reconnect(clean1)", "reconnect(clean0,other-protocol-version)"}

func c08Variants(quick bool) []c08Will {
	var out []c08Will
	for _, q := range []byte{0, 1} {
		for _, r := range []bool{false, true} {
			for _, d := range []int64{-1, 5} {
				for _, p := range []bool{false, true} {
					for _, e := range []int64{-1, 3, 10} {
						if quick && p && d == -1 && e == 3 {
							continue
						}
						out = append(out, c08Will{refmqtt.V5, q, r, d, p, e})
					}
				}
			}
			out = append(out, c08Will{refmqtt.V311, q, r, -1, false, 0}, c08Will{refmqtt.V311, q, r, -1, false, 7200})
		}
	}
	return out
}

func c08Run(c *explore.Ctx, wv c08Will, ending int, follow []int) {
	cas := func() any {
		var fs []string
		for _, f := range follow {
			fs = append(fs, c08Follow[f])
		}
		return map[string]any{"will": wv.String(), "ending": c08Endings[ending], "follow_ups": fs,
			"v": wv.version, "q": wv.qos, "r": wv.retain, "d": wv.delay, "p": wv.props, "e": wv.expiry, "ending_i": ending, "follow_i": follow}
	}
	c.Count("executions", 1)
	execBody(c, "C08", cas, func() {
		w := harness.NewWorld(harness.DefaultConfig(), server.Hooks{})
		if w.InitErr != nil {
			c.Fatal("init: %v", w.InitErr)
			return
		}
		watch := w.Dial("W")
		watch.Connect(harness.ConnectOpts{ClientID: "watch", Clean: true, Version: refmqtt.V5})
		watch.Subscribe(0, refmqtt.Sub{Filter: "w", QoS: 1, RAP: true})
		now := int64(0) // ns since scenario start
		otherVersion := false
		connect := func(name string, clean bool, withWill bool, ka uint16) *harness.Client {
			x := w.Dial(name)
			o := harness.ConnectOpts{ClientID: "x", Clean: clean, Version: wv.version, KeepAlive: ka}
			if otherVersion {
				// the session is re-attached by a connection of the other protocol version
				otherVersion = false
				if wv.version == refmqtt.V5 {
					o.Version = refmqtt.V311
				} else {
					o.Version = refmqtt.V5
					o.Props = &refmqtt.Props{SessionExpiry: harness.U32(100)}
				}
			} else if wv.version == refmqtt.V5 && wv.expiry >= 0 {
				o.Props = &refmqtt.Props{SessionExpiry: harness.U32(uint32(wv.expiry))}
			}
			if withWill {
				wl := &harness.Will{Topic: "w", Payload: []byte("bye"), QoS: wv.qos, Retain: wv.retain}
				if wv.version == refmqtt.V5 {
					wl.Props = &refmqtt.Props{}
					if wv.delay >= 0 {
						wl.Props.WillDelay = harness.U32(uint32(wv.delay))
					}
					if wv.props {
						wl.Props.PayloadFormat = harness.U8(1)
						wl.Props.ContentType = harness.Str("ct")
						wl.Props.ResponseTopic = harness.Str("rt")
						wl.Props.CorrelationData, wl.Props.HasCorrelationData = []byte("cd"), true
						wl.Props.User = []refmqtt.KV{{K: "k", V: "v"}}
					}
				}
				o.Will = wl
			}
			ack := x.Connect(o)
			if ack == nil || ack.Code != 0 {
				c.Violate("connect", "refused", cas(), "CONNACK success", fmt.Sprint(ack))
				return nil
			}
			return x
		}
		v3clean := wv.version != refmqtt.V5 && wv.expiry == 0
		ka := uint16(0)
		if ending == 4 {
			ka = 2
		}
		x := connect("X1", wv.version == refmqtt.V5 || v3clean, true, ka)
		if x == nil {
			return
		}
		// effective session expiry in seconds
		sessExp := wv.expiry
		if wv.version == refmqtt.V5 && sessExp < 0 {
			sessExp = 0
		}
		delay := wv.delay
		if delay < 0 {
			delay = 0
		}
		wait := delay
		if sessExp < wait {
			wait = sessExp
		}
		// reference will machine
		armed := true
		published := 0
		var due int64 = -1 // ns; -1 = not scheduled
		sessionAlive := true
		var sessionEnds int64 = -1
		endConnection := func(sessionEndsNow bool) {
			if !armed {
				if sessionEndsNow {
					sessionAlive = false
				}
				return
			}
			if sessionEndsNow || wait == 0 {
				published++
				armed = false
			} else {
				due = now + wait*1e9
			}
			if sessionEndsNow || sessExp == 0 {
				sessionAlive = false
			} else {
				sessionEnds = now + sessExp*1e9
			}
		}
		valid := true
		switch ending {
		case 0:
			x.Send(&refmqtt.Packet{Type: refmqtt.DISCONNECT})
			vsched.Settle()
			x.Close()
			vsched.Settle()
			armed = false
			endConnection(false)
		case 1:
			if wv.version != refmqtt.V5 {
				valid = false
				break
			}
			x.Send(&refmqtt.Packet{Type: refmqtt.DISCONNECT, Code: 0x04})
			vsched.Settle()
			x.Close()
			vsched.Settle()
			endConnection(false)
		case 9:
			// MQTT 5 3.14.2.2.2: a non-zero Session Expiry Interval in DISCONNECT after a CONNECT
			// with expiry 0 is a protocol error; such a DISCONNECT does not suppress the will
			if wv.version != refmqtt.V5 || sessExp != 0 {
				valid = false
				break
			}
			x.Send(&refmqtt.Packet{Type: refmqtt.DISCONNECT, Props: &refmqtt.Props{SessionExpiry: harness.U32(30)}})
			vsched.Settle()
			x.Close()
			vsched.Settle()
			endConnection(false)
		case 2:
			x.Close()
			vsched.Settle()
			endConnection(false)
		case 3:
			x.SendRaw([]byte{0x36, 0x00}) // PUBLISH with QoS 3: malformed
			vsched.Settle()
			if !x.ClosedByBroker() {
				c.Violate("ending", "malformed-packet-not-closed", cas(), "connection closed", "open")
				return
			}
			endConnection(false)
		case 4:
			vsched.Advance(4 * time.Second)
			if !x.ClosedByBroker() {
				c.Violate("ending", "keepalive-timeout-not-enforced", cas(), "connection closed after 1.5 x keep alive", "open")
				return
			}
			now += 3 * int64(time.Second) // the deadline fired at 3s
			endConnection(false)
			now += int64(time.Second)
		case 5, 6:
			clean := ending == 6
			y := connect("X2", clean, false, 0)
			if y == nil {
				return
			}
			vsched.Settle()
			if clean {
				endConnection(true)
				sessionAlive = true // the new (clean) session
				sessionEnds = -1
			} else {
				// the session continues with the new connection: a delayed will is cancelled,
				// an undelayed one is published when the old connection ends
				if armed && wait == 0 {
					published++
				}
				armed = false
			}
			x = y
		case 7:
			cl := w.Srv.ClientService().GetClient("x")
			if cl == nil {
				c.Fatal("C08: client x unknown")
				return
			}
			cl.Close()
			vsched.Settle()
			endConnection(false)
		case 8:
			w.Srv.ClientService().TerminateSession("x")
			vsched.Settle()
			endConnection(true)
		}
		if !valid {
			c.Count("executions", -1)
			return
		}
		check := func(step string) bool {
			var got []*refmqtt.Packet
			for _, r := range watch.Recv() {
				if r.P != nil && r.P.Type == refmqtt.PUBLISH {
					got = append(got, r.P)
					if r.P.QoS == 1 {
						watch.Send(&refmqtt.Packet{Type: refmqtt.PUBACK, PacketID: r.P.PacketID})
					}
				}
			}
			vsched.Settle()
			total := c08Total(watch)
			if total != published {
				cl := fmt.Sprintf("published-%d-want-%d", total, published)
				if total < published {
					cl += "-after-" + c08Endings[ending]
				} else if step != "ending" {
					cl += "-at-" + step
				} else {
					cl += "-after-" + c08Endings[ending]
				}
				c.Violate("will-count", cl, cas(), fmt.Sprint(published), fmt.Sprint(total))
				return false
			}
			for _, p := range got {
				wq := wv.qos
				if wq > 1 {
					wq = 1
				}
				if p.Topic != "w" || string(p.Payload) != "bye" || p.QoS != wq {
					c.Violate("will-content", "topic-payload-qos", cas(), fmt.Sprintf("w bye q%d", wq), p.String())
					return false
				}
				if p.Retain != wv.retain {
					c.Violate("will-content", fmt.Sprintf("retain-flag-%v-want-%v", p.Retain, wv.retain), cas(), fmt.Sprint(wv.retain), fmt.Sprint(p.Retain))
					return false
				}
				if wv.props && wv.version == refmqtt.V5 && !propsComplete(p.Props) {
					c.Violate("will-content", "properties-lost", cas(), "payload format, content type, response topic, correlation data, user property", fmt.Sprintf("%+v", p.Props))
					return false
				}
			}
			return true
		}
		if !check("ending") {
			return
		}
		nrec := 0
		for _, f := range follow {
			switch f {
			case 0, 1, 2:
				d := []time.Duration{4 * time.Second, 6 * time.Second, 21 * time.Second}[f]
				vsched.Advance(d)
				now += int64(d)
				if armed && due >= 0 && now >= due {
					published++
					armed = false
				}
				if sessionAlive && sessionEnds >= 0 && now > sessionEnds {
					sessionAlive = false
				}
			case 3, 4, 5:
				clean := f == 4
				otherVersion = f == 5
				nrec++
				if due >= 0 && armed && absI64(now-due) <= int64(time.Second) {
					return // boundary second: tolerated either way, stop here
				}
				y := connect(fmt.Sprintf("Y%d", nrec), clean, false, 0)
				if y == nil {
					return
				}
				vsched.Settle()
				if armed {
					if clean || !sessionAlive {
						// the old session is discarded now: the will is due at once
						published++
					}
					armed = false
				}
				sessionAlive, sessionEnds = true, -1
				x = y
			}
			if !check(c08Follow[f]) {
				return
			}
		}
		swallowedPanic(c, w, cas)
	})
}

// c08Total counts all will publishes the watcher has ever received.
func c08Total(watch *harness.Client) int {
	n := 0
	for _, r := range watch.Inbox {
		if r.P != nil && r.P.Type == refmqtt.PUBLISH && r.P.Topic == "w" && !r.P.Dup {
			n++
		}
	}
	return n
}

func runC08(c *explore.Ctx) {
	c.Level = "model_checking"
	c.Rule = "E2 (virtual clock): every will setting (QoS, retain, delay absent/5s, properties, v3.1.1/v5, session expiry absent/3/10 or v3 clean/non-clean) x every way the connection ends (DISCONNECT 0x00, DISCONNECT 0x04, socket close, malformed packet, keep-alive timeout, take-over clean0/clean1, server-side Client.Close, TerminateSession, a DISCONNECT that is itself a protocol error) x every sequence of <=2 follow-ups (advance 4s/6s/21s, reconnect clean0/clean1) on a fresh in-process broker; a reference will machine (armed / due = end + min(delay, session expiry) / cancelled by re-attach / immediate when the session ends) predicts how many copies an independent Retain-As-Published subscriber has received after every step, and their content. E3: the end of the connection (close, DISCONNECT+close, pure take-over) races a CONNECT of the same client id (clean start 0/1), and the delayed-will timer races a re-attaching CONNECT, under every schedule with <=1 (quick) / <=2 (thorough) deviations: the number of copies is the schedule-independent expected one (timer race: at most one); and a PUBLISH+DISCONNECT pair the broker has already read, the PUBLISH held in OnMsgArrived, races a take-over by the same client id: the queued DISCONNECT still suppresses the will in every schedule."
	c.Trusted = []string{"vsched virtual clock and memconn deadlines", "refmqtt codec"}
	c.Assumptions = []string{"a reconnect within 1s of the due instant is not judged", "Stop() as a way to end the connection is covered by C15, not here"}
	if rc := replayCase(c); rc != nil {
		if c08RaceReplay(c, rc) {
			return
		}
		c08Run(c, c08Will{byte(rc["v"].(float64)), byte(rc["q"].(float64)), rc["r"].(bool), int64(rc["d"].(float64)), rc["p"].(bool), int64(rc["e"].(float64))}, int(rc["ending_i"].(float64)), intsOf(rc["follow_i"]))
		return
	}
	c08RacePhase(c)
	vars := c08Variants(c.Quick())
	var follows [][]int
	follows = append(follows, nil)
	for a := 0; a < len(c08Follow); a++ {
		follows = append(follows, []int{a})
		for b := 0; b < len(c08Follow); b++ {
			follows = append(follows, []int{a, b})
			if !c.Quick() {
				for d := 0; d < len(c08Follow); d++ {
					follows = append(follows, []int{a, b, d})
				}
			}
		}
	}
	c.Extra["will_variants"] = len(vars)
	c.Extra["endings"] = c08Endings
	c.Extra["follow_up_sequences"] = len(follows)
	c.Units("wills", len(vars)*len(c08Endings), func(u int) {
		wv := vars[u/len(c08Endings)]
		e := u % len(c08Endings)
		for _, f := range follows {
			c08Run(c, wv, e, f)
			c.Count("transitions", int64(1+len(f)))
		}
		c.Count("states", int64(len(follows)))
		if u%41 == 0 {
			c.Sample(map[string]any{"will": wv.String(), "ending": c08Endings[e], "follow_up_sequences": len(follows)})
		}
	})
	c.Count("traces_validated_against_impl", c.Get("executions"))
}
