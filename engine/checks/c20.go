package checks

import (
	"context"
	"fmt"
	"github.com/DrmagicE/gmqtt/pkg/packets"
	"reflect"
	"sort"
	"strings"
	"time"

	"github.com/DrmagicE/gmqtt/server"
	"github.com/DrmagicE/gmqtt/zzverif/vsched"

	"verif/explore"
	"verif/harness"
	"verif/refmqtt"
)

func init() { register("C20", runC20) }

var c20Events = []string{
	"A.connect(v5,clean0,expiry100)", "B.connect(v3,clean1)", "A.subscribe(t,q1)", "B.subscribe(t,q0)",
	"B.publish(q0)", "B.publish(q1)", "A.publish(q2)+PUBREL", "A.ack-oldest", "A.pingreq", "A.DISCONNECT", "A.abrupt-close", "B.close",
	"advance(21s)", "TerminateSession(A)", "A.takeover(clean0)", "A.unsubscribe(t)", "A.connect(v5,clean1,expiry100)", "A.duplicate-PUBACK",
	"X.tcp-open-close", "X.first-packet-PINGREQ", "X.CONNECT(v5,auth-method-without-OnAuth)-refused",
	"A.publish(q0, topic alias above the advertised maximum): broker answers DISCONNECT 0x94",
	"A.AUTH(re-authenticate, accepted by OnReAuth): broker answers AUTH", "A.connect(v5,clean0,expiry100,authentication method m accepted by OnEnhancedAuth)",
	"B.publish(q0, 20000-byte payload: three-byte remaining length)",
}

// c20AuthAlpha: the alphabet of the tree with authentication hooks installed (AUTH packets).
var c20AuthAlpha = []int{23, 22, 8, 9, 10, 14, 2, 5, 1}

// c20FailedAlpha: the sub-alphabet of the tree about connections that never attach.
var c20FailedAlpha = []int{18, 19, 20, 1, 11, 0, 9, 12, 21, 2, 5, 24}

var c20TypeField = map[byte]string{1: "Connect", 2: "Connack", 3: "Publish", 4: "Puback", 5: "Pubrec", 6: "Pubrel", 7: "Pubcomp", 8: "Subscribe", 9: "Suback", 10: "Unsubscribe", 11: "Unsuback", 12: "Pingreq", 13: "Pingresp", 14: "Disconnect", 15: "Auth"}

// flatten turns every uint64 leaf of a stats struct into name -> value.
func flatten(prefix string, v reflect.Value, out map[string]uint64) {
	switch v.Kind() {
	case reflect.Struct:
		for i := 0; i < v.NumField(); i++ {
			flatten(prefix+"."+v.Type().Field(i).Name, v.Field(i), out)
		}
	case reflect.Uint64:
		out[prefix] = v.Uint()
	}
}

// c20Truth is the harness's own account of what happened.
type c20Truth struct {
	m map[string]uint64
}

func (t *c20Truth) add(k string, d uint64) { t.m[k] += d }
func (t *c20Truth) sub(k string, d uint64) { t.m[k] -= d }
func (t *c20Truth) set(k string, v uint64) { t.m[k] = v }
func (t *c20Truth) clearPrefix(p string) {
	for k := range t.m {
		if strings.HasPrefix(k, p) {
			delete(t.m, k)
		}
	}
}

// packet accounts one packet for scope ("global" or "client:<id>").
func (t *c20Truth) packet(scope string, received bool, ptype byte, n int) {
	dirC, dirB := "SentTotal", "BytesSent"
	if received {
		dirC, dirB = "ReceivedTotal", "BytesReceived"
	}
	f := c20TypeField[ptype]
	t.add(scope+".PacketStats."+dirC+"."+f, 1)
	t.add(scope+".PacketStats."+dirC+".Total", 1)
	t.add(scope+".PacketStats."+dirB+"."+f, uint64(n))
	t.add(scope+".PacketStats."+dirB+".Total", uint64(n))
}

type c20Cfg struct {
	maxQueued   int
	maxInflight uint16
	auth        bool // OnEnhancedAuth / OnReAuth hooks installed (both accept at once)
}

func c20Run(c *explore.Ctx, cf c20Cfg, seq []int) int {
	cas := func() any {
		names := make([]string, len(seq))
		for i, e := range seq {
			names[i] = c20Events[e]
		}
		return map[string]any{"max_queued": cf.maxQueued, "max_inflight": cf.maxInflight, "auth_hooks": cf.auth, "seq": append([]int{}, seq...), "events": names}
	}
	applied := 0
	execBody(c, "C20", cas, func() {
		cfg := harness.DefaultConfig()
		cfg.MQTT.MaxQueuedMsg, cfg.MQTT.MaxInflight = cf.maxQueued, cf.maxInflight
		hooks := server.Hooks{}
		if cf.auth {
			hooks.OnEnhancedAuth = func(ctx context.Context, client server.Client, req *server.ConnectRequest) (*server.EnhancedAuthResponse, error) {
				return &server.EnhancedAuthResponse{}, nil
			}
			hooks.OnReAuth = func(ctx context.Context, client server.Client, auth *packets.Auth) (*server.AuthResponse, error) {
				return &server.AuthResponse{}, nil
			}
		}
		w := harness.NewWorld(cfg, hooks)
		if w.InitErr != nil {
			c.Fatal("init: %v", w.InitErr)
			return
		}
		T := &c20Truth{m: map[string]uint64{}}
		type side struct {
			cl       *harness.Client
			online   bool
			exists   bool // session exists
			sub      bool
			accIn    int // Inbox index accounted so far
			pid      uint16
			queue    []c20Q // model of the session queue (A only matters)
			ackedIDs []uint16
		}
		var A, B side
		account := func(s *side, id string) {
			if s.cl == nil {
				return
			}
			s.cl.Pump()
			for ; s.accIn < len(s.cl.Inbox); s.accIn++ {
				r := s.cl.Inbox[s.accIn]
				if r.P == nil {
					continue
				}
				T.packet("global", false, r.P.Type, r.Len)
				T.packet("client:"+id, false, r.P.Type, r.Len)
				if r.P.Type == refmqtt.PUBLISH {
					T.add(fmt.Sprintf("global.MessageStats.Qos%d.SentTotal", r.P.QoS), 1)
					T.add(fmt.Sprintf("client:%s.MessageStats.Qos%d.SentTotal", id, r.P.QoS), 1)
				}
			}
		}
		send := func(s *side, id string, p *refmqtt.Packet) {
			if p.Version == 0 {
				p.Version = s.cl.Version
			}
			b := refmqtt.Encode(p)
			s.cl.SendRaw(b)
			T.packet("global", true, p.Type, len(b))
			T.packet("client:"+id, true, p.Type, len(b))
			if p.Type == refmqtt.PUBLISH {
				T.add(fmt.Sprintf("global.MessageStats.Qos%d.ReceivedTotal", p.QoS), 1)
				T.add(fmt.Sprintf("client:%s.MessageStats.Qos%d.ReceivedTotal", id, p.QoS), 1)
			}
		}
		sessionEnds := func(s *side, id string, reason string) {
			if !s.exists {
				return
			}
			s.exists, s.sub, s.queue = false, false, nil
			T.add("global.ConnectionStats.SessionTerminated."+reason, 1)
			T.clearPrefix("client:" + id + ".")
		}
		authMethod := false
		connect := func(s *side, id string, ver byte, clean bool, name string) bool {
			old := s.cl
			wasOnline := s.online
			s.cl = w.Dial(name)
			s.cl.Version = ver
			s.accIn = 0
			o := harness.ConnectOpts{ClientID: id, Clean: clean, Version: ver}
			if ver == refmqtt.V5 {
				o.Props = &refmqtt.Props{SessionExpiry: harness.U32(100)}
				if authMethod {
					o.Props.AuthMethod = harness.Str("m")
				}
			}
			_ = old
			send(s, id, harness.ConnectPacket(o))
			vsched.Settle()
			s.cl.Pump()
			if len(s.cl.Inbox) == 0 || s.cl.Inbox[0].P == nil || s.cl.Inbox[0].P.Type != refmqtt.CONNACK || s.cl.Inbox[0].P.Code != 0 {
				c.Violate("connect", "refused", cas(), "CONNACK", fmt.Sprint(len(s.cl.Inbox)))
				return false
			}
			sp := s.cl.Inbox[0].P.SessionPresent
			T.add("global.ConnectionStats.ConnectedTotal", 1)
			if wasOnline {
				T.add("global.ConnectionStats.DisconnectedTotal", 1)
			}
			if !sp {
				if s.exists {
					sessionEnds(s, id, "TakenOver")
					// CONNECT of the new session was accounted before the old stats were cleared: redo
					b := refmqtt.Encode(harness.ConnectPacket(o))
					T.packet("client:"+id, true, refmqtt.CONNECT, len(b))
				}
				T.add("global.ConnectionStats.SessionCreatedTotal", 1)
				s.exists = true
			}
			s.online = true
			return true
		}
		online := func(s *side) bool { return s.online }
		npub := 0
		for i, e := range seq {
			ok := true
			switch e {
			case 0, 14, 16, 23:
				if (e != 14) == A.online || (e == 23) != cf.auth || (cf.auth && e != 23 && e != 14) {
					ok = false
					break
				}
				authMethod = cf.auth
				old := A.cl
				oldAcc := A.accIn
				if !connect(&A, "a", refmqtt.V5, e == 16, fmt.Sprintf("A%d", i)) {
					return
				}
				A.ackedIDs = nil
				if e == 14 {
					// the displaced socket got a DISCONNECT(0x8E) that counts for client a
					tmp := side{cl: old, accIn: oldAcc}
					account(&tmp, "a")
				}
			case 1:
				if B.online {
					ok = false
					break
				}
				if !connect(&B, "b", refmqtt.V311, true, fmt.Sprintf("B%d", i)) {
					return
				}
			case 2:
				if !online(&A) {
					ok = false
					break
				}
				A.pid++
				send(&A, "a", &refmqtt.Packet{Type: refmqtt.SUBSCRIBE, PacketID: A.pid + 100, Subs: []refmqtt.Sub{{Filter: "t", QoS: 1}}})
				A.sub = true
			case 3:
				if !online(&B) {
					ok = false
					break
				}
				send(&B, "b", &refmqtt.Packet{Type: refmqtt.SUBSCRIBE, PacketID: 77, Subs: []refmqtt.Sub{{Filter: "t", QoS: 0}}})
				B.sub = true
			case 4, 5, 24:
				if !online(&B) {
					ok = false
					break
				}
				npub++
				q := byte(e - 4)
				if e == 24 {
					q = 0
				}
				p := &refmqtt.Packet{Type: refmqtt.PUBLISH, Topic: "t", QoS: q, Payload: []byte(fmt.Sprintf("m%d", npub))}
				if e == 24 {
					p.Payload = []byte(strings.Repeat("L", 20000))
				}
				if q > 0 {
					B.pid++
					p.PacketID = B.pid
				}
				send(&B, "b", p)
				c20Enqueue(T, cf, &A.queue, A.sub && A.exists, A.online, q, 1)
			case 6:
				if !online(&A) {
					ok = false
					break
				}
				npub++
				A.pid++
				send(&A, "a", &refmqtt.Packet{Type: refmqtt.PUBLISH, Topic: "t", QoS: 2, PacketID: A.pid, Payload: []byte(fmt.Sprintf("m%d", npub))})
				c20Enqueue(T, cf, &A.queue, A.sub && A.exists, A.online, 2, 1)
				vsched.Settle()
				send(&A, "a", &refmqtt.Packet{Type: refmqtt.PUBREL, PacketID: A.pid})
			case 7:
				// ack the oldest unacknowledged QoS1 delivery A has received
				if !online(&A) {
					ok = false
					break
				}
				A.cl.Pump()
				var target *refmqtt.Packet
				acked := map[uint16]int{}
				for _, id := range A.ackedIDs {
					acked[id]++
				}
				for _, r := range A.cl.Inbox {
					if r.P != nil && r.P.Type == refmqtt.PUBLISH && r.P.QoS == 1 {
						if acked[r.P.PacketID] > 0 {
							acked[r.P.PacketID]--
							continue
						}
						target = r.P
						break
					}
				}
				if target == nil {
					ok = false
					break
				}
				A.ackedIDs = append(A.ackedIDs, target.PacketID)
				send(&A, "a", &refmqtt.Packet{Type: refmqtt.PUBACK, PacketID: target.PacketID})
				c20Ack(&A.queue)
			case 17:
				if !online(&A) || len(A.ackedIDs) == 0 {
					ok = false
					break
				}
				A.cl.Pump()
				dupID := A.ackedIDs[len(A.ackedIDs)-1]
				// the id must not have been reused for a newer delivery, or this would be a real ack
				seen := 0
				for _, r := range A.cl.Inbox {
					if r.P != nil && r.P.Type == refmqtt.PUBLISH && r.P.QoS == 1 && r.P.PacketID == dupID {
						seen++
					}
				}
				acks := 0
				for _, id := range A.ackedIDs {
					if id == dupID {
						acks++
					}
				}
				if seen > acks {
					ok = false
					break
				}
				send(&A, "a", &refmqtt.Packet{Type: refmqtt.PUBACK, PacketID: dupID})
			case 8:
				if !online(&A) {
					ok = false
					break
				}
				send(&A, "a", &refmqtt.Packet{Type: refmqtt.PINGREQ})
			case 9, 10:
				if !online(&A) {
					ok = false
					break
				}
				if e == 9 {
					send(&A, "a", &refmqtt.Packet{Type: refmqtt.DISCONNECT})
					vsched.Settle()
				}
				account(&A, "a")
				A.cl.Close()
				A.online = false
				A.ackedIDs = nil
				T.add("global.ConnectionStats.DisconnectedTotal", 1)
				c20Offline(&A.queue)
			case 21:
				// a broker-originated DISCONNECT: the offending PUBLISH is decoded and counted as
				// received, the DISCONNECT(0x94) the broker writes is counted as sent
				if !online(&A) {
					ok = false
					break
				}
				send(&A, "a", &refmqtt.Packet{Type: refmqtt.PUBLISH, Topic: "other", QoS: 0, Payload: []byte("bad"), Props: &refmqtt.Props{TopicAlias: harness.U16(60000)}})
				vsched.Settle()
				account(&A, "a")
				A.cl.Close()
				A.online = false
				A.ackedIDs = nil
				T.add("global.ConnectionStats.DisconnectedTotal", 1)
				c20Offline(&A.queue)
			case 22:
				if !online(&A) || !cf.auth {
					ok = false
					break
				}
				// (the broker compares the connection's method with the packet's Authentication Data)
				send(&A, "a", &refmqtt.Packet{Type: refmqtt.AUTH, Code: 0x19, Props: &refmqtt.Props{AuthMethod: harness.Str("m"), AuthData: []byte("m"), HasAuthData: true}})
			case 11:
				if !online(&B) {
					ok = false
					break
				}
				account(&B, "b")
				B.cl.Close()
				B.online = false
				T.add("global.ConnectionStats.DisconnectedTotal", 1)
				vsched.Settle()
				sessionEnds(&B, "b", "Normal")
			case 12:
				vsched.Advance(21 * time.Second)
			case 13:
				if !A.exists {
					ok = false
					break
				}
				if A.online {
					account(&A, "a")
					T.add("global.ConnectionStats.DisconnectedTotal", 1)
				}
				w.Srv.ClientService().TerminateSession("a")
				vsched.Settle()
				A.online = false
				A.ackedIDs = nil
				sessionEnds(&A, "a", "Normal")
			case 18, 19, 20:
				x := w.Dial(fmt.Sprintf("X%d", i))
				x.Version = refmqtt.V311
				switch e {
				case 19:
					x.Send(&refmqtt.Packet{Type: refmqtt.PINGREQ})
				case 20:
					x.Version = refmqtt.V5
					x.Send(harness.ConnectPacket(harness.ConnectOpts{ClientID: "x", Clean: true, Version: refmqtt.V5, Props: &refmqtt.Props{AuthMethod: harness.Str("none")}}))
				}
				vsched.Settle()
				x.Pump()
				if e != 18 && (len(x.Inbox) != 1 || x.Inbox[0].P == nil || x.Inbox[0].P.Type != refmqtt.CONNACK || x.Inbox[0].P.Code == 0) {
					c.Violate("connect", "unattachable-connection-not-refused", cas(), "one failing CONNACK", fmt.Sprint(len(x.Inbox)))
					return
				}
				x.Close()
				vsched.Settle()
				// everything exchanged on it counts globally, for no client
				for _, t := range x.Sent {
					T.packet("global", true, t.Type, t.Len)
				}
				for _, r := range x.Inbox {
					T.packet("global", false, r.P.Type, r.Len)
				}
			case 15:
				if !online(&A) {
					ok = false
					break
				}
				send(&A, "a", &refmqtt.Packet{Type: refmqtt.UNSUBSCRIBE, PacketID: 99, Filters: []string{"t"}})
				A.sub = false
			}
			if !ok {
				return
			}
			vsched.Settle()
			applied = i + 1
			// deliveries to A move queue entries to in-flight
			if A.online {
				c20Deliver(cf, &A.queue, A.cl)
			}
			if A.online {
				account(&A, "a")
			}
			if B.online {
				account(&B, "b")
			}
			// gauges
			act, inact := uint64(0), uint64(0)
			for _, s := range []*side{&A, &B} {
				if s.exists && s.online {
					act++
				} else if s.exists {
					inact++
				}
			}
			T.set("global.ConnectionStats.ActiveCurrent", act)
			T.set("global.ConnectionStats.InactiveCurrent", inact)
			if A.exists {
				ql, il := c20Gauges(A.queue)
				T.set("client:a.MessageStats.QueuedCurrent", ql)
				T.set("client:a.MessageStats.InflightCurrent", il)
				T.set("global.MessageStats.QueuedCurrent", ql)
				T.set("global.MessageStats.InflightCurrent", il)
			} else {
				T.set("global.MessageStats.QueuedCurrent", 0)
				T.set("global.MessageStats.InflightCurrent", 0)
			}
			// compare
			got := map[string]uint64{}
			flatten("global", reflect.ValueOf(w.Srv.StatsManager().GetGlobalStats()), got)
			for _, id := range []string{"a", "b"} {
				if cs, exist := w.Srv.StatsManager().GetClientStats(id); exist {
					flatten("client:"+id, reflect.ValueOf(cs), got)
				}
			}
			var keys []string
			for k := range got {
				keys = append(keys, k)
			}
			for k := range T.m {
				if _, ok := got[k]; !ok && !strings.HasPrefix(k, "client:") {
					keys = append(keys, k)
				}
			}
			sort.Strings(keys)
			bad := false
			for _, k := range keys {
				if strings.Contains(k, "SubscriptionStats") {
					continue
				}
				if got[k] != T.m[k] {
					kk := strings.Replace(strings.Replace(k, "client:a", "client", 1), "client:b", "client", 1)
					cl := kk
					switch {
					case got[k] > 1<<62:
						cl += ":wrapped-below-zero"
					case got[k] > T.m[k]:
						cl += ":too-high"
					default:
						cl += ":too-low"
					}
					c.Violate("counter", cl, cas(), fmt.Sprintf("%s = %d", k, T.m[k]), fmt.Sprintf("%d (after %s)", got[k], c20Events[e]))
					bad = true
				}
			}
			// dropped totals: global == sum of causes reported through the hook
			if bad {
				return
			}
		}
		swallowedPanic(c, w, cas)
	})
	return applied
}

// ---- model of A's session queue (for the gauges)

type c20Q struct {
	qos      byte
	inflight bool
	since    int64 // virtual time at which the entry became in flight
}

// c20Enqueue: n copies of a message published at pubQos reach A's queue (sub QoS 1).
func c20Enqueue(T *c20Truth, cf c20Cfg, q *[]c20Q, matches, online bool, pubQos byte, n int) {
	if !matches {
		return
	}
	qos := pubQos
	if qos > 1 {
		qos = 1
	}
	if len(*q) >= cf.maxQueued {
		// the ladder decides the victim; the gauge stays the same, a drop is counted:
		// an expired in-flight entry (30s default inflight_expiry), queued QoS0, oldest
		// queued, or the newcomer
		victim := -1
		for i, e := range *q {
			if e.inflight && vsched.Now()-e.since > int64(30*time.Second) {
				victim = i
				break
			}
		}
		dropped := func(q byte, cause string) {
			T.add(fmt.Sprintf("global.MessageStats.Qos%d.DroppedTotal.%s", q, cause), 1)
			T.add(fmt.Sprintf("client:a.MessageStats.Qos%d.DroppedTotal.%s", q, cause), 1)
		}
		if victim >= 0 {
			dropped((*q)[victim].qos, "InflightExpired")
			*q = append(append([]c20Q{}, (*q)[:victim]...), (*q)[victim+1:]...)
			*q = append(*q, c20Q{qos: qos})
			return
		}
		for i, e := range *q {
			if !e.inflight && e.qos == 0 {
				victim = i
				break
			}
		}
		if victim < 0 && qos != 0 {
			for i, e := range *q {
				if !e.inflight {
					victim = i
					break
				}
			}
		}
		if victim >= 0 {
			dropped((*q)[victim].qos, "QueueFull")
			*q = append(append([]c20Q{}, (*q)[:victim]...), (*q)[victim+1:]...)
			*q = append(*q, c20Q{qos: qos})
		} else {
			dropped(qos, "QueueFull") // the newcomer
		}
		return
	}
	*q = append(*q, c20Q{qos: qos})
}

// c20Deliver: what the broker has written to A moves entries to in-flight (QoS1) or out
// of the queue (QoS0), bounded by the in-flight window.
func c20Deliver(cf c20Cfg, q *[]c20Q, cl *harness.Client) {
	infl := 0
	for _, e := range *q {
		if e.inflight {
			infl++
		}
	}
	var out []c20Q
	for _, e := range *q {
		switch {
		case e.inflight:
			out = append(out, e)
		case e.qos == 0 && infl < int(cf.maxInflight):
			// sent and gone (QoS0 needs no id but is read in the same batches)
		case e.qos == 0:
			out = append(out, e)
		case infl < int(cf.maxInflight):
			e.inflight = true
			e.since = vsched.Now()
			infl++
			out = append(out, e)
		default:
			out = append(out, e)
		}
	}
	*q = out
}

func c20Ack(q *[]c20Q) {
	for i, e := range *q {
		if e.inflight {
			*q = append(append([]c20Q{}, (*q)[:i]...), (*q)[i+1:]...)
			return
		}
	}
}

func c20Offline(q *[]c20Q) {}

func c20Gauges(q []c20Q) (queued, inflight uint64) {
	for _, e := range q {
		queued++
		if e.inflight {
			inflight++
		}
	}
	return
}

func runC20(c *explore.Ctx) {
	c.Level = "model_checking"
	c.Rule = "E2: every sequence of the 19-event alphabet (a protocol error answered by a broker-originated DISCONNECT, connect v5 persistent / v3 clean, subscribe, publish QoS0/1/2 with PUBREL, ack, PINGREQ, DISCONNECT, abrupt close, clock advance, TerminateSession, take-over, unsubscribe) over two clients up to the depth, plus a tree (depth-1) over connections that never attach (TCP open/close, first packet not CONNECT, CONNECT refused) mixed with ordinary connects and closes, plus a tree with authentication hooks installed (CONNECT with an authentication method, re-authentication: AUTH packets in both directions), for two broker configurations (default; max_queued 2 / max_inflight 1), on a fresh in-process broker; at every quiescent point every uint64 leaf of GetGlobalStats()/GetClientStats() (packets and bytes per type and direction, per-QoS messages received/sent, queued and in-flight gauges, connection/session counters and gauges) is compared with the harness's own packet log (wire lengths) and session/queue model. E3: the session sweeper's tick races the reconnect of an expired session (two expired sessions, both start orders): connection and session counters equal what the CONNACK says happened, no gauge wraps."
	c.Trusted = []string{"vsched default schedule", "refmqtt (packet lengths are the encoded lengths actually exchanged)"}
	c.Assumptions = []string{"per-client statistics restart when the session is terminated (the broker deletes them); global counters keep the traffic of terminated sessions", "dropped-message counters are checked by C10/C12/C13 through the drop hook, not here"}
	if rc := replayCase(c); rc != nil {
		if concReplay(c, rc, "C20") {
			return
		}
		c20Run(c, c20Cfg{int(rc["max_queued"].(float64)), uint16(rc["max_inflight"].(float64)), rc["auth_hooks"] == true}, intsOf(rc["seq"]))
		return
	}
	depth := 4
	if !c.Quick() {
		depth = 5
	}
	c.Extra["depth"] = depth
	concPubSubPhase(c, "C20")
	c20Sweeper(c)
	// directed non-initial state: A subscribed and offline, B online
	for pi, prefix := range [][]int{{0, 2, 10, 1}, {0, 2, 1, 5}} {
		prefix := prefix
		for _, cf := range []c20Cfg{{1000, 100, false}, {2, 1, false}} {
			cf := cf
			treeUnits(c, fmt.Sprintf("tree-directed%d-q%d-i%d", pi, cf.maxQueued, cf.maxInflight), c20MainN, depth-1, func(seq []int) int {
				full := append(append([]int{}, prefix...), seq...)
				n := c20Run(c, cf, full) - len(prefix)
				if n < 0 {
					c.Fatal("C20: directed prefix invalid")
					return 0
				}
				return n
			})
		}
	}
	treeUnits(c, "tree-failed-connections", len(c20FailedAlpha), depth-1, func(seq []int) int {
		full := make([]int, len(seq))
		for i, e := range seq {
			full[i] = c20FailedAlpha[e]
		}
		return c20Run(c, c20Cfg{1000, 100, false}, full)
	})
	treeUnits(c, "tree-auth-packets", len(c20AuthAlpha), depth, func(seq []int) int {
		full := make([]int, len(seq))
		for i, e := range seq {
			full[i] = c20AuthAlpha[e]
		}
		return c20Run(c, c20Cfg{1000, 100, true}, full)
	})
	for _, cf := range []c20Cfg{{1000, 100, false}, {2, 1, false}} {
		cf := cf
		treeUnits(c, fmt.Sprintf("tree-q%d-i%d", cf.maxQueued, cf.maxInflight), c20MainN, depth, func(seq []int) int {
			n := c20Run(c, cf, seq)
			if n == len(seq) && c.Get("executions")%2500 == 0 {
				names := make([]string, len(seq))
				for i, e := range seq {
					names[i] = c20Events[e]
				}
				c.Sample(map[string]any{"max_queued": cf.maxQueued, "events": names})
			}
			return n
		})
	}
}

// c20MainN: the first c20MainN events form the alphabet of the main trees; the later
// ones only occur in the failed-connection tree.
const c20MainN = 18
