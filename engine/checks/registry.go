// Package checks holds one file per property.
package checks

import "verif/explore"

var Registry = map[string]func(*explore.Ctx){}

func register(id string, fn func(*explore.Ctx)) { Registry[id] = fn }
