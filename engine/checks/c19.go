package checks

import (
	"context"
	"crypto/md5"
	"crypto/sha256"
	"encoding/hex"
	"fmt"
	"os"
	"path/filepath"
	"sort"
	"strings"

	"golang.org/x/crypto/bcrypt"
	"gopkg.in/yaml.v2"

	"github.com/DrmagicE/gmqtt"
	"github.com/DrmagicE/gmqtt/config"
	"github.com/DrmagicE/gmqtt/plugin/auth"
	"github.com/DrmagicE/gmqtt/server"
	"github.com/DrmagicE/gmqtt/zzverif/vsched"

	"verif/explore"
	"verif/harness"
	"verif/refmqtt"
)

func init() { register("C19", runC19) }

var c19Hashes = []string{auth.Plain, auth.MD5, auth.SHA256, auth.Bcrypt}

func c19Hash(h, pw string) string {
	switch h {
	case auth.Plain:
		return pw
	case auth.MD5:
		s := md5.Sum([]byte(pw))
		return hex.EncodeToString(s[:])
	case auth.SHA256:
		s := sha256.Sum256([]byte(pw))
		return hex.EncodeToString(s[:])
	case auth.Bcrypt:
		b, _ := bcrypt.GenerateFromPassword([]byte(pw), bcrypt.MinCost)
		return string(b)
	}
	return ""
}

func c19Matches(h, stored, pw string) bool {
	if h == auth.Bcrypt {
		return bcrypt.CompareHashAndPassword([]byte(stored), []byte(pw)) == nil
	}
	return c19Hash(h, pw) == stored
}

var c19DirSeq int

// c19Dir creates a scratch directory with a password file; returns (dir, cleanup).
func c19Dir(c *explore.Ctx, hash string, accounts map[string]string) (string, func()) {
	c19DirSeq++
	base := filepath.Join(c.Verif, ".work", "c19")
	os.MkdirAll(base, 0o755)
	dir, err := os.MkdirTemp(base, fmt.Sprintf("w%d-", os.Getpid()))
	if err != nil {
		c.Fatal("C19: mkdtemp: %v", err)
		return "", func() {}
	}
	type acct struct {
		Username string `yaml:"username"`
		Password string `yaml:"password"`
	}
	var list []acct
	var names []string
	for u := range accounts {
		names = append(names, u)
	}
	sort.Strings(names)
	for _, u := range names {
		list = append(list, acct{u, c19Hash(hash, accounts[u])})
	}
	b, _ := yaml.Marshal(list)
	os.WriteFile(filepath.Join(dir, "pw.yml"), b, 0o644)
	return dir, func() { os.RemoveAll(dir) }
}

func c19ReadFile(dir string) (map[string]string, error) {
	b, err := os.ReadFile(filepath.Join(dir, "pw.yml"))
	if err != nil {
		return nil, err
	}
	var list []struct {
		Username string `yaml:"username"`
		Password string `yaml:"password"`
	}
	if err := yaml.Unmarshal(b, &list); err != nil {
		return nil, err
	}
	m := map[string]string{}
	for _, a := range list {
		m[a.Username] = a.Password
	}
	return m, nil
}

func c19Boot(c *explore.Ctx, dir, hash string, relative bool) *harness.World {
	cfg := harness.DefaultConfig()
	cfg.PluginOrder = []string{"auth"}
	pf := filepath.Join(dir, "pw.yml")
	if relative {
		pf = "pw.yml"
		cfg.ConfigDir = dir
	}
	cfg.Plugins = config.DefaultConfig().Plugins
	cfg.Plugins["auth"] = &auth.Config{PasswordFile: pf, Hash: hash}
	w := harness.NewWorld(cfg, server.Hooks{})
	return w
}

// ---- (1) CONNECT space

type c19Conn struct {
	version  byte
	user     *string
	pass     []byte
	hasPass  bool
	authMeth *string
	authData bool
}

func (k c19Conn) String() string {
	u, p, m := "<absent>", "<absent>", "<none>"
	if k.user != nil {
		u = fmt.Sprintf("%q", trimTo(*k.user, 12))
	}
	if k.hasPass {
		p = fmt.Sprintf("%q", trimTo(string(k.pass), 12))
	}
	if k.authMeth != nil {
		m = fmt.Sprintf("%q data=%v", *k.authMeth, k.authData)
	}
	return fmt.Sprintf("v%d user=%s pass=%s authmethod=%s", k.version, u, p, m)
}

func c19ConnectSpace(c *explore.Ctx, hash string) {
	accounts := map[string]string{"u1": "p1", "u2": "p2"}
	long := strings.Repeat("L", 65535)
	users := []*string{nil, harness.Str(""), harness.Str("u1"), harness.Str("U1"), harness.Str("u1 "), harness.Str("u2"), harness.Str("nobody"), &long}
	type pw struct {
		b   []byte
		has bool
	}
	pws := []pw{{nil, false}, {[]byte(""), true}, {[]byte("p1"), true}, {[]byte("p1x"), true}, {[]byte("p2"), true}, {[]byte(c19Hash(hash, "p1")), true}, {[]byte(long), true}}
	cas0 := map[string]any{"part": "connect-space", "hash": hash}
	var cur c19Conn
	cas := func() any {
		m := map[string]any{"connect": cur.String()}
		for k, v := range cas0 {
			m[k] = v
		}
		return m
	}
	c.Count("executions", 1)
	dir, cleanup := c19Dir(c, hash, accounts)
	defer cleanup()
	stored, _ := c19ReadFile(dir)
	execBody(c, "C19", cas, func() {
		w := c19Boot(c, dir, hash, false)
		if w.InitErr != nil {
			c.Fatal("C19 init: %v", w.InitErr)
			return
		}
		n := 0
		for _, ver := range []byte{refmqtt.V31, refmqtt.V311, refmqtt.V5} {
			for _, u := range users {
				for _, p := range pws {
					type am struct {
						m    *string
						data bool
					}
					ams := []am{{nil, false}}
					if ver == refmqtt.V5 {
						ams = append(ams, am{harness.Str("scram"), false}, am{harness.Str("scram"), true}, am{harness.Str(""), false})
					}
					for _, a := range ams {
						if ver != refmqtt.V5 && p.has && u == nil {
							continue // not encodable as a well-formed v3 CONNECT
						}
						cur = c19Conn{version: ver, user: u, pass: p.b, hasPass: p.has, authMeth: a.m, authData: a.data}
						n++
						x := w.Dial(fmt.Sprintf("X%d", n))
						o := harness.ConnectOpts{ClientID: fmt.Sprintf("x%d", n), Clean: true, Version: ver, Username: u, Password: p.b, HasPassword: p.has}
						if a.m != nil {
							o.Props = &refmqtt.Props{AuthMethod: a.m}
							if a.data {
								o.Props.AuthData, o.Props.HasAuthData = []byte("d"), true
							}
						}
						ack := x.Connect(o)
						c.Count("transitions", 1)
						want := false
						if u != nil && a.m == nil {
							if st, ok := stored[*u]; ok && c19Matches(hash, st, string(p.b)) {
								want = true
							}
						}
						got := ack != nil && ack.Code == 0
						if got != want {
							cl := "valid-credentials-refused"
							if got {
								cl = "accepted-without-valid-credentials"
								switch {
								case a.m != nil && *a.m == "":
									cl += "-empty-authentication-method"
								case a.m != nil:
									cl += "-with-authentication-method"
								case u == nil:
									cl += "-no-username"
								}
							}
							c.Violate("connect-iff-credentials", cl, cas(), fmt.Sprint(want), fmt.Sprint(ack))
							continue
						}
						if !want {
							if ack != nil {
								ok := ack.Code >= 0x80
								if ver != refmqtt.V5 {
									ok = ack.Code == 4 || ack.Code == 5
								}
								if !ok {
									c.Violate("connack-code", fmt.Sprintf("failure-code-0x%02x-v%d", ack.Code, ver), cas(), "v3: 4/5, v5: >=0x80", ack.String())
								}
							}
							if w.Srv.ClientService().GetClient(o.ClientID) != nil {
								c.Violate("no-state-without-auth", "client-registered-after-refused-connect", cas(), "not registered", "registered")
							}
							if s, _ := w.Srv.ClientService().GetSession(o.ClientID); s != nil {
								c.Violate("no-state-without-auth", "session-after-refused-connect", cas(), "none", "exists")
							}
						}
						x.Close()
						vsched.Settle()
					}
				}
			}
		}
		c.Count("states", int64(n))
		swallowedPanic(c, w, cas)
	})
}

// ---- (2) account histories

var c19Ops = []string{"Update(u3,p3)", "Update(u1,q1)", "Delete(u2)", "Delete(u3)", "restart", "restart with the next hash algorithm configured", "Update(u4,' s4 ') (blanks around the password)", "Update(u5,' \\t') (a password of blanks only)", "Update(u10..u34) (25 more accounts)"}

func c19History(c *explore.Ctx, hash string, relative bool, seq []int) int {
	names := func() []string {
		out := make([]string, len(seq))
		for i, e := range seq {
			out[i] = c19Ops[e]
		}
		return out
	}
	cas := func() any {
		return map[string]any{"part": "account-history", "hash": hash, "relative_password_file": relative, "ops": names()}
	}
	ref := map[string]string{"u1": "p1", "u2": "p2"}
	algoOf := map[string]string{"u1": hash, "u2": hash} // algorithm under which each stored hash was written
	cur := hash
	dir, cleanup := c19Dir(c, hash, ref)
	defer cleanup()
	applied := 0
	execBody(c, "C19", cas, func() {
		w := c19Boot(c, dir, hash, relative)
		if w.InitErr != nil {
			c.Fatal("C19 init: %v", w.InitErr)
			return
		}
		n := 0
		probeAll := func(step string) bool {
			for _, pr := range [][2]string{{"u1", "p1"}, {"u1", "q1"}, {"u2", "p2"}, {"u3", "p3"}, {"u4", " s4 "}, {"u4", "s4"}, {"u5", " \t"}, {"u5", ""}, {"u10", "p10"}, {"u34", "p34"}} {
				n++
				x := w.Dial(fmt.Sprintf("P%d", n))
				u := pr[0]
				ack := x.Connect(harness.ConnectOpts{ClientID: fmt.Sprintf("p%d", n), Clean: true, Version: refmqtt.V311, Username: &u, Password: []byte(pr[1])})
				stPw, isStored := ref[pr[0]]
				want := isStored && stPw == pr[1]
				if _, stored := ref[pr[0]]; stored && algoOf[pr[0]] != cur {
					// the stored string was written under another algorithm: it is compared as it is
					onDisk, _ := c19ReadFile(dir)
					want = c19Matches(cur, onDisk[pr[0]], pr[1])
				}
				got := ack != nil && ack.Code == 0
				x.Close()
				vsched.Settle()
				if got != want {
					cl := "stale-credentials-accepted-after-" + strings.SplitN(step, " ", 2)[0]
					if want {
						cl = "new-credentials-refused-after-" + strings.SplitN(step, " ", 2)[0]
					}
					c.Violate("accounts", cl, cas(), fmt.Sprintf("%s/%s accepted=%v", pr[0], pr[1], want), fmt.Sprint(ack))
					return false
				}
			}
			return true
		}
		getAuth := func() *auth.Auth {
			for _, p := range w.Srv.Plugins() {
				if a, ok := p.(*auth.Auth); ok {
					return a
				}
			}
			return nil
		}
		for i, e := range seq {
			step := c19Ops[e]
			a := getAuth()
			if a == nil {
				c.Fatal("C19: auth plugin not loaded")
				return
			}
			var err error
			switch e {
			case 0:
				_, err = a.Update(context.Background(), &auth.UpdateAccountRequest{Username: "u3", Password: "p3"})
				ref["u3"], algoOf["u3"] = "p3", cur
			case 1:
				_, err = a.Update(context.Background(), &auth.UpdateAccountRequest{Username: "u1", Password: "q1"})
				ref["u1"], algoOf["u1"] = "q1", cur
			case 6:
				_, err = a.Update(context.Background(), &auth.UpdateAccountRequest{Username: "u4", Password: " s4 "})
				ref["u4"], algoOf["u4"] = " s4 ", cur
			case 7:
				_, err = a.Update(context.Background(), &auth.UpdateAccountRequest{Username: "u5", Password: " \t"})
				ref["u5"], algoOf["u5"] = " \t", cur
			case 8:
				for k := 10; k <= 34 && err == nil; k++ {
					u := fmt.Sprintf("u%d", k)
					_, err = a.Update(context.Background(), &auth.UpdateAccountRequest{Username: u, Password: fmt.Sprintf("p%d", k)})
					ref[u], algoOf[u] = fmt.Sprintf("p%d", k), cur
				}
			case 2:
				_, err = a.Delete(context.Background(), &auth.DeleteAccountRequest{Username: "u2"})
				delete(ref, "u2")
			case 3:
				_, err = a.Delete(context.Background(), &auth.DeleteAccountRequest{Username: "u3"})
				delete(ref, "u3")
			case 4, 5:
				if e == 5 {
					for i, h := range c19Hashes {
						if h == cur {
							cur = c19Hashes[(i+1)%len(c19Hashes)]
							break
						}
					}
				}
				w.Stop()
				if !w.StopDone {
					c.Violate("restart", "stop-did-not-return", cas(), "Stop returns", fmt.Sprint(vsched.ThreadsParked()))
					return
				}
				w = c19Boot(c, dir, cur, relative)
				if w.InitErr != nil {
					c.Violate("restart", "restart-fails-on-saved-password-file", cas(), "Init succeeds", w.InitErr.Error())
					return
				}
			}
			if err != nil {
				c.Violate("accounts", "api-error-"+step, cas(), "nil", err.Error())
				return
			}
			applied = i + 1
			c.Count("transitions", 1)
			if !probeAll(step) {
				return
			}
			// the file on disk is what a restarted broker loads
			if e < 4 || e > 5 {
				onDisk, ferr := c19ReadFile(dir)
				bad := ferr != nil || len(onDisk) != len(ref)
				for u, pw := range ref {
					if st, ok := onDisk[u]; !ok || !c19Matches(algoOf[u], st, pw) {
						bad = true
					}
				}
				if bad {
					cl := "password-file-not-updated-after-" + step
					if relative {
						cl += "-relative-path"
					}
					c.Violate("accounts", cl, cas(), fmt.Sprint(keysOf(ref)), fmt.Sprint(keysOf(onDisk), ferr))
					return
				}
			}
		}
		swallowedPanic(c, w, cas)
	})
	return applied
}

func keysOf(m map[string]string) []string {
	var k []string
	for x := range m {
		k = append(k, x)
	}
	sort.Strings(k)
	return k
}

// ---- (3) traffic before / without authentication

var c19Pre = []string{"SUBSCRIBE", "PUBLISH(q0,retain)", "PUBLISH(q1,retain)", "UNSUBSCRIBE", "PINGREQ", "DISCONNECT", "AUTH", "PUBREL"}

func c19PrePacket(i int, v byte) *refmqtt.Packet {
	switch i {
	case 0:
		return &refmqtt.Packet{Type: refmqtt.SUBSCRIBE, Version: v, PacketID: 1, Subs: []refmqtt.Sub{{Filter: "#", QoS: 1}}}
	case 1:
		return &refmqtt.Packet{Type: refmqtt.PUBLISH, Version: v, Topic: "evil", Retain: true, Payload: []byte("x")}
	case 2:
		return &refmqtt.Packet{Type: refmqtt.PUBLISH, Version: v, Topic: "evil", Retain: true, QoS: 1, PacketID: 2, Payload: []byte("y")}
	case 3:
		return &refmqtt.Packet{Type: refmqtt.UNSUBSCRIBE, Version: v, PacketID: 3, Filters: []string{"#"}}
	case 4:
		return &refmqtt.Packet{Type: refmqtt.PINGREQ, Version: v}
	case 5:
		return &refmqtt.Packet{Type: refmqtt.DISCONNECT, Version: v}
	case 6:
		return &refmqtt.Packet{Type: refmqtt.AUTH, Version: refmqtt.V5, Code: 0x18, Props: &refmqtt.Props{AuthMethod: harness.Str("m")}}
	}
	return &refmqtt.Packet{Type: refmqtt.PUBREL, Version: v, PacketID: 2}
}

func c19PreAuth(c *explore.Ctx, ws bool, afterFailedConnect bool, ver byte, seq []int) {
	names := make([]string, len(seq))
	for i, e := range seq {
		names[i] = c19Pre[e]
	}
	cas := func() any {
		return map[string]any{"part": "pre-auth-traffic", "websocket": ws, "after_failed_connect": afterFailedConnect, "version": ver, "packets": names}
	}
	c.Count("executions", 1)
	dir, cleanup := c19Dir(c, auth.MD5, map[string]string{"u1": "p1"})
	defer cleanup()
	execBody(c, "C19", cas, func() {
		w := c19Boot(c, dir, auth.MD5, false)
		if w.InitErr != nil {
			c.Fatal("C19 init: %v", w.InitErr)
			return
		}
		by := w.Dial("BY")
		u := "u1"
		if ack := by.Connect(harness.ConnectOpts{ClientID: "bystander", Clean: true, Version: refmqtt.V5, Username: &u, Password: []byte("p1")}); ack == nil || ack.Code != 0 {
			c.Fatal("C19: bystander refused: %v", ack)
			return
		}
		by.Subscribe(0, refmqtt.Sub{Filter: "#", QoS: 1})
		snap := func() string {
			var cl, ss, rt []string
			w.Srv.ClientService().IterateClient(func(cc server.Client) bool { cl = append(cl, cc.ClientOptions().ClientID); return true })
			w.Srv.ClientService().IterateSession(func(s *gmqtt.Session) bool { ss = append(ss, s.ClientID); return true })
			w.Srv.RetainedService().Iterate(func(m *gmqtt.Message) bool { rt = append(rt, m.Topic); return true })
			sort.Strings(cl)
			sort.Strings(ss)
			st := w.Srv.SubscriptionService().GetStats()
			return fmt.Sprintf("clients=%v sessions=%v retained=%v subs=%d/%d", cl, ss, rt, st.SubscriptionsCurrent, st.SubscriptionsTotal)
		}
		before := snap()
		// the unauthenticated connection
		var conn *harness.Conn
		if ws {
			cli, srvc := harness.Pipe("ws", 1<<20)
			vsched.Go("wsHandler", func() { server.VerifServeWS(w.Srv, srvc) })
			vsched.Settle()
			conn = cli
		} else {
			conn = w.L.Dial("evil")
		}
		send := func(b []byte) {
			if ws {
				b = harness.WSClientFrame(harness.WSBinary, b, true, [4]byte{9, 8, 7, 6})
			}
			conn.Write(b)
		}
		if afterFailedConnect {
			bad := "nobody"
			send(refmqtt.Encode(harness.ConnectPacket(harness.ConnectOpts{ClientID: "evil", Clean: true, Version: ver, Username: &bad, Password: []byte("zz")})))
			vsched.Settle()
		}
		for _, e := range seq {
			send(refmqtt.Encode(c19PrePacket(e, ver)))
			vsched.Settle()
			c.Count("transitions", 1)
		}
		after := snap()
		if after != before {
			c.Violate("no-state-without-auth", "broker-state-changed-by-unauthenticated-traffic", cas(), before, after)
		}
		var got []string
		for _, r := range by.Recv() {
			if r.P != nil {
				got = append(got, r.P.String())
			}
		}
		if len(got) != 0 {
			c.Violate("no-state-without-auth", "bystander-received-unauthenticated-traffic", cas(), "nothing", strings.Join(got, " "))
		}
		// nothing but a failing CONNACK / DISCONNECT may come back
		raw := conn.TakeAll()
		if ws {
			if rest, ok := harness.SkipHTTPResponse(raw); ok {
				frames, _, _ := harness.WSParseFrames(rest)
				raw = nil
				for _, f := range frames {
					if f.Opcode == harness.WSBinary {
						raw = append(raw, f.Payload...)
					}
				}
			}
		}
		for len(raw) > 0 {
			p, n, err := refmqtt.Decode(raw, ver)
			if err != nil || n == 0 {
				break
			}
			raw = raw[n:]
			okPkt := (p.Type == refmqtt.CONNACK && p.Code != 0) || p.Type == refmqtt.DISCONNECT
			if !okPkt {
				c.Violate("no-state-without-auth", "reply-to-unauthenticated-packet:"+refmqtt.TypeNames[p.Type], cas(), "only a failing CONNACK or DISCONNECT", p.String())
			}
		}
		conn.Close()
		vsched.Settle()
		swallowedPanic(c, w, cas)
	})
}

func runC19(c *explore.Ctx) {
	c.Level = "model_checking"
	c.Rule = "E2: (connect space) for each of the 4 hash algorithms: version {3.1,3.1.1,5} x user name {absent,\"\",u1,U1,\"u1 \",u2,unknown,65535 bytes} x password {absent,\"\",p1,p1x,p2,hash(p1),65535 bytes} x v5 {no auth props, AuthMethod, AuthMethod+AuthData, empty AuthMethod}: CONNACK success iff the user name is a stored account and the password matches its stored hash; refused connects leave no client/session. (account histories) every sequence of <=3 (thorough 4) of {Update new, Update change, Update with blanks around / only blanks as password, 25 more accounts at once, Delete, Delete, restart broker, restart broker with the next hash algorithm configured} x hash x absolute/relative password file, probing 10 credential pairs (incl. the trimmed and the empty password) after every step and parsing the file on disk. (pre-auth traffic) every sequence of <=2 packets of 8 kinds before CONNECT and after a failed CONNECT, v3.1.1/v5, TCP and WebSocket listener: ClientService/SubscriptionService/RetainedService unchanged, an authenticated '#' bystander receives nothing, no reply other than a failing CONNACK/DISCONNECT."
	c.Trusted = []string{"vsched default schedule, memconn; the websocket handler is driven through a fake hijackable ResponseWriter", "refmqtt codec", "reference hashing with the Go standard library / x/crypto bcrypt"}
	if rc := replayCase(c); rc != nil {
		c.Fatal("C19 replay: re-run ./run.sh C19 quick (%v)", rc)
		return
	}
	// relative password files are written relative to the working directory by the
	// unfixed code: keep the process in a scratch directory
	wd := filepath.Join(c.Verif, ".work", "c19", fmt.Sprintf("cwd-%d", os.Getpid()))
	os.MkdirAll(wd, 0o755)
	os.Chdir(wd)
	defer os.RemoveAll(wd)
	c.Units("connect-space", len(c19Hashes), func(u int) {
		c19ConnectSpace(c, c19Hashes[u])
		c.Sample(map[string]any{"part": "connect-space", "hash": c19Hashes[u]})
	})
	depth := 3
	if !c.Quick() {
		depth = 4
	}
	type hv struct {
		hash string
		rel  bool
	}
	var hvs []hv
	for _, h := range c19Hashes {
		hvs = append(hvs, hv{h, false}, hv{h, true})
	}
	c.Units("account-histories", len(hvs)*len(c19Ops), func(u int) {
		v := hvs[u/len(c19Ops)]
		first := u % len(c19Ops)
		res := explore.Tree(c, explore.TreeConfig{Alphabet: len(c19Ops), Depth: depth, Prefix: []int{first}, Run: func(seq []int) int {
			c.Count("executions", 1)
			return c19History(c, v.hash, v.rel, seq)
		}})
		c.Count("states", res.Nodes)
		if u%7 == 0 {
			c.Sample(map[string]any{"part": "account-history", "hash": v.hash, "relative": v.rel, "first_op": c19Ops[first], "depth": depth})
		}
	})
	var pres [][]int
	for a := 0; a < len(c19Pre); a++ {
		pres = append(pres, []int{a})
		for b := 0; b < len(c19Pre); b++ {
			pres = append(pres, []int{a, b})
		}
	}
	c.Units("pre-auth", len(pres), func(u int) {
		for _, ws := range []bool{false, true} {
			for _, after := range []bool{false, true} {
				for _, v := range []byte{refmqtt.V311, refmqtt.V5} {
					c19PreAuth(c, ws, after, v, pres[u])
					c.Count("states", 1)
				}
			}
		}
		if u%13 == 0 {
			c.Sample(map[string]any{"part": "pre-auth-traffic", "packets": pres[u]})
		}
	})
	c.Count("traces_validated_against_impl", c.Get("executions"))
	os.Chdir(c.Verif)
}
