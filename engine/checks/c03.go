package checks

import (
	"fmt"
	"strings"

	"github.com/DrmagicE/gmqtt/server"
	"github.com/DrmagicE/gmqtt/zzverif/vsched"

	"verif/explore"
	"verif/harness"
	"verif/refmqtt"
)

func init() { register("C03", runC03) }

var c03Events = []string{"pub(q1)", "pub(q2)", "ack(oldest)", "ack(newest)", "pubrec-error(oldest-q2)", "cut", "reconnect(clean0)", "takeover(clean0)"}

type c03Variant struct {
	version     byte
	recvMax     uint16 // v5 Receive Maximum (0 = absent)
	maxInflight uint16 // broker config
}

func (v c03Variant) window() int {
	w := int(v.maxInflight)
	if v.version == refmqtt.V5 && v.recvMax != 0 && int(v.recvMax) < w {
		w = int(v.recvMax)
	}
	return w
}

func (v c03Variant) String() string {
	return fmt.Sprintf("v%d recvmax=%d max_inflight=%d", v.version, v.recvMax, v.maxInflight)
}

type c03Out struct {
	id   uint16
	n    int
	qos  byte
	recd bool // PUBREC sent and PUBREL received: awaiting our PUBCOMP
}

type c03Msg struct {
	n   int
	qos byte
}

func c03Names(seq []int) []string {
	out := make([]string, len(seq))
	for i, e := range seq {
		out[i] = c03Events[e]
	}
	return out
}

func c03Run(c *explore.Ctx, v c03Variant, seq []int) int {
	cas := func() any {
		return map[string]any{"variant": v.String(), "version": v.version, "recvmax": v.recvMax, "max_inflight": v.maxInflight, "seq": seq, "events": c03Names(seq)}
	}
	applied := 0
	execBody(c, "C03", cas, func() {
		cfg := harness.DefaultConfig()
		cfg.MQTT.MaxInflight = v.maxInflight
		w := harness.NewWorld(cfg, server.Hooks{})
		if w.InitErr != nil {
			c.Fatal("init: %v", w.InitErr)
			return
		}
		p := w.Dial("P")
		p.Connect(harness.ConnectOpts{ClientID: "pub", Clean: true, Version: refmqtt.V5})
		nconn := 0
		connectS := func() *harness.Client {
			nconn++
			s := w.Dial(fmt.Sprintf("S%d", nconn))
			o := harness.ConnectOpts{ClientID: "sub", Clean: nconn == 1, Version: v.version}
			if v.version == refmqtt.V5 {
				o.Props = &refmqtt.Props{SessionExpiry: harness.U32(3600)}
				if v.recvMax != 0 {
					o.Props.ReceiveMax = harness.U16(v.recvMax)
				}
			}
			if v.version != refmqtt.V5 {
				o.Clean = false
			}
			ack := s.Connect(o)
			if ack == nil || ack.Code != 0 {
				c.Violate("reconnect", "connect-refused", cas(), "CONNACK success", fmt.Sprint(ack))
				return nil
			}
			if nconn > 1 && !ack.SessionPresent {
				c.Violate("reconnect", "session-not-resumed", cas(), "session present", "session present = 0")
				return nil
			}
			return s
		}
		s := connectS()
		if s == nil {
			return
		}
		if ack, _ := s.Subscribe(0, refmqtt.Sub{Filter: "t", QoS: 2}); ack == nil || ack.Codes[0] != 2 {
			c.Fatal("C03: subscribe failed")
			return
		}
		W := v.window()
		var outstanding []c03Out
		var pending []c03Msg
		completed := map[int]bool{}
		online := true
		npub := 0
		ppid := uint16(0)

		// process everything S received; expectResend: the connection is new
		process := func(expectResend bool) bool {
			rx := s.Recv()
			idx := 0
			next := func() *refmqtt.Packet {
				for idx < len(rx) {
					r := rx[idx]
					idx++
					if r.P == nil || r.Err != nil {
						c.Violate("decodable", "subscriber-rx-undecodable", cas(), "valid packet", fmt.Sprint(r.Err))
						return nil
					}
					return r.P
				}
				return nil
			}
			if expectResend {
				for _, o := range outstanding {
					pk := next()
					want := fmt.Sprintf("PUBLISH(id=%d n%d q%d dup=1)", o.id, o.n, o.qos)
					if o.recd {
						want = fmt.Sprintf("PUBREL(id=%d)", o.id)
					}
					got := "nothing"
					ok := false
					if pk != nil {
						got = pk.String()
						if o.recd {
							ok = pk.Type == refmqtt.PUBREL && pk.PacketID == o.id
						} else {
							ok = pk.Type == refmqtt.PUBLISH && pk.PacketID == o.id && pk.Dup && pk.QoS == o.qos && string(pk.Payload) == fmt.Sprintf("m%d", o.n)
						}
					}
					if !ok {
						cl := "retransmission-missing"
						if pk != nil && pk.Type == refmqtt.PUBLISH && pk.PacketID == o.id && !pk.Dup {
							cl = "retransmission-without-dup"
						} else if pk != nil && pk.Type == refmqtt.PUBLISH && string(pk.Payload) == fmt.Sprintf("m%d", o.n) && pk.PacketID != o.id {
							cl = "retransmission-with-different-id"
						} else if pk != nil && pk.Type == refmqtt.PUBLISH && !pk.Dup {
							cl = "new-message-before-retransmission"
						} else if o.recd {
							cl = "pubrel-not-retransmitted"
						}
						c.Violate("resend-after-reconnect", cl, cas(), want, got)
						return false
					}
				}
			}
			// new arrivals: exactly pending[:k]
			k := len(pending)
			if room := W - len(outstanding); room < k {
				k = room
			}
			if k < 0 {
				k = 0
			}
			for i := 0; i < k; i++ {
				pk := next()
				m := pending[i]
				want := fmt.Sprintf("PUBLISH(n%d q%d dup=0 fresh id)", m.n, m.qos)
				if pk == nil {
					c.Violate("delivery", "message-not-sent-although-window-has-room", cas(), want, "nothing")
					return false
				}
				if pk.Type != refmqtt.PUBLISH || string(pk.Payload) != fmt.Sprintf("m%d", m.n) {
					cl := "out-of-order-or-foreign"
					if pk.Type == refmqtt.PUBLISH && completed[payloadN(pk)] {
						cl = "completed-message-sent-again"
					}
					c.Violate("delivery", cl, cas(), want, pk.String())
					return false
				}
				if pk.QoS != m.qos {
					c.Violate("delivery", "wrong-qos", cas(), want, pk.String())
					return false
				}
				if pk.Dup {
					c.Violate("delivery", "dup-on-first-transmission", cas(), want, pk.String())
					return false
				}
				if pk.PacketID == 0 {
					c.Violate("packet-id", "zero", cas(), "non-zero id", pk.String())
					return false
				}
				for _, o := range outstanding {
					if o.id == pk.PacketID {
						cl := "reused-while-publish-outstanding"
						if o.recd {
							cl = "reused-while-pubrel-outstanding"
						}
						c.Violate("packet-id", cl, cas(), "id distinct from outstanding "+fmt.Sprint(outstanding), pk.String())
						return false
					}
				}
				outstanding = append(outstanding, c03Out{id: pk.PacketID, n: m.n, qos: m.qos})
			}
			pending = pending[k:]
			if pk := next(); pk != nil {
				cl := "unexpected-packet"
				if pk.Type == refmqtt.PUBLISH && pk.QoS > 0 {
					cl = "window-exceeded"
					for _, o := range outstanding {
						if o.recd {
							cl = "window-exceeded-with-pubrel-outstanding"
						}
					}
					if v.version == refmqtt.V5 && v.recvMax > v.maxInflight {
						cl = "window-exceeded-receive-maximum-above-max-inflight"
					}
					if completed[payloadN(pk)] {
						cl = "completed-message-sent-again"
					} else if pk.Dup {
						cl = "spurious-retransmission"
					}
				}
				c.Violate("window", cl, cas(), fmt.Sprintf("at most %d unacknowledged; nothing more", W), pk.String())
				return false
			}
			return true
		}
		if !process(false) {
			return
		}
		for i, e := range seq {
			valid := true
			resend := false
			switch e {
			case 0, 1:
				npub++
				ppid++
				q := byte(e + 1)
				p.Send(&refmqtt.Packet{Type: refmqtt.PUBLISH, Topic: "t", QoS: q, PacketID: ppid, Payload: []byte(fmt.Sprintf("m%d", npub))})
				pending = append(pending, c03Msg{npub, q})
				vsched.Settle()
				for _, r := range p.Recv() {
					if r.P != nil && r.P.Type == refmqtt.PUBREC {
						p.Send(&refmqtt.Packet{Type: refmqtt.PUBREL, PacketID: r.P.PacketID})
					}
				}
				vsched.Settle()
				p.Recv()
			case 2, 3:
				if !online || len(outstanding) == 0 || (e == 3 && len(outstanding) < 2) {
					valid = false
					break
				}
				j := 0
				if e == 3 {
					j = len(outstanding) - 1
				}
				o := &outstanding[j]
				switch {
				case o.qos == 1:
					s.Send(&refmqtt.Packet{Type: refmqtt.PUBACK, PacketID: o.id})
					completed[o.n] = true
					outstanding = append(outstanding[:j], outstanding[j+1:]...)
				case !o.recd:
					// v5 subscribers with Receive Maximum 2 answer with the success-class reason code
					// 0x10 (no matching subscribers): the flow continues exactly as with 0x00
					rc := byte(0)
					if v.version == refmqtt.V5 && v.recvMax == 2 {
						rc = 0x10
					}
					s.Send(&refmqtt.Packet{Type: refmqtt.PUBREC, PacketID: o.id, Code: rc})
					vsched.Settle()
					rx := s.Recv()
					if len(rx) < 1 || rx[0].P == nil || rx[0].P.Type != refmqtt.PUBREL || rx[0].P.PacketID != o.id {
						c.Violate("qos2-flow", "pubrel-missing-after-pubrec", cas(), fmt.Sprintf("PUBREL(%d)", o.id), fmt.Sprint(len(rx), " packets"))
						return
					}
					if len(rx) > 1 {
						c.Violate("qos2-flow", "extra-packet-after-pubrec", cas(), "only PUBREL", fmt.Sprint(rx[1].P))
						return
					}
					o.recd = true
				default:
					s.Send(&refmqtt.Packet{Type: refmqtt.PUBCOMP, PacketID: o.id})
					completed[o.n] = true
					outstanding = append(outstanding[:j], outstanding[j+1:]...)
				}
				vsched.Settle()
			case 4:
				j := -1
				for k, o := range outstanding {
					if o.qos == 2 && !o.recd {
						j = k
						break
					}
				}
				if !online || v.version != refmqtt.V5 || j < 0 {
					valid = false
					break
				}
				s.Send(&refmqtt.Packet{Type: refmqtt.PUBREC, PacketID: outstanding[j].id, Code: 0x80})
				completed[outstanding[j].n] = true
				outstanding = append(outstanding[:j], outstanding[j+1:]...)
				vsched.Settle()
			case 5:
				if !online {
					valid = false
					break
				}
				s.Close()
				online = false
				vsched.Settle()
			case 6, 7:
				if (e == 6) == online {
					valid = false
					break
				}
				old := s
				s = connectS()
				if s == nil {
					return
				}
				if e == 7 {
					vsched.Settle()
					if !old.ClosedByBroker() {
						c.Violate("takeover", "old-connection-left-open", cas(), "displaced connection closed", "still open")
						return
					}
				}
				online, resend = true, true
			}
			if !valid {
				return
			}
			applied = i + 1
			if online {
				if !process(resend) {
					return
				}
				if s.ClosedByBroker() {
					c.Violate("connection-kept", "subscriber-disconnected-after-"+c03Events[e], cas(), "connection stays up", fmt.Sprint(w.Closeds))
					return
				}
			}
			if verbose {
				fmt.Printf("  %-24s outstanding=%v pending=%v\n", c03Events[e], outstanding, pending)
			}
		}
		swallowedPanic(c, w, cas)
	})
	return applied
}

func payloadN(p *refmqtt.Packet) int {
	n := 0
	fmt.Sscanf(strings.TrimPrefix(string(p.Payload), "m"), "%d", &n)
	return n
}

func runC03(c *explore.Ctx) {
	c.Level = "model_checking"
	c.Rule = "E2: every sequence of {publish QoS1, publish QoS2, subscriber acks oldest / newest outstanding (PUBACK, PUBREC->PUBREL, PUBCOMP; one v5 variant answers PUBREC with the success-class code 0x10), v5 PUBREC error, cut, reconnect clean0, take-over clean0} up to the depth, for subscriber variants (v5 Receive Maximum 1/2/3 vs max_inflight, v3.1.1 with max_inflight 1/2), on a fresh in-process broker; a wire monitor on the subscriber socket checks after every event: ids non-zero and distinct among outstanding PUBLISH/PUBREL, window never exceeded and never idle while messages wait, DUP=0 first, after every reconnect exactly the outstanding entries first (same id, DUP=1 or PUBREL) in order, completed ones never again, FIFO for new ones. Plus E1 on the packet-id limiter."
	c.Trusted = []string{"vsched default schedule", "refmqtt codec"}
	if rc := replayCase(c); rc != nil {
		if concReplay(c, rc, "C03") {
			return
		}
		c03Run(c, c03Variant{byte(rc["version"].(float64)), uint16(rc["recvmax"].(float64)), uint16(rc["max_inflight"].(float64))}, intsOf(rc["seq"]))
		return
	}
	depth := 6
	if !c.Quick() {
		depth = 7
	}
	c.Extra["depth"] = depth
	c.Extra["alphabet"] = c03Events
	if !c.IsWorker() {
		c03Limiter(c)
	}
	concPubSubPhase(c, "C03")
	variants := []c03Variant{{refmqtt.V5, 1, 100}, {refmqtt.V5, 2, 100}, {refmqtt.V5, 3, 2}, {refmqtt.V311, 0, 1}, {refmqtt.V311, 0, 2}}
	if !c.Quick() {
		variants = append(variants, c03Variant{refmqtt.V5, 3, 100}, c03Variant{refmqtt.V5, 0, 2})
	}
	for _, v := range variants {
		v := v
		treeUnits(c, "tree-"+strings.ReplaceAll(v.String(), " ", "_"), len(c03Events), depth, func(seq []int) int {
			n := c03Run(c, v, seq)
			if n == len(seq) && c.Get("executions")%3000 == 0 {
				c.Sample(map[string]any{"variant": v.String(), "events": c03Names(seq)})
			}
			return n
		})
	}
}

// ---- E1 on the packet id limiter (in-package accessor)

var c03LimOps = []string{"poll(1)", "poll(2)", "release(oldest)", "release(newest)", "batchRelease(all)", "cursor:=65534", "cursor:=65535", "release(unknown)"}

func c03Limiter(c *explore.Ctx) {
	for _, limit := range []uint16{1, 2, 3} {
		limit := limit
		depth := 7
		if !c.Quick() {
			depth = 9
		}
		res := explore.BFS(c, explore.BFSConfig{Name: fmt.Sprintf("limiter-%d", limit), NumOps: len(c03LimOps), MaxDepth: depth, Replay: func(path []int) (string, bool) {
			key, ok := "", true
			cas := func() any {
				names := make([]string, len(path))
				for i, p := range path {
					names[i] = c03LimOps[p]
				}
				return map[string]any{"limiter_limit": limit, "ops": names}
			}
			good := execBody(c, "C03-limiter", cas, func() {
				l := server.VerifNewLimiter(limit)
				var held []uint16
				for i, op := range path {
					last := i == len(path)-1
					switch op {
					case 0, 1:
						max := uint16(op + 1)
						var got []uint16
						done := false
						vsched.Go("poll", func() { got = l.Poll(max); done = true })
						vsched.Settle()
						if len(held) >= int(limit) {
							if done {
								c.Violate("limiter", "poll-returned-with-full-window", cas(), "blocks", fmt.Sprint(got))
								ok = false
								return
							}
							// a blocked poll: not extended further (the server has one poller); release it
							l.Close()
							vsched.Settle()
							if last {
								ok = false
							}
							return
						}
						if !done {
							c.Violate("limiter", "poll-blocked-with-room", cas(), "returns ids", "blocked")
							ok = false
							return
						}
						want := int(max)
						if r := int(limit) - len(held); r < want {
							want = r
						}
						if len(got) != want {
							c.Violate("limiter", "poll-count", cas(), fmt.Sprint(want), fmt.Sprint(got))
							ok = false
							return
						}
						for _, id := range got {
							if id == 0 {
								c.Violate("limiter", "id-zero", cas(), "non-zero", fmt.Sprint(got))
								ok = false
								return
							}
							for _, h := range held {
								if h == id {
									c.Violate("limiter", "id-reused-while-held", cas(), "fresh id", fmt.Sprint(got, held))
									ok = false
									return
								}
							}
							held = append(held, id)
						}
					case 2, 3:
						if len(held) == 0 || (op == 3 && len(held) < 2) {
							ok = !last
							if last {
								return
							}
							c.Fatal("disabled op in prefix")
							return
						}
						j := 0
						if op == 3 {
							j = len(held) - 1
						}
						l.Release(held[j])
						held = append(held[:j], held[j+1:]...)
					case 4:
						if len(held) == 0 {
							if last {
								ok = false
								return
							}
						}
						l.BatchRelease(append([]uint16{}, held...))
						held = nil
					case 5, 6:
						l.SetFreePid(uint16(65534 + op - 5))
					case 7:
						l.Release(7777)
					}
					if int(l.Used()) != len(held) {
						c.Violate("limiter", fmt.Sprintf("used-counter-off-by-%+d", int(l.Used())-len(held)), cas(), fmt.Sprint(len(held)), fmt.Sprint(l.Used()))
						ok = false
						return
					}
					for _, h := range held {
						if !l.Locked(h) {
							c.Violate("limiter", "held-id-not-locked", cas(), "locked", fmt.Sprint(h))
							ok = false
							return
						}
					}
				}
				key = fmt.Sprint(l.FreePid(), held)
			})
			return key, ok && good
		}})
		c.Count("states", int64(res.States))
		c.Count("transitions", int64(res.Transitions))
		c.Count("limiter_states", int64(res.States))
	}
}
