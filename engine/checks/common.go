package checks

import (
	"encoding/json"
	"fmt"
	"os"
	"regexp"
	"strings"

	"github.com/DrmagicE/gmqtt/zzverif/vsched"

	"verif/explore"
	"verif/harness"
	"verif/refmqtt"
)

// execBody runs one scenario body under the default schedule (0 deviations) and
// reports machinery errors / escaped panics / deadlocks.  Returns false when the
// execution is unusable.
func execBody(c *explore.Ctx, rulePrefix string, cas func() any, body func()) bool {
	r := vsched.Run(nil, vsched.Options{Trace: verbose}, body)
	c.Count("sched_steps", int64(r.Steps))
	if verbose {
		for _, l := range r.Log {
			fmt.Println(l)
		}
	}
	if r.Fatal != "" {
		c.Fatal("%s: %s (case %v)", rulePrefix, r.Fatal, cas())
		return false
	}
	if r.StepLimit {
		if sp := gmqttSpinner(r); sp != "" {
			c.Violate("no-livelock", "busy-loop:"+sp, cas(), "every goroutine blocks or exits", "goroutine "+r.Spinner+" keeps running alone without ever blocking (>100000 consecutive scheduling points)")
			return false
		}
		c.Fatal("%s: step limit reached (case %v)", rulePrefix, cas())
		return false
	}
	if r.Panic != "" {
		c.Violate("no-panic", panicClass(r.Panic), cas(), "no panic", firstLines(r.Panic, 12))
		return false
	}
	if r.Deadlock {
		c.Violate("no-deadlock", "harness-blocked@"+r.ParkedMain, cas(), "scenario completes", "harness thread blocked forever at "+r.ParkedMain+"; parked: "+strings.Join(r.Parked, ","))
		return false
	}
	return true
}

var gmqttThread = regexp.MustCompile(`^(server|federation|auth|admin|mem|redis|gmqtt|persistence|trie|fifo|packets|prometheus)\.`)

// gmqttSpinner: the broker goroutine (not a harness thread) that kept running alone until
// the step limit, without the harness-internal "fed." / client threads.
func gmqttSpinner(r *vsched.Result) string {
	if r.Spinner == "" || !gmqttThread.MatchString(r.Spinner) {
		return ""
	}
	name := strings.SplitN(r.Spinner, "@", 2)[0]
	return name
}

var verbose bool

func firstLines(s string, n int) string {
	l := strings.Split(s, "\n")
	if len(l) > n {
		l = l[:n]
	}
	return strings.Join(l, "\n")
}

// panicClass extracts "<message> @ <first gmqtt frame>" from a panic report.
func panicClass(p string) string {
	lines := strings.Split(p, "\n")
	msg := lines[0]
	if i := strings.Index(msg, "panic: "); i >= 0 {
		msg = msg[i+7:]
	}
	frame := ""
	for _, l := range lines[1:] {
		l = strings.TrimSpace(l)
		if strings.HasPrefix(l, "github.com/DrmagicE/gmqtt/") && !strings.Contains(l, "zzverif") {
			frame = strings.TrimPrefix(l, "github.com/DrmagicE/gmqtt/")
			if j := strings.Index(frame, "("); j > 0 {
				frame = frame[:j]
			}
			break
		}
	}
	if len(msg) > 80 {
		msg = msg[:80]
	}
	return msg + " @ " + frame
}

// swallowedPanic reports panics recovered inside the broker's client goroutines.
func swallowedPanic(c *explore.Ctx, w *harness.World, cas func() any) {
	if p := w.SwallowedPanic(); p != "" {
		c.Violate("no-panic", "recovered: "+trimTo(p, 90), cas(), "no panic inside client goroutines", p)
	}
}

func trimTo(s string, n int) string {
	if len(s) > n {
		return s[:n]
	}
	return s
}

// replayCase loads the case of a recorded violation (for ./run.sh Cxx replay file).
func replayCase(c *explore.Ctx) map[string]any {
	if c.ReplayArg == "" {
		return nil
	}
	b, err := os.ReadFile(c.ReplayArg)
	if err != nil {
		c.Fatal("replay: %v", err)
		return nil
	}
	var v struct {
		Case map[string]any `json:"case"`
		Rule string         `json:"rule"`
	}
	if err := json.Unmarshal(b, &v); err != nil {
		c.Fatal("replay: %v", err)
		return nil
	}
	verbose = true
	fmt.Printf("replaying rule=%s case=%v\n", v.Rule, v.Case)
	return v.Case
}

func intsOf(v any) []int {
	var out []int
	if l, ok := v.([]any); ok {
		for _, x := range l {
			if f, ok := x.(float64); ok {
				out = append(out, int(f))
			}
		}
	}
	return out
}

func pktStrs(ps []*refmqtt.Packet) string {
	var s []string
	for _, p := range ps {
		if p == nil {
			s = append(s, "<undecodable>")
		} else {
			s = append(s, p.String())
		}
	}
	return strings.Join(s, " ")
}

// treeUnits shards a scenario tree on its first two levels.
func treeUnits(c *explore.Ctx, phase string, alphabet, depth int, run func(seq []int) int) {
	if depth < 2 {
		res := explore.Tree(c, explore.TreeConfig{Alphabet: alphabet, Depth: depth, Run: run})
		c.Count("executions", res.Executions)
		c.Count("states", res.Nodes)
		c.Count("transitions", res.Events)
		c.Count("traces_validated_against_impl", res.Executions)
		return
	}
	c.Units(phase, alphabet*alphabet, func(u int) {
		res := explore.Tree(c, explore.TreeConfig{Alphabet: alphabet, Depth: depth, Run: run, Prefix: []int{u / alphabet, u % alphabet}})
		c.Count("executions", res.Executions)
		c.Count("states", res.Nodes)
		c.Count("transitions", res.Events)
		c.Count("traces_validated_against_impl", res.Executions)
	})
}
