package checks

import (
	"fmt"
	"strings"

	"github.com/DrmagicE/gmqtt/config"
	"github.com/DrmagicE/gmqtt/server"
	"github.com/DrmagicE/gmqtt/zzverif/vsched"

	"verif/explore"
	"verif/harness"
	"verif/refmqtt"
)

func init() { register("C13", runC13) }

// ---- (1) outbound maximum packet size and (2) outbound topic aliases

// c13Outbound: subscriber S declares Maximum Packet Size P and Topic Alias Maximum A;
// a sequence of publishes (topic index, payload length) is forwarded to it.
func c13Outbound(c *explore.Ctx, P uint32, A uint16, subID uint32, resume bool, seq [][2]int) {
	topics := []string{"t/aaaa", "t/bbbb", "t/cccc"}
	cas := func() any {
		return map[string]any{"part": "outbound", "client_max_packet_size": P, "client_topic_alias_max": A, "sub_id": subID, "resumed_session": resume, "publishes_topic_len": seq}
	}
	c.Count("executions", 1)
	execBody(c, "C13", cas, func() {
		w := harness.NewWorld(harness.DefaultConfig(), server.Hooks{})
		if w.InitErr != nil {
			c.Fatal("init: %v", w.InitErr)
			return
		}
		s := w.Dial("S")
		pr := &refmqtt.Props{}
		if P != 0 {
			pr.MaxPacketSize = harness.U32(P)
		}
		if A != 0 {
			pr.TopicAliasMax = harness.U16(A)
		}
		pr.SessionExpiry = harness.U32(3600)
		if ack := s.Connect(harness.ConnectOpts{ClientID: "s", Clean: true, Version: refmqtt.V5, Props: pr}); ack == nil || ack.Code != 0 {
			c.Fatal("C13: connect failed %v", ack)
			return
		}
		s.Subscribe(subID, refmqtt.Sub{Filter: "t/#", QoS: 0})
		if resume {
			s.Close()
			vsched.Settle()
			s = w.Dial("S2")
			if ack := s.Connect(harness.ConnectOpts{ClientID: "s", Clean: false, Version: refmqtt.V5, Props: pr}); ack == nil || ack.Code != 0 || !ack.SessionPresent {
				c.Fatal("C13: resume failed %v", ack)
				return
			}
		}
		p := w.Dial("P")
		p.Connect(harness.ConnectOpts{ClientID: "p", Clean: true, Version: refmqtt.V311})
		alias := map[uint16]string{} // the client's alias table
		for i, tl := range seq {
			topic := topics[tl[0]]
			payload := strings.Repeat("x", tl[1])
			p.Send(&refmqtt.Packet{Type: refmqtt.PUBLISH, Topic: topic, Payload: []byte(payload)})
			vsched.Settle()
			c.Count("transitions", 1)
			rx := s.Recv()
			// size a receiver-side minimal encoding would need without alias
			for _, r := range rx {
				if P != 0 && uint32(r.Len) > P {
					cl := "packet-larger-than-client-maximum"
					if r.P != nil && r.P.Props != nil && r.P.Props.TopicAlias != nil {
						cl += "-with-topic-alias-property"
					}
					if r.P != nil && r.P.Props != nil && len(r.P.Props.SubIDs) > 0 {
						cl += "-with-subscription-id"
					}
					c.Violate("outbound-size", cl, cas(), fmt.Sprintf("<= %d bytes", P), fmt.Sprintf("%d bytes: %v", r.Len, r.P))
					return
				}
				if r.P == nil || r.Err != nil || r.P.Type != refmqtt.PUBLISH {
					c.Violate("outbound", "unexpected-or-undecodable-packet", cas(), "PUBLISH", fmt.Sprint(r.P, r.Err))
					return
				}
				// alias discipline
				real := r.P.Topic
				if r.P.Props != nil && r.P.Props.TopicAlias != nil {
					a := *r.P.Props.TopicAlias
					if a == 0 || a > A {
						c.Violate("outbound-alias", "alias-out-of-range", cas(), fmt.Sprintf("1..%d", A), fmt.Sprint(a))
						return
					}
					if r.P.Topic == "" {
						bound, ok := alias[a]
						if !ok {
							c.Violate("outbound-alias", "empty-topic-with-unbound-alias", cas(), "bound alias", fmt.Sprint(a))
							return
						}
						real = bound
					} else {
						alias[a] = r.P.Topic
					}
				} else if r.P.Topic == "" {
					c.Violate("outbound-alias", "empty-topic-without-alias", cas(), "topic or alias", "neither")
					return
				}
				if real != topic {
					c.Violate("outbound-alias", "alias-resolves-to-wrong-topic", cas(), topic, real)
					return
				}
				if string(r.P.Payload) != payload {
					c.Violate("outbound", "wrong-payload", cas(), fmt.Sprint(len(payload)), fmt.Sprint(len(r.P.Payload)))
					return
				}
			}
			// was it required to arrive?  minimal encoding without alias property:
			need := refmqtt.Encode(&refmqtt.Packet{Type: refmqtt.PUBLISH, Version: refmqtt.V5, Topic: topic, Payload: []byte(payload), Props: subProps(subID)})
			fits := P == 0 || uint32(len(need)) <= P
			tooBigEvenWithAlias := P != 0 && uint32(len(need)-len(topic)) > P+3
			switch {
			case fits && len(rx) != 1:
				c.Violate("outbound-size", fmt.Sprintf("in-limit-message-delivered-%d-times", len(rx)), cas(), "delivered once", fmt.Sprintf("publish %d: %d packets, drops %v", i, len(rx), w.Drops))
				return
			case tooBigEvenWithAlias && len(rx) != 0:
				c.Violate("outbound-size", "over-limit-message-delivered", cas(), "dropped whole", fmt.Sprint(len(rx)))
				return
			}
			if !fits && len(rx) == 0 {
				// dropped: must be reported
				found := false
				for _, d := range w.Drops {
					if d.ClientID == "s" && len(d.Payload) == len(payload) {
						found = true
					}
				}
				if !found {
					c.Violate("outbound-size", "over-limit-drop-not-reported", cas(), "OnMsgDropped", fmt.Sprint(w.Drops))
					return
				}
			}
			if s.ClosedByBroker() {
				c.Violate("connection-kept", "subscriber-disconnected-by-oversize-or-alias", cas(), "connection stays up", fmt.Sprint(w.Closeds))
				return
			}
		}
		swallowedPanic(c, w, cas)
	})
}

// c13Backlog: the subscriber (QoS 1 subscription, persistent session) is offline while
// the whole sequence is published, then resumes: every message that fits its Maximum
// Packet Size arrives, in publication order, whatever oversize messages were queued
// between them; nothing larger than the limit is sent; the connection stays up.
func c13Backlog(c *explore.Ctx, P uint32, A uint16, seq [][2]int) {
	topics := []string{"t/aaaa", "t/bbbb", "t/cccc"}
	cas := func() any {
		return map[string]any{"part": "outbound-backlog", "client_max_packet_size": P, "client_topic_alias_max": A, "publishes_topic_len": seq}
	}
	c.Count("executions", 1)
	execBody(c, "C13", cas, func() {
		w := harness.NewWorld(harness.DefaultConfig(), server.Hooks{})
		pr := &refmqtt.Props{MaxPacketSize: harness.U32(P), SessionExpiry: harness.U32(3600)}
		if A != 0 {
			pr.TopicAliasMax = harness.U16(A)
		}
		s := w.Dial("S")
		if ack := s.Connect(harness.ConnectOpts{ClientID: "s", Clean: true, Version: refmqtt.V5, Props: pr}); ack == nil || ack.Code != 0 {
			c.Fatal("C13: connect failed %v", ack)
			return
		}
		s.Subscribe(0, refmqtt.Sub{Filter: "t/#", QoS: 1})
		s.Close()
		vsched.Settle()
		p := w.Dial("P")
		p.Connect(harness.ConnectOpts{ClientID: "p", Clean: true, Version: refmqtt.V311})
		type want struct {
			topic, payload string
			must, mustNot  bool
		}
		var wants []want
		for i, tl := range seq {
			topic := topics[tl[0]]
			payload := strings.Repeat(string(rune('a'+i)), tl[1])
			p.Send(&refmqtt.Packet{Type: refmqtt.PUBLISH, Topic: topic, QoS: 1, PacketID: uint16(i + 1), Payload: []byte(payload)})
			vsched.Settle()
			c.Count("transitions", 1)
			need := refmqtt.Encode(&refmqtt.Packet{Type: refmqtt.PUBLISH, Version: refmqtt.V5, Topic: topic, QoS: 1, PacketID: 1, Payload: []byte(payload)})
			wants = append(wants, want{topic, payload, uint32(len(need)) <= P, uint32(len(need)-len(topic)) > P+3})
		}
		s = w.Dial("S2")
		if ack := s.Connect(harness.ConnectOpts{ClientID: "s", Clean: false, Version: refmqtt.V5, Props: pr}); ack == nil || ack.Code != 0 || !ack.SessionPresent {
			c.Violate("outbound", "resume-refused", cas(), "session present", fmt.Sprint(ack))
			return
		}
		vsched.Settle()
		alias := map[uint16]string{}
		wi := 0
		for _, r := range s.Recv() {
			if uint32(r.Len) > P {
				c.Violate("outbound-size", "packet-larger-than-client-maximum-from-backlog", cas(), fmt.Sprintf("<= %d bytes", P), fmt.Sprintf("%d bytes: %v", r.Len, r.P))
				return
			}
			if r.P == nil || r.Err != nil || r.P.Type != refmqtt.PUBLISH {
				c.Violate("outbound", "unexpected-or-undecodable-packet", cas(), "PUBLISH", fmt.Sprint(r.P, r.Err))
				return
			}
			real := r.P.Topic
			if r.P.Props != nil && r.P.Props.TopicAlias != nil {
				a := *r.P.Props.TopicAlias
				if a == 0 || a > A {
					c.Violate("outbound-alias", "alias-out-of-range", cas(), fmt.Sprintf("1..%d", A), fmt.Sprint(a))
					return
				}
				if r.P.Topic == "" {
					real = alias[a]
				} else {
					alias[a] = r.P.Topic
				}
			}
			// match against the next expected message, skipping ones that may or must be absent
			for wi < len(wants) && (wants[wi].payload != string(r.P.Payload) || wants[wi].topic != real) {
				if wants[wi].must {
					c.Violate("outbound-size", "in-limit-message-behind-an-oversize-one-not-delivered-or-reordered", cas(), fmt.Sprintf("message %d (%d bytes payload) next", wi, len(wants[wi].payload)), fmt.Sprintf("got %s payload %q; drops %v", real, r.P.Payload, w.Drops))
					return
				}
				wi++
			}
			if wi == len(wants) {
				c.Violate("outbound", "unexpected-message-from-backlog", cas(), "a published message", fmt.Sprint(r.P))
				return
			}
			if wants[wi].mustNot {
				c.Violate("outbound-size", "over-limit-message-delivered", cas(), "dropped whole", fmt.Sprint(r.P))
				return
			}
			wi++
		}
		for ; wi < len(wants); wi++ {
			if wants[wi].must {
				c.Violate("outbound-size", "in-limit-message-behind-an-oversize-one-not-delivered-or-reordered", cas(), fmt.Sprintf("message %d (%d bytes payload) delivered", wi, len(wants[wi].payload)), fmt.Sprintf("missing; drops %v", w.Drops))
				return
			}
		}
		if s.ClosedByBroker() {
			c.Violate("connection-kept", "subscriber-disconnected-by-oversize-or-alias", cas(), "connection stays up", fmt.Sprint(w.Closeds))
			return
		}
		swallowedPanic(c, w, cas)
	})
}

func subProps(id uint32) *refmqtt.Props {
	if id == 0 {
		return &refmqtt.Props{}
	}
	return &refmqtt.Props{SubIDs: []uint32{id}}
}

// ---- (3)(4) inbound limits for a configuration

type c13Cfg struct {
	recvMax   uint16
	aliasMax  uint16
	maxPacket uint32
	inflight  uint16
	queued    int
}

func (k c13Cfg) String() string {
	return fmt.Sprintf("server_receive_maximum=%d topic_alias_maximum=%d max_packet_size=%d max_inflight=%d max_queued=%d", k.recvMax, k.aliasMax, k.maxPacket, k.inflight, k.queued)
}

func (k c13Cfg) config() config.Config {
	cfg := harness.DefaultConfig()
	cfg.MQTT.ReceiveMax, cfg.MQTT.TopicAliasMax, cfg.MQTT.MaxPacketSize, cfg.MQTT.MaxInflight, cfg.MQTT.MaxQueuedMsg = k.recvMax, k.aliasMax, k.maxPacket, k.inflight, k.queued
	return cfg
}

// c13Inbound runs all boundary probes for one configuration in one world (each probe
// on its own connection).
func c13Inbound(c *explore.Ctx, k c13Cfg) {
	cas0 := map[string]any{"part": "inbound", "config": k.String()}
	c.Count("executions", 1)
	probe := ""
	cas := func() any {
		m := map[string]any{"probe": probe}
		for a, b := range cas0 {
			m[a] = b
		}
		return m
	}
	execBody(c, "C13", cas, func() {
		cfg := k.config()
		if err := cfg.MQTT.Validate(); err != nil {
			c.Fatal("C13: config rejected by validator: %v", err)
			return
		}
		w := harness.NewWorld(cfg, server.Hooks{})
		if w.InitErr != nil {
			c.Violate("config", "valid-config-fails-init", cas(), "Init succeeds", w.InitErr.Error())
			return
		}
		watch := w.Dial("W")
		watch.Connect(harness.ConnectOpts{ClientID: "watch", Clean: true, Version: refmqtt.V311})
		watch.Subscribe(0, refmqtt.Sub{Filter: "#", QoS: 0})
		n := 0
		newClient := func() (*harness.Client, *refmqtt.Packet) {
			n++
			x := w.Dial(fmt.Sprintf("X%d", n))
			ack := x.Connect(harness.ConnectOpts{ClientID: fmt.Sprintf("x%d", n), Clean: true, Version: refmqtt.V5})
			if ack == nil || ack.Code != 0 || ack.Props == nil {
				c.Violate("config", "connect-refused", cas(), "CONNACK success", fmt.Sprint(ack))
				return nil, nil
			}
			return x, ack
		}
		// expectation helpers
		delivered := func(topic, payload string) bool {
			for _, r := range watch.Recv() {
				if r.P != nil && r.P.Type == refmqtt.PUBLISH && r.P.Topic == topic && string(r.P.Payload) == payload {
					return true
				}
			}
			return false
		}
		disconnectCode := func(x *harness.Client) (byte, bool) {
			for _, r := range x.Recv() {
				if r.P != nil && r.P.Type == refmqtt.DISCONNECT {
					return r.P.Code, true
				}
			}
			return 0, false
		}
		x, ack := newClient()
		if x == nil {
			return
		}
		advA, advR, advM := uint16(0), uint16(65535), uint32(0)
		if ack.Props.TopicAliasMax != nil {
			advA = *ack.Props.TopicAliasMax
		}
		if ack.Props.ReceiveMax != nil {
			advR = *ack.Props.ReceiveMax
		}
		if ack.Props.MaxPacketSize != nil {
			advM = *ack.Props.MaxPacketSize
		}
		if advA != k.aliasMax || advR != k.recvMax || advM != k.maxPacket {
			c.Violate("connack-advertises-config", "mismatch", cas(), k.String(), fmt.Sprint(advA, advR, advM))
			return
		}
		// --- topic alias probes
		aliasVals := map[uint16]bool{0: true, 1: true, 65535: true}
		if advA > 0 {
			aliasVals[advA] = true
			aliasVals[advA-1] = true
		}
		if advA < 65535 {
			aliasVals[advA+1] = true
		}
		for a := range aliasVals {
			_ = a
		}
		var avs []uint16
		for _, cand := range []uint16{0, 1, advA - 1, advA, advA + 1, 65535} {
			if aliasVals[cand] {
				avs = append(avs, cand)
				delete(aliasVals, cand)
			}
		}
		for _, a := range avs {
			valid := a >= 1 && a <= advA
			probe = fmt.Sprintf("alias=%d (advertised maximum %d) with topic", a, advA)
			if x == nil || x.ClosedByBroker() {
				x, _ = newClient()
				if x == nil {
					return
				}
			}
			pl := fmt.Sprintf("a%d", a)
			x.Send(&refmqtt.Packet{Type: refmqtt.PUBLISH, Topic: "t1", Payload: []byte(pl), Props: &refmqtt.Props{TopicAlias: harness.U16(a)}})
			vsched.Settle()
			c.Count("transitions", 1)
			if valid {
				if code, dis := disconnectCode(x); dis || x.ClosedByBroker() {
					cl := "legal-alias-rejected"
					if a == advA {
						cl = "alias-equal-to-advertised-maximum-rejected"
					}
					c.Violate("inbound-alias", cl, cas(), "accepted", fmt.Sprintf("disconnected (code 0x%02x, errors %v)", code, w.Closeds))
					x = nil
					continue
				}
				if !delivered("t1", pl) {
					c.Violate("inbound-alias", "message-with-alias-not-routed", cas(), "delivered on t1", "not delivered")
					return
				}
				probe = fmt.Sprintf("alias=%d empty topic (bound to t1)", a)
				x.Send(&refmqtt.Packet{Type: refmqtt.PUBLISH, Topic: "", Payload: []byte(pl + "e"), Props: &refmqtt.Props{TopicAlias: harness.U16(a)}})
				vsched.Settle()
				if x.ClosedByBroker() || !delivered("t1", pl+"e") {
					c.Violate("inbound-alias", "bound-alias-not-resolved", cas(), "delivered on t1", fmt.Sprint("closed=", x.ClosedByBroker(), w.Closeds))
					x = nil
					continue
				}
				probe = fmt.Sprintf("alias=%d rebound to t2", a)
				x.Send(&refmqtt.Packet{Type: refmqtt.PUBLISH, Topic: "t2", Payload: []byte(pl + "r"), Props: &refmqtt.Props{TopicAlias: harness.U16(a)}})
				vsched.Settle()
				rx := watch.Recv()
				x.Send(&refmqtt.Packet{Type: refmqtt.PUBLISH, Topic: "", Payload: []byte(pl + "s"), Props: &refmqtt.Props{TopicAlias: harness.U16(a)}})
				vsched.Settle()
				rx = append(rx, watch.Recv()...)
				ok1, ok2 := false, false
				for _, r := range rx {
					if r.P != nil && r.P.Topic == "t2" && string(r.P.Payload) == pl+"r" {
						ok1 = true
					}
					if r.P != nil && r.P.Topic == "t2" && string(r.P.Payload) == pl+"s" {
						ok2 = true
					}
				}
				if !ok1 || !ok2 || x.ClosedByBroker() {
					c.Violate("inbound-alias", "rebinding-not-honoured", cas(), "both delivered on t2", fmt.Sprint(ok1, ok2, x.ClosedByBroker()))
					x = nil
					continue
				}
			} else {
				code, dis := disconnectCode(x)
				if !dis || code != 0x94 || !x.ClosedByBroker() {
					c.Violate("inbound-alias", fmt.Sprintf("illegal-alias-%s", map[bool]string{true: "zero", false: "above-maximum"}[a == 0]), cas(), "DISCONNECT 0x94 then close", fmt.Sprintf("disconnect=%v code=0x%02x closed=%v errors=%v", dis, code, x.ClosedByBroker(), w.Closeds))
				}
				watch.Recv()
				x = nil
			}
		}
		// --- receive maximum
		if advR <= 12 {
			probe = fmt.Sprintf("%d outstanding QoS2 publishes (advertised receive maximum %d)", advR, advR)
			x, _ = newClient()
			if x == nil {
				return
			}
			for i := uint16(1); i <= advR; i++ {
				x.Send(&refmqtt.Packet{Type: refmqtt.PUBLISH, Topic: "r", QoS: 2, PacketID: i, Payload: []byte("r")})
			}
			vsched.Settle()
			c.Count("transitions", 1)
			recs := 0
			for _, r := range x.Recv() {
				if r.P != nil && r.P.Type == refmqtt.PUBREC {
					recs++
				}
			}
			if x.ClosedByBroker() || recs != int(advR) {
				c.Violate("inbound-receive-maximum", "client-within-limit-disconnected", cas(), fmt.Sprintf("%d PUBREC, connection up", advR), fmt.Sprintf("%d PUBREC closed=%v %v", recs, x.ClosedByBroker(), w.Closeds))
			} else {
				probe = fmt.Sprintf("%d outstanding QoS2 publishes (advertised receive maximum %d)", advR+1, advR)
				x.Send(&refmqtt.Packet{Type: refmqtt.PUBLISH, Topic: "r", QoS: 2, PacketID: advR + 1, Payload: []byte("r")})
				vsched.Settle()
				code, dis := disconnectCode(x)
				if !dis || code != 0x93 || !x.ClosedByBroker() {
					c.Violate("inbound-receive-maximum", "excess-not-rejected-with-0x93", cas(), "DISCONNECT 0x93 then close", fmt.Sprintf("disconnect=%v code=0x%02x closed=%v", dis, code, x.ClosedByBroker()))
				}
			}
			watch.Recv()
		}
		// --- maximum packet size
		if advM <= 4096 {
			for _, over := range []int{0, 1} {
				probe = fmt.Sprintf("PUBLISH of total size max_packet_size+%d", over)
				x, _ = newClient()
				if x == nil {
					return
				}
				// total = 1 + vbi(rl) + 2 + len(topic) + 1(props) + payload
				target := int(advM) + over
				pl := target - (1 + 1 + 2 + 1 + 1)
				if target-2 >= 128 {
					pl--
				}
				pk := &refmqtt.Packet{Type: refmqtt.PUBLISH, Topic: "m", Payload: []byte(strings.Repeat("z", pl))}
				pk.Version = refmqtt.V5
				if len(refmqtt.Encode(pk)) != target {
					c.Fatal("C13: size construction off: %d vs %d", len(refmqtt.Encode(pk)), target)
					return
				}
				x.Send(pk)
				vsched.Settle()
				c.Count("transitions", 1)
				if over == 0 {
					if x.ClosedByBroker() || !delivered("m", strings.Repeat("z", pl)) {
						c.Violate("inbound-packet-size", "packet-of-exactly-maximum-size-rejected", cas(), "accepted and routed", fmt.Sprint(w.Closeds))
					}
				} else {
					code, dis := disconnectCode(x)
					if !dis || code != 0x95 || !x.ClosedByBroker() {
						c.Violate("inbound-packet-size", "oversize-not-rejected-with-0x95", cas(), "DISCONNECT 0x95 then close", fmt.Sprintf("disconnect=%v code=0x%02x closed=%v", dis, code, x.ClosedByBroker()))
					}
					watch.Recv()
				}
			}
		}
		// --- still serving
		probe = "fresh client after all probes"
		y, _ := newClient()
		if y != nil {
			y.Send(&refmqtt.Packet{Type: refmqtt.PINGREQ})
			vsched.Settle()
			ok := false
			for _, r := range y.Recv() {
				if r.P != nil && r.P.Type == refmqtt.PINGRESP {
					ok = true
				}
			}
			if !ok {
				c.Violate("liveness", "broker-not-serving-after-probes", cas(), "PINGRESP", "none")
			}
		}
		if p := w.SwallowedPanic(); p != "" {
			c.Violate("no-panic", "recovered: "+trimTo(p, 90), cas(), "no panic", p)
		}
	})
}

func runC13(c *explore.Ctx) {
	c.Level = "model_checking"
	c.Rule = "E2: (outbound) client Maximum Packet Size {none,30,40} x Topic Alias Maximum {0,1,2} x subscription id x every publish sequence of length <=3 (thorough 4) over 3 topics x payload lengths sweeping the limit; each received packet is measured and run through a client-side alias table; the same sequences are also published (QoS 1) while the subscriber is offline and must arrive on resume in order, except the oversize ones. (inbound) every validator-accepted configuration of the grid server_receive_maximum x topic_alias_maximum x max_packet_size x max_inflight x max_queued: alias values {0,1,max-1,max,max+1,65535} with topic / empty topic / rebinding, receive maximum r and r+1 outstanding QoS2, plus every sequence up to depth r+2 for r=1,2 (thorough: r+4 for r=1,2 and 5 for r=3) of {QoS1/QoS2 publish accepted, refused by the OnMsgArrived hook with a plain error (0x80) or a reason code (0x87), PUBREL} against the client's own count of unacknowledged publishes, packets of exactly max_packet_size and +1; within the advertised limits never disconnected and routed correctly, beyond them DISCONNECT 0x94/0x93/0x95; no panic; broker still serves. E3: a limit (alias / receive maximum / packet size) is exceeded in the same burst as 0..2 legitimate QoS 1 publishes, so that the write loop is busy when the violation is found: under every schedule with <=k deviations and every choice of a select with several ready cases the DISCONNECT with the reason code must be on the wire before the close."
	c.Trusted = []string{"vsched default schedule", "refmqtt codec (packet sizes are measured on the wire)"}
	if rc := replayCase(c); rc != nil {
		if rc["part"] == "inbound-quota" {
			c13Quota(c, uint16(rc["server_receive_maximum"].(float64)), intsOf(rc["seq"]))
			return
		}
		if name, _ := rc["scenario"].(string); strings.HasPrefix(name, "limit-exceeded-with-busy-writer") {
			obs := &c13BusyObs{}
			r, div := explore.RunPrefix(intsOf(rc["choices"]), nil, true, c13BusyBody(obs, int(rc["limit"].(float64)), int(rc["before"].(float64))))
			for _, l := range r.Log {
				fmt.Println(l)
			}
			fmt.Println("divergence:", div, "problems:", obs.problems, "outcome:", obs.outcome)
			return
		}
		c.Fatal("C13 replay: re-run ./run.sh C13 quick (cases are tiny); case %v", rc)
		return
	}
	// outbound
	type ob struct {
		P      uint32
		A      uint16
		id     uint32
		first  int
		resume bool
	}
	var obs []ob
	for _, P := range []uint32{0, 30, 40} {
		for _, A := range []uint16{0, 1, 2} {
			for _, id := range []uint32{0, 5} {
				for f := 0; f < 3; f++ {
					obs = append(obs, ob{P, A, id, f, false})
					if P == 30 && id == 0 {
						obs = append(obs, ob{P, A, id, f, true})
					}
				}
			}
		}
	}
	depth := 3
	if !c.Quick() {
		depth = 4
	}
	c.Units("outbound", len(obs), func(u int) {
		o := obs[u]
		// payload lengths around the limit for the first topic length (6): header 2 + topic 8 + props>=1
		lens := []int{1}
		if o.P != 0 {
			base := int(o.P) - 2 - 8 - 1
			lens = []int{base - 3, base - 1, base, base + 1, base + 4}
		}
		var rec func(seq [][2]int)
		rec = func(seq [][2]int) {
			if len(seq) == depth {
				c13Outbound(c, o.P, o.A, o.id, o.resume, seq)
				c.Count("states", 1)
				if o.P != 0 && o.id == 0 && !o.resume {
					c13Backlog(c, o.P, o.A, seq)
					c.Count("states", 1)
				}
				return
			}
			for t := 0; t < 3; t++ {
				ls := lens
				if len(seq) < depth-1 && len(lens) > 2 {
					ls = []int{lens[1], lens[3]}
				}
				for _, l := range ls {
					if l < 0 {
						continue
					}
					rec(append(append([][2]int{}, seq...), [2]int{t, l}))
				}
			}
		}
		for _, l := range lens {
			if l >= 0 {
				rec([][2]int{{o.first, l}})
			}
		}
		if u%11 == 0 {
			c.Sample(map[string]any{"part": "outbound", "client_max_packet_size": o.P, "topic_alias_max": o.A, "sub_id": o.id, "depth": depth})
		}
	})
	// inbound configurations
	var cfgs []c13Cfg
	for _, r := range []uint16{1, 2, 10, 65535} {
		for _, a := range []uint16{0, 1, 5, 65535} {
			for _, m := range []uint32{64, 268435455} {
				for _, inf := range []uint16{1, 100} {
					for _, q := range []int{int(inf), 1000} {
						k := c13Cfg{r, a, m, inf, q}
						if k.config().MQTT.Validate() == nil {
							cfgs = append(cfgs, k)
						}
					}
				}
			}
		}
	}
	c.Extra["inbound_configurations"] = len(cfgs)
	c.Units("inbound", len(cfgs), func(u int) {
		c13Inbound(c, cfgs[u])
		c.Count("states", 1)
		if u%17 == 0 {
			c.Sample(map[string]any{"part": "inbound", "config": cfgs[u].String()})
		}
	})
	c13QuotaPhase(c)
	c13Busy(c)
	c.Count("traces_validated_against_impl", c.Get("executions"))
}
