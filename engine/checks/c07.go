package checks

import (
	"fmt"
	"sort"
	"strings"

	"github.com/DrmagicE/gmqtt"
	"github.com/DrmagicE/gmqtt/retained"
	rtrie "github.com/DrmagicE/gmqtt/retained/trie"

	"verif/explore"
	"verif/refmqtt"
	"verif/statekey"
)

func init() { register("C07", runC07) }

type retOp struct {
	kind    int // 0 add, 1 remove, 2 clear
	topic   string
	variant int
}

func (o retOp) String() string {
	switch o.kind {
	case 0:
		return fmt.Sprintf("AddOrReplace(%s,#%d)", o.topic, o.variant)
	case 1:
		return fmt.Sprintf("Remove(%s)", o.topic)
	}
	return "ClearAll()"
}

func retMsg(topic string, variant int) *gmqtt.Message {
	m := &gmqtt.Message{Topic: topic, Retained: true, Payload: []byte(fmt.Sprintf("p%d", variant)), QoS: byte(variant % 3)}
	if variant == 2 {
		m.ContentType = "ct"
		m.MessageExpiry = 100
	}
	return m
}

func msgStr(m *gmqtt.Message) string {
	if m == nil {
		return "<nil>"
	}
	return fmt.Sprintf("%s=%q q%d ret%v ct%q exp%d", m.Topic, m.Payload, m.QoS, m.Retained, m.ContentType, m.MessageExpiry)
}

func retCheckStore(c *explore.Ctx, st retained.Store, ref map[string]*gmqtt.Message, topics, filters []string, hist func() any) {
	for _, t := range topics {
		got := st.GetRetainedMessage(t)
		want := ref[t]
		if msgStr(got) != msgStr(want) {
			cl := "wrong-message"
			if got == nil {
				cl = "missing"
			} else if want == nil {
				cl = "stale-after-remove"
			}
			c.Violate("get-retained", cl, map[string]any{"history": hist(), "topic": t}, msgStr(want), msgStr(got))
		}
	}
	for _, f := range filters {
		var got []string
		res := st.GetMatchedMessages(f)
		for _, m := range res {
			got = append(got, msgStr(m))
		}
		sort.Strings(got)
		var want []string
		for t, m := range ref {
			if refmqtt.Match(t, f) {
				want = append(want, msgStr(m))
			}
		}
		sort.Strings(want)
		if !eqStrings(got, want) {
			c.Violate("get-matched", classifyDiff(got, want)+retFilterShape(f), map[string]any{"history": hist(), "filter": f}, strings.Join(want, "; "), strings.Join(got, "; "))
		}
		// results must be copies: mutating them must not change the store
		for _, m := range res {
			m.QoS = 9
			m.Retained = false
			if len(m.Payload) > 0 {
				m.Payload[0] = 'X'
			}
		}
		if len(res) > 0 {
			var again []string
			for _, m := range st.GetMatchedMessages(f) {
				again = append(again, msgStr(m))
			}
			sort.Strings(again)
			if !eqStrings(again, want) {
				c.Violate("get-matched-copy", "result-aliases-store", map[string]any{"history": hist(), "filter": f}, strings.Join(want, "; "), strings.Join(again, "; "))
			}
		}
	}
	var all, wantAll []string
	st.Iterate(func(m *gmqtt.Message) bool { all = append(all, msgStr(m)); return true })
	for _, m := range ref {
		wantAll = append(wantAll, msgStr(m))
	}
	sort.Strings(all)
	sort.Strings(wantAll)
	if !eqStrings(all, wantAll) {
		c.Violate("iterate", classifyDiff(all, wantAll), map[string]any{"history": hist()}, strings.Join(wantAll, "; "), strings.Join(all, "; "))
	}
	for _, t := range topics {
		if m := st.GetRetainedMessage(t); m != nil {
			m.QoS = 9
			if len(m.Payload) > 0 {
				m.Payload[0] = 'Y'
			}
			if got := st.GetRetainedMessage(t); msgStr(got) != msgStr(ref[t]) {
				c.Violate("get-retained-copy", "result-aliases-store", map[string]any{"history": hist(), "topic": t}, msgStr(ref[t]), msgStr(got))
			}
		}
	}
}

func retFilterShape(f string) string {
	switch {
	case strings.HasPrefix(f, "$"):
		return "-dollar-filter"
	case f == "#" || strings.HasSuffix(f, "/#"):
		return "-multi-level"
	case strings.Contains(f, "+"):
		return "-single-level"
	}
	return "-literal"
}

func c07Store(c *explore.Ctx) {
	filters, _ := c02Universe(!c.Quick())
	sets := [][]string{
		{"a", "a/b", "a/b/c", "a/", "$SYS/a"},
		{"a", "b", "/", "a//b", "$SYS"},
		{"a/a", "a/", "a", "//", "$SYS/a/b"},
	}
	if !c.Quick() {
		sets = append(sets, []string{"a", "a/b", "a/b/c", "a/", "b", "/", "$SYS/a"}, []string{"a/a/a", "a/a", "a/+x", "b/a", "$SYS/a", "$SYS"})
	}
	probe := []string{"a", "b", "a/b", "a/b/c", "a/", "/", "a//b", "a/a", "//", "a/a/a", "b/a", "$SYS", "$SYS/a", "$SYS/a/b", "c", "a/b/"}
	c.Units("store-bfs", len(sets), func(u int) {
		topics := sets[u]
		var ops []retOp
		for _, t := range topics {
			ops = append(ops, retOp{0, t, 1}, retOp{0, t, 2})
		}
		for _, t := range topics {
			ops = append(ops, retOp{1, t, 0})
		}
		ops = append(ops, retOp{2, "", 0})
		seen := map[string]bool{}
		res := explore.BFS(c, explore.BFSConfig{Name: "retained", NumOps: len(ops), Replay: func(path []int) (string, bool) {
			st := rtrie.NewStore()
			ref := map[string]*gmqtt.Message{}
			for _, p := range path {
				o := ops[p]
				switch o.kind {
				case 0:
					st.AddOrReplace(retMsg(o.topic, o.variant))
					ref[o.topic] = retMsg(o.topic, o.variant)
				case 1:
					st.Remove(o.topic)
					delete(ref, o.topic)
				case 2:
					st.ClearAll()
					ref = map[string]*gmqtt.Message{}
				}
			}
			key := statekey.Dump(st)
			if !seen[key] {
				seen[key] = true
				retCheckStore(c, st, ref, probe, filters, func() any {
					out := make([]string, len(path))
					for i, p := range path {
						out[i] = ops[p].String()
					}
					return out
				})
				// the battery mutates copies only; the dump must be unchanged
				if k2 := statekey.Dump(st); k2 != key {
					c.Violate("lookup-mutates-store", "state-changed-by-queries", map[string]any{"history": path}, "unchanged", "changed")
				}
			}
			return key, true
		}})
		c.Count("states", int64(res.States))
		c.Count("transitions", int64(res.Transitions))
		c.Count("traces_validated_against_impl", int64(res.Transitions))
		c.Count("alphabets_closed", b2i(res.Closed))
		c.Sample(map[string]any{"store_topics": topics, "states": res.States, "transitions": res.Transitions, "depth": res.Depth, "closed": res.Closed})
	})
}

func runC07(c *explore.Ctx) {
	c.Level = "model_checking"
	c.Rule = "E1: BFS to closure over AddOrReplace/Remove/ClearAll on the real retained trie store, every new state: GetRetainedMessage for every probe topic, GetMatchedMessages for every filter of the C02 universe, Iterate, copy-independence of results, vs map + reference matcher."
	c.Trusted = []string{"refmqtt.Match", "statekey.Dump"}
	c07Store(c)
}
