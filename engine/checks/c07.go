package checks

import (
	"fmt"
	"sort"
	"strings"

	"github.com/DrmagicE/gmqtt"
	"github.com/DrmagicE/gmqtt/retained"
	rtrie "github.com/DrmagicE/gmqtt/retained/trie"
	"github.com/DrmagicE/gmqtt/server"
	"github.com/DrmagicE/gmqtt/zzverif/vsched"

	"verif/explore"
	"verif/harness"
	"verif/refmqtt"
	"verif/statekey"
)

func init() { register("C07", runC07) }

type retOp struct {
	kind    int // 0 add, 1 remove, 2 clear
	topic   string
	variant int
}

func (o retOp) String() string {
	switch o.kind {
	case 0:
		return fmt.Sprintf("AddOrReplace(%s,#%d)", o.topic, o.variant)
	case 1:
		return fmt.Sprintf("Remove(%s)", o.topic)
	}
	return "ClearAll()"
}

func retMsg(topic string, variant int) *gmqtt.Message {
	// the two variants carry the SAME payload and differ in everything else: "the last
	// message" is not "the last payload"
	m := &gmqtt.Message{Topic: topic, Retained: true, Payload: []byte("p"), QoS: byte(variant % 3)}
	if variant == 2 {
		m.ContentType = "ct"
		m.MessageExpiry = 100
	}
	return m
}

func msgStr(m *gmqtt.Message) string {
	if m == nil {
		return "<nil>"
	}
	return fmt.Sprintf("%s=%q q%d ret%v ct%q exp%d", m.Topic, m.Payload, m.QoS, m.Retained, m.ContentType, m.MessageExpiry)
}

func retCheckStore(c *explore.Ctx, st retained.Store, ref map[string]*gmqtt.Message, topics, filters []string, hist func() any) {
	for _, t := range topics {
		got := st.GetRetainedMessage(t)
		want := ref[t]
		if msgStr(got) != msgStr(want) {
			cl := "wrong-message"
			if got == nil {
				cl = "missing"
			} else if want == nil {
				cl = "stale-after-remove"
			}
			c.Violate("get-retained", cl, map[string]any{"history": hist(), "topic": t}, msgStr(want), msgStr(got))
		}
	}
	for _, f := range filters {
		var got []string
		res := st.GetMatchedMessages(f)
		for _, m := range res {
			got = append(got, msgStr(m))
		}
		sort.Strings(got)
		var want []string
		for t, m := range ref {
			if refmqtt.Match(t, f) {
				want = append(want, msgStr(m))
			}
		}
		sort.Strings(want)
		if !eqStrings(got, want) {
			c.Violate("get-matched", classifyDiff(got, want)+retFilterShape(f), map[string]any{"history": hist(), "filter": f}, strings.Join(want, "; "), strings.Join(got, "; "))
		}
		// results must be copies: mutating them must not change the store
		for _, m := range res {
			m.QoS = 9
			m.Retained = false
			if len(m.Payload) > 0 {
				m.Payload[0] = 'X'
			}
		}
		if len(res) > 0 {
			var again []string
			for _, m := range st.GetMatchedMessages(f) {
				again = append(again, msgStr(m))
			}
			sort.Strings(again)
			if !eqStrings(again, want) {
				c.Violate("get-matched-copy", "result-aliases-store", map[string]any{"history": hist(), "filter": f}, strings.Join(want, "; "), strings.Join(again, "; "))
			}
		}
	}
	var all, wantAll []string
	st.Iterate(func(m *gmqtt.Message) bool { all = append(all, msgStr(m)); return true })
	for _, m := range ref {
		wantAll = append(wantAll, msgStr(m))
	}
	sort.Strings(all)
	sort.Strings(wantAll)
	if !eqStrings(all, wantAll) {
		c.Violate("iterate", classifyDiff(all, wantAll), map[string]any{"history": hist()}, strings.Join(wantAll, "; "), strings.Join(all, "; "))
	}
	for _, t := range topics {
		if m := st.GetRetainedMessage(t); m != nil {
			m.QoS = 9
			if len(m.Payload) > 0 {
				m.Payload[0] = 'Y'
			}
			if got := st.GetRetainedMessage(t); msgStr(got) != msgStr(ref[t]) {
				c.Violate("get-retained-copy", "result-aliases-store", map[string]any{"history": hist(), "topic": t}, msgStr(ref[t]), msgStr(got))
			}
		}
	}
}

func retFilterShape(f string) string {
	switch {
	case strings.HasPrefix(f, "$"):
		return "-dollar-filter"
	case f == "#" || strings.HasSuffix(f, "/#"):
		return "-multi-level"
	case strings.Contains(f, "+"):
		return "-single-level"
	}
	return "-literal"
}

func c07Store(c *explore.Ctx) {
	filters, _ := c02Universe(!c.Quick())
	sets := [][]string{
		{"a", "a/b", "a/b/c", "a/", "$SYS/a"},
		{"a", "b", "/", "a//b", "$SYS"},
		{"a/a", "a/", "a", "//", "$SYS/a/b"},
	}
	if !c.Quick() {
		sets = append(sets, []string{"a", "a/b", "a/b/c", "a/", "b", "/", "$SYS/a"}, []string{"a/a/a", "a/a", "a/+x", "b/a", "$SYS/a", "$SYS"})
	}
	probe := []string{"a", "b", "a/b", "a/b/c", "a/", "/", "a//b", "a/a", "//", "a/a/a", "b/a", "$SYS", "$SYS/a", "$SYS/a/b", "c", "a/b/"}
	c.Units("store-bfs", len(sets), func(u int) {
		topics := sets[u]
		var ops []retOp
		for _, t := range topics {
			ops = append(ops, retOp{0, t, 1}, retOp{0, t, 2})
		}
		for _, t := range topics {
			ops = append(ops, retOp{1, t, 0})
		}
		ops = append(ops, retOp{2, "", 0})
		seen := map[string]bool{}
		res := explore.BFS(c, explore.BFSConfig{Name: "retained", NumOps: len(ops), Replay: func(path []int) (string, bool) {
			st := rtrie.NewStore()
			ref := map[string]*gmqtt.Message{}
			for _, p := range path {
				o := ops[p]
				switch o.kind {
				case 0:
					st.AddOrReplace(retMsg(o.topic, o.variant))
					ref[o.topic] = retMsg(o.topic, o.variant)
				case 1:
					st.Remove(o.topic)
					delete(ref, o.topic)
				case 2:
					st.ClearAll()
					ref = map[string]*gmqtt.Message{}
				}
			}
			key := statekey.Dump(st)
			var rk []string
			for t, m := range ref {
				rk = append(rk, t+"="+msgStr(m))
			}
			sort.Strings(rk)
			bk := key + "|" + strings.Join(rk, ";")
			if !seen[bk] {
				seen[bk] = true
				retCheckStore(c, st, ref, probe, filters, func() any {
					out := make([]string, len(path))
					for i, p := range path {
						out[i] = ops[p].String()
					}
					return out
				})
				// the battery mutates copies only; the dump must be unchanged
				if k2 := statekey.Dump(st); k2 != key {
					c.Violate("lookup-mutates-store", "state-changed-by-queries", map[string]any{"history": path}, "unchanged", "changed")
				}
			}
			return key, true
		}})
		c.Count("states", int64(res.States))
		c.Count("transitions", int64(res.Transitions))
		c.Count("traces_validated_against_impl", int64(res.Transitions))
		c.Count("alphabets_closed", b2i(res.Closed))
		c.Sample(map[string]any{"store_topics": topics, "states": res.States, "transitions": res.Transitions, "depth": res.Depth, "closed": res.Closed})
	})
}

func runC07(c *explore.Ctx) {
	c.Level = "model_checking"
	c.Rule = "E1: BFS to closure over AddOrReplace/Remove/ClearAll on the real retained trie store, every new state: GetRetainedMessage for every probe topic, GetMatchedMessages for every filter of the C02 universe, Iterate, copy-independence of results, vs map + reference matcher."
	c.Trusted = []string{"refmqtt.Match", "statekey.Dump", "vsched default schedule for the wire-level part"}
	c.Rule += " E2 (wire): every history of <=2 (thorough 3) retained publishes/clears over {a, a/b, $SYS/x} x every SUBSCRIBE shape (6 filters incl. shared x QoS x Retain Handling x RAP x v5/v3.1.1 x subscribe once/twice) on a fresh in-process broker: retained store content, exact replay set with QoS min and RETAIN=1, Retain Handling / re-subscription / shared rules, RETAIN of a live publish."
	c.Rule += " E2b: every SUBSCRIBE packet with 2 (thorough 3) distinct filters from {a, a/#, +, $share/g/a, $share/g/#} x Retain Handling per filter, in every order, sent once and twice: the replay is the union of what each non-shared filter is due. E2c: a QoS 2 retained PUBLISH with its PUBREL outstanding is retransmitted (DUP) once or twice after a clear / a newer retained publish / nothing on the same topic: store and replay are as if it had not been retransmitted."
	c07Store(c)
	c07WireMultiAll(c)
	c07WireAll(c)
}

// ---- E2: replay of retained messages on SUBSCRIBE (wire level)

type c07Hist struct {
	topic   string
	payload string // "" = clear
	qos     byte
}

type c07SubCase struct {
	version byte
	filter  string
	qos     byte
	rh      byte
	rap     bool
	twice   bool
}

func (k c07SubCase) String() string {
	return fmt.Sprintf("v%d %s q%d rh%d rap%v twice=%v", k.version, k.filter, k.qos, k.rh, k.rap, k.twice)
}

func c07Wire(c *explore.Ctx, hist []c07Hist, k c07SubCase) {
	cas := func() any {
		var hs []string
		for _, h := range hist {
			hs = append(hs, fmt.Sprintf("%s=%q q%d", h.topic, h.payload, h.qos))
		}
		return map[string]any{"part": "replay-on-subscribe", "retained_history": hs, "subscribe": k.String()}
	}
	c.Count("executions", 1)
	execBody(c, "C07", cas, func() {
		w := harness.NewWorld(harness.DefaultConfig(), server.Hooks{})
		if w.InitErr != nil {
			c.Fatal("init: %v", w.InitErr)
			return
		}
		p := w.Dial("P")
		p.Connect(harness.ConnectOpts{ClientID: "p", Clean: true, Version: refmqtt.V5})
		kept := map[string]c07Hist{}
		for i, h := range hist {
			pk := &refmqtt.Packet{Type: refmqtt.PUBLISH, Topic: h.topic, Retain: true, QoS: h.qos, Payload: []byte(h.payload)}
			if h.qos > 0 {
				pk.PacketID = uint16(i + 1)
			}
			p.Send(pk)
			vsched.Settle()
			if h.payload == "" {
				delete(kept, h.topic)
			} else {
				kept[h.topic] = h
			}
		}
		// the store holds exactly the last non-empty retained message per topic
		var have, want []string
		w.Srv.RetainedService().Iterate(func(m *gmqtt.Message) bool {
			have = append(have, fmt.Sprintf("%s=%s q%d", m.Topic, m.Payload, m.QoS))
			return true
		})
		for _, h := range kept {
			want = append(want, fmt.Sprintf("%s=%s q%d", h.topic, h.payload, h.qos))
		}
		sort.Strings(have)
		sort.Strings(want)
		if !eqStrings(have, want) {
			c.Violate("retained-store", classifyDiff(have, want)+"-after-publish-history", cas(), strings.Join(want, "; "), strings.Join(have, "; "))
			return
		}
		s := w.Dial("S")
		s.Connect(harness.ConnectOpts{ClientID: "s", Clean: true, Version: k.version})
		_, filt, shared := refmqtt.SplitShared(k.filter)
		rounds := 1
		if k.twice {
			rounds = 2
		}
		for round := 0; round < rounds; round++ {
			ack, rest := s.Subscribe(0, refmqtt.Sub{Filter: k.filter, QoS: k.qos, RH: k.rh, RAP: k.rap})
			if ack == nil || ack.Codes[0] >= 0x80 {
				c.Violate("subscribe", "refused", cas(), "granted", fmt.Sprint(ack))
				return
			}
			v3 := k.version != refmqtt.V5
			send := !shared && (v3 || k.rh == 0 || (k.rh == 1 && round == 0))
			var exp []string
			if send {
				for _, h := range kept {
					if refmqtt.Match(h.topic, filt) {
						q := h.qos
						if k.qos < q {
							q = k.qos
						}
						exp = append(exp, fmt.Sprintf("%s=%s q%d ret1", h.topic, h.payload, q))
					}
				}
			}
			var got []string
			for _, r := range rest {
				if r == nil || r.Type != refmqtt.PUBLISH {
					got = append(got, fmt.Sprint(r))
					continue
				}
				got = append(got, fmt.Sprintf("%s=%s q%d ret%d", r.Topic, r.Payload, r.QoS, b2i(r.Retain)))
				if r.QoS == 1 {
					s.Send(&refmqtt.Packet{Type: refmqtt.PUBACK, PacketID: r.PacketID})
				}
			}
			vsched.Settle()
			sort.Strings(exp)
			sort.Strings(got)
			if !eqStrings(got, exp) {
				cl := classifyDiff(got, exp)
				// same messages but RETAIN flag cleared?
				if len(got) == len(exp) && strings.ReplaceAll(strings.Join(got, ";"), "ret0", "ret1") == strings.Join(exp, ";") {
					cl = "replayed-message-without-RETAIN-flag"
					if !k.rap {
						cl += "-when-retain-as-published-is-0"
					}
				} else {
					cl += fmt.Sprintf("-rh%d-%s", k.rh, map[int]string{0: "first-subscribe", 1: "re-subscribe"}[round])
					if shared {
						cl += "-shared"
					}
					if v3 {
						cl += "-v3"
					}
				}
				c.Violate("replay-on-subscribe", cl, cas(), strings.Join(exp, "; "), strings.Join(got, "; "))
				return
			}
		}
		// live forwarding carries RETAIN only under Retain-As-Published
		if !shared {
			p.Send(&refmqtt.Packet{Type: refmqtt.PUBLISH, Topic: "a", Retain: true, Payload: []byte("live")})
			vsched.Settle()
			for _, r := range s.Recv() {
				if r.P != nil && r.P.Type == refmqtt.PUBLISH && string(r.P.Payload) == "live" {
					wantRet := k.rap && k.version == refmqtt.V5
					if r.P.Retain != wantRet {
						c.Violate("live-retain-flag", fmt.Sprintf("retain-%v-want-%v", r.P.Retain, wantRet), cas(), fmt.Sprint(wantRet), fmt.Sprint(r.P.Retain))
					}
				}
			}
		}
		swallowedPanic(c, w, cas)
	})
}

// ---- E2b: SUBSCRIBE packets carrying several filters (shared and non-shared mixed)

type c07Part struct {
	filter string
	rh     byte
}

func c07WireMulti(c *explore.Ctx, parts []c07Part, twice bool) {
	cas := func() any {
		var ps []string
		for _, p := range parts {
			ps = append(ps, fmt.Sprintf("%s rh%d", p.filter, p.rh))
		}
		return map[string]any{"part": "replay-on-multi-filter-subscribe", "retained": []string{"a=v1 q1", "a/b=v2 q0"}, "subscribe_packet": ps, "twice": twice}
	}
	c.Count("executions", 1)
	execBody(c, "C07", cas, func() {
		w := harness.NewWorld(harness.DefaultConfig(), server.Hooks{})
		p := w.Dial("P")
		p.Connect(harness.ConnectOpts{ClientID: "p", Clean: true, Version: refmqtt.V5})
		p.Send(&refmqtt.Packet{Type: refmqtt.PUBLISH, Topic: "a", Retain: true, QoS: 1, PacketID: 1, Payload: []byte("v1")})
		p.Send(&refmqtt.Packet{Type: refmqtt.PUBLISH, Topic: "a/b", Retain: true, Payload: []byte("v2")})
		vsched.Settle()
		kept := map[string]byte{"a": 1, "a/b": 0}
		s := w.Dial("S")
		s.Connect(harness.ConnectOpts{ClientID: "s", Clean: true, Version: refmqtt.V5})
		rounds := 1
		if twice {
			rounds = 2
		}
		seen := map[string]bool{}
		for round := 0; round < rounds; round++ {
			var subs []refmqtt.Sub
			for _, pt := range parts {
				subs = append(subs, refmqtt.Sub{Filter: pt.filter, QoS: 1, RH: pt.rh})
			}
			ack, rest := s.Subscribe(0, subs...)
			if ack == nil || len(ack.Codes) != len(parts) {
				c.Violate("subscribe", "refused", cas(), "granted", fmt.Sprint(ack))
				return
			}
			var exp []string
			for _, pt := range parts {
				_, filt, shared := refmqtt.SplitShared(pt.filter)
				isNew := !seen[pt.filter]
				seen[pt.filter] = true
				if shared || pt.rh == 2 || (pt.rh == 1 && !isNew) {
					continue
				}
				for t, q := range kept {
					if refmqtt.Match(t, filt) {
						exp = append(exp, fmt.Sprintf("%s q%d ret1", t, q))
					}
				}
			}
			var got []string
			for _, r := range rest {
				if r == nil || r.Type != refmqtt.PUBLISH {
					got = append(got, fmt.Sprint(r))
					continue
				}
				got = append(got, fmt.Sprintf("%s q%d ret%d", r.Topic, r.QoS, b2i(r.Retain)))
				if r.QoS == 1 {
					s.Send(&refmqtt.Packet{Type: refmqtt.PUBACK, PacketID: r.PacketID})
				}
			}
			vsched.Settle()
			sort.Strings(exp)
			sort.Strings(got)
			if !eqStrings(got, exp) {
				cl := classifyDiff(got, exp)
				if len(got) == len(exp) && strings.ReplaceAll(strings.Join(got, ";"), "ret0", "ret1") == strings.Join(exp, ";") {
					// the RETAIN flag of replayed messages is judged (and recorded) by the single-filter part
					continue
				}
				mixed := false
				for _, pt := range parts {
					if strings.HasPrefix(pt.filter, "$share/") {
						mixed = true
					}
				}
				cl += map[bool]string{true: "-packet-mixes-shared-and-non-shared", false: "-several-non-shared-filters"}[mixed]
				cl += map[int]string{0: "-first-subscribe", 1: "-re-subscribe"}[round]
				c.Violate("replay-on-subscribe", cl, cas(), strings.Join(exp, "; "), strings.Join(got, "; "))
				return
			}
		}
		swallowedPanic(c, w, cas)
	})
}

func c07WireMultiAll(c *explore.Ctx) {
	var cands []c07Part
	for _, f := range []string{"a", "a/#", "+", "$share/g/a", "$share/g/#"} {
		for _, rh := range []byte{0, 1, 2} {
			if strings.HasPrefix(f, "$share/") && rh != 0 {
				continue
			}
			cands = append(cands, c07Part{f, rh})
		}
	}
	var packets [][]c07Part
	for _, a := range cands {
		for _, b := range cands {
			if a.filter == b.filter {
				continue
			}
			packets = append(packets, []c07Part{a, b})
			if !c.Quick() {
				for _, d := range cands {
					if d.filter != a.filter && d.filter != b.filter {
						packets = append(packets, []c07Part{a, b, d})
					}
				}
			}
		}
	}
	c.Extra["multi_filter_subscribe_packets"] = len(packets)
	c.Units("replay-multi", len(packets), func(u int) {
		c07WireMulti(c, packets[u], false)
		c07WireMulti(c, packets[u], true)
		c.Count("transitions", 2)
		c.Count("states", 2)
	})
}

// c07Retransmit: a QoS 2 retained PUBLISH whose PUBREL is still outstanding is
// retransmitted (DUP, same identifier) after another retained publish / clear on the same
// topic: the retransmission is not a new message and must not touch the retained store.
func c07Retransmit(c *explore.Ctx, version byte, second string, dupTimes int) {
	cas := func() any {
		return map[string]any{"part": "qos2-retransmission", "version": version, "second_retained_publish": second, "retransmissions": dupTimes}
	}
	c.Count("executions", 1)
	execBody(c, "C07", cas, func() {
		w := harness.NewWorld(harness.DefaultConfig(), server.Hooks{})
		if w.InitErr != nil {
			c.Fatal("init: %v", w.InitErr)
			return
		}
		p := w.Dial("P")
		p.Connect(harness.ConnectOpts{ClientID: "p", Clean: true, Version: version})
		first := &refmqtt.Packet{Type: refmqtt.PUBLISH, Topic: "a", Retain: true, QoS: 2, PacketID: 7, Payload: []byte("old")}
		p.Send(first)
		vsched.Settle()
		want := ""
		switch second {
		case "clear":
			p.Send(&refmqtt.Packet{Type: refmqtt.PUBLISH, Topic: "a", Retain: true, Payload: nil})
		case "newer":
			p.Send(&refmqtt.Packet{Type: refmqtt.PUBLISH, Topic: "a", Retain: true, QoS: 1, PacketID: 8, Payload: []byte("new")})
			want = "a=new"
		case "none":
			want = "a=old"
		}
		vsched.Settle()
		for i := 0; i < dupTimes; i++ {
			re := *first
			re.Dup = true
			p.Send(&re)
			vsched.Settle()
		}
		p.Send(&refmqtt.Packet{Type: refmqtt.PUBREL, PacketID: 7})
		vsched.Settle()
		var have []string
		w.Srv.RetainedService().Iterate(func(m *gmqtt.Message) bool {
			have = append(have, fmt.Sprintf("%s=%s", m.Topic, m.Payload))
			return true
		})
		if strings.Join(have, ";") != want {
			c.Violate("retained-store", "changed-by-a-retransmitted-qos2-publish", cas(), want, strings.Join(have, ";"))
			return
		}
		s := w.Dial("S")
		s.Connect(harness.ConnectOpts{ClientID: "s", Clean: true, Version: refmqtt.V5})
		_, rest := s.Subscribe(0, refmqtt.Sub{Filter: "a", QoS: 0})
		var got []string
		for _, r := range rest {
			if r != nil && r.Type == refmqtt.PUBLISH {
				got = append(got, r.Topic+"="+string(r.Payload))
			}
		}
		if strings.Join(got, ";") != want {
			c.Violate("replay-on-subscribe", "replay-after-a-retransmitted-qos2-publish", cas(), want, strings.Join(got, ";"))
		}
		swallowedPanic(c, w, cas)
	})
}

func c07WireAll(c *explore.Ctx) {
	if !c.IsWorker() {
		for _, v := range []byte{refmqtt.V5, refmqtt.V311} {
			for _, second := range []string{"clear", "newer", "none"} {
				for _, n := range []int{1, 2} {
					c07Retransmit(c, v, second, n)
				}
			}
		}
	}
	topics := []string{"a", "a/b", "$SYS/x"}
	var hists [][]c07Hist
	var events []c07Hist
	for _, t := range topics {
		events = append(events, c07Hist{t, "v1", 1}, c07Hist{t, "v2", 0}, c07Hist{t, "", 0})
		if t == "a" {
			events = append(events, c07Hist{t, "v1", 0}) // same payload as the first, another QoS
		}
	}
	hists = append(hists, nil)
	for _, e1 := range events {
		hists = append(hists, []c07Hist{e1})
		for _, e2 := range events {
			hists = append(hists, []c07Hist{e1, e2})
			if !c.Quick() {
				for _, e3 := range events {
					hists = append(hists, []c07Hist{e1, e2, e3})
				}
			}
		}
	}
	var subs []c07SubCase
	for _, f := range []string{"a", "a/#", "+", "#", "$SYS/#", "$share/g/a"} {
		for _, q := range []byte{0, 1} {
			for _, rh := range []byte{0, 1, 2} {
				for _, rap := range []bool{false, true} {
					for _, tw := range []bool{false, true} {
						subs = append(subs, c07SubCase{refmqtt.V5, f, q, rh, rap, tw})
					}
				}
			}
			if !strings.HasPrefix(f, "$share/") {
				subs = append(subs, c07SubCase{refmqtt.V311, f, q, 0, false, false}, c07SubCase{refmqtt.V311, f, q, 0, false, true})
			}
		}
	}
	c.Extra["retained_histories"] = len(hists)
	c.Extra["subscribe_cases"] = len(subs)
	c.Units("replay", len(hists), func(u int) {
		for _, k := range subs {
			c07Wire(c, hists[u], k)
			c.Count("transitions", 1)
		}
		c.Count("states", int64(len(subs)))
		if u%23 == 0 {
			c.Sample(map[string]any{"part": "replay-on-subscribe", "retained_history_len": len(hists[u]), "subscribe_cases": len(subs)})
		}
	})
	c.Count("traces_validated_against_impl", c.Get("executions"))
}
