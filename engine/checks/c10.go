package checks

import (
	"container/list"
	"fmt"
	"reflect"
	"strings"
	"time"
	"unsafe"

	"github.com/DrmagicE/gmqtt"
	"github.com/DrmagicE/gmqtt/persistence/queue"
	qmem "github.com/DrmagicE/gmqtt/persistence/queue/mem"
	qredis "github.com/DrmagicE/gmqtt/persistence/queue/redis"
	"github.com/DrmagicE/gmqtt/pkg/packets"
	"github.com/DrmagicE/gmqtt/zzverif/vsched"

	redigo "github.com/gomodule/redigo/redis"

	"verif/explore"
	"verif/harness"
	"verif/statekey"
)

func init() { register("C10", runC10) }

type qSpec struct {
	qos byte
	exp time.Duration
	big bool
}

func (s qSpec) String() string {
	x := fmt.Sprintf("q%d", s.qos)
	if s.exp != 0 {
		x += fmt.Sprintf(",exp+%ds", int(s.exp/time.Second))
	}
	if s.big {
		x += ",big"
	}
	return x
}

var c10Adds = []qSpec{{0, 0, false}, {1, 0, false}, {2, 0, false}, {1, 5 * time.Second, false}, {0, 5 * time.Second, false}, {1, 0, true}}

const (
	opRead1 = 6 + iota
	opRead2
	opRI1
	opRI2
	opRemOld
	opRemNew
	opRemUnknown
	opReplace
	opInitClean
	opInitResume
	opClose
	opAdv6
	opAdv31
	opRemPending
	c10NumOps
)

func c10OpName(op int) string {
	if op < len(c10Adds) {
		return "Add(" + c10Adds[op].String() + ")"
	}
	return [...]string{"Read(1)", "Read(2)", "ReadInflight(1)", "ReadInflight(2)", "Remove(oldest-handed)", "Remove(newest-handed)", "Remove(unknown)", "Replace(oldest-handed-qos2)", "Init(clean)", "Init(resume)", "Close", "Advance(6s)", "Advance(31s)", "Remove(next in-flight entry not replayed yet)"}[op-len(c10Adds)]
}

const c10ReadLimit = 60

// ---- recording notifier

type qDrop struct {
	desc string
	err  error
}

type recNotifier struct {
	drops  []qDrop
	qDelta int
	iDelta int
}

func elemDesc(e *queue.Elem) string {
	switch m := e.MessageWithID.(type) {
	case *queue.Publish:
		exp := int64(0)
		if !e.Expiry.IsZero() {
			exp = e.Expiry.UnixNano() - vsched.Epoch
		}
		return fmt.Sprintf("pub(q%d len%d id%d at%d exp%d)", m.QoS, len(m.Payload), m.PacketID, (e.At.UnixNano()-vsched.Epoch)/1e9, exp/1e9)
	case *queue.Pubrel:
		return fmt.Sprintf("pubrel(id%d)", m.PacketID)
	}
	return "?"
}

func (n *recNotifier) NotifyDropped(e *queue.Elem, err error) {
	n.drops = append(n.drops, qDrop{elemDesc(e), err})
}
func (n *recNotifier) NotifyInflightAdded(d int) { n.iDelta += d }
func (n *recNotifier) NotifyMsgQueueAdded(d int) { n.qDelta += d }
func (n *recNotifier) reset()                    { n.drops, n.qDelta, n.iDelta = nil, 0, 0 }

// ---- reference model

type rItem struct {
	spec   qSpec
	at     int64 // seconds since epoch start
	exp    int64 // ns since epoch start, 0 none
	id     uint16
	pubrel bool
	handed bool
}

func (it rItem) desc() string {
	if it.pubrel {
		return fmt.Sprintf("pubrel(id%d)", it.id)
	}
	l := 2
	if it.spec.big {
		l = 100
	}
	return fmt.Sprintf("pub(q%d len%d id%d at%d exp%d)", it.spec.qos, l, it.id, it.at, it.exp/1e9)
}

type refQueue struct {
	max     int
	inflExp time.Duration
	items   []rItem
	open    bool
	drained bool
	replay  int
	pending int // ids of a blocked Read (0 none)
	pendIDs []uint16
	nextID  uint16
	qlen    int
	infl    int
	now     int64 // ns since epoch start
}

func (r *refQueue) expired(it rItem) bool { return it.exp != 0 && r.now > it.exp }

func (r *refQueue) dump() string {
	var sb strings.Builder
	fmt.Fprintf(&sb, "open%v dr%v rp%d pend%d nid%d now%d [", r.open, r.drained, r.replay, r.pending, r.nextID, r.now/1e9)
	for _, it := range r.items {
		fmt.Fprintf(&sb, "%s h%v;", it.desc(), it.handed)
	}
	sb.WriteString("]")
	return sb.String()
}

// nextPending: index of the first in-flight entry that the replay after Init(resume) has
// not handed out yet, -1 if none.
func (r *refQueue) nextPending() int {
	for i := r.replay; i < len(r.items); i++ {
		if r.items[i].id != 0 && !r.items[i].handed {
			return i
		}
	}
	return -1
}

func (r *refQueue) handedIDs() []uint16 {
	var ids []uint16
	for _, it := range r.items {
		if it.id != 0 && it.handed {
			ids = append(ids, it.id)
		}
	}
	return ids
}

// implList extracts the private list of the mem queue.
func implList(q *qmem.Queue) []string {
	v := reflect.ValueOf(q).Elem().FieldByName("l")
	l := *(**list.List)(unsafe.Pointer(v.UnsafeAddr()))
	var out []string
	for e := l.Front(); e != nil; e = e.Next() {
		out = append(out, elemDesc(e.Value.(*queue.Elem)))
	}
	return out
}

type c10Sys struct {
	c    *explore.Ctx
	q    queue.Store
	list func() []string // contents of the implementation's private list / redis list
	back string
	n    *recNotifier
	ref  *refQueue
	path []int
	bad  bool // a violation was reported on this path: stop extending it

	sumQ, sumI int

	readDone bool
	readRes  []*queue.Elem
	readErr  error
}

func (s *c10Sys) cas() any {
	names := make([]string, len(s.path))
	for i, p := range s.path {
		names[i] = c10OpName(p)
	}
	return map[string]any{"max": s.ref.max, "inflight_expiry_s": int(s.ref.inflExp / time.Second), "ops": names, "path": s.path, "backend": s.back}
}

func (s *c10Sys) viol(rule, class, want, got string) {
	s.bad = true
	if s.back != "mem" {
		class = s.back + ":" + class
	}
	s.c.Violate(rule, class, s.cas(), want, got)
}

func (s *c10Sys) mkElem(spec qSpec) *queue.Elem {
	now := time.Unix(0, vsched.Now())
	payload := []byte("xx")
	if spec.big {
		payload = []byte(strings.Repeat("B", 100))
	}
	e := &queue.Elem{At: now, MessageWithID: &queue.Publish{Message: &gmqtt.Message{QoS: spec.qos, Topic: "t", Payload: payload}}}
	if spec.exp != 0 {
		e.Expiry = now.Add(spec.exp)
	}
	return e
}

func (s *c10Sys) enabled(op int) bool {
	r := s.ref
	switch {
	case op < len(c10Adds):
		return true
	case op == opRead1 || op == opRead2:
		return r.open && r.drained && r.pending == 0
	case op == opRI1 || op == opRI2:
		return r.open && !r.drained && r.pending == 0
	case op == opRemOld:
		return len(r.handedIDs()) >= 1
	case op == opRemNew:
		return len(r.handedIDs()) >= 2
	case op == opRemUnknown:
		return r.open
	case op == opRemPending:
		return r.open && !r.drained && r.pending == 0 && r.nextPending() >= 0
	case op == opReplace:
		for _, it := range r.items {
			if it.handed && !it.pubrel && it.spec.qos == 2 {
				return true
			}
		}
		return false
	case op == opInitClean || op == opInitResume:
		return !r.open
	case op == opClose:
		return r.open
	}
	return true
}

// finishRead processes the result of a completed Read against the reference.
func (s *c10Sys) finishRead(ids []uint16) {
	r := s.ref
	if s.readErr != nil {
		if r.open {
			s.viol("read", "error-while-open", "elements", s.readErr.Error())
		}
		return
	}
	if !r.open {
		s.viol("read", "returned-after-close", "ErrClosed", fmt.Sprint(len(s.readRes), " elems"))
		return
	}
	k := len(s.readRes) + len(s.n.drops)
	// queued items = items with id == 0, in order
	var qi []int
	for i, it := range r.items {
		if it.id == 0 {
			qi = append(qi, i)
		}
	}
	if k == 0 {
		s.viol("read", "returned-empty-without-drop", "at least one element returned or dropped", "0 returned, 0 dropped")
		return
	}
	if k > len(qi) {
		s.viol("read", "more-than-queued", fmt.Sprintf("<=%d elements", len(qi)), fmt.Sprintf("%d returned + %d dropped", len(s.readRes), len(s.n.drops)))
		return
	}
	ri, di, idi := 0, 0, 0
	remove := map[int]bool{}
	for j := 0; j < k; j++ {
		it := &r.items[qi[j]]
		switch {
		case r.expired(*it):
			if di >= len(s.n.drops) || s.n.drops[di].desc != it.desc() || s.n.drops[di].err != queue.ErrDropExpired {
				s.viol("read", "expired-not-dropped", "drop(expired) of "+it.desc(), readObs(s))
				return
			}
			di++
			remove[qi[j]] = true
			r.qlen--
		case it.spec.big:
			if di >= len(s.n.drops) || s.n.drops[di].desc != it.desc() || s.n.drops[di].err != queue.ErrDropExceedsMaxPacketSize {
				s.viol("read", "oversize-not-dropped", "drop(oversize) of "+it.desc(), readObs(s))
				return
			}
			di++
			remove[qi[j]] = true
			r.qlen--
		default:
			if ri >= len(s.readRes) {
				s.viol("read", "order", "return of "+it.desc(), readObs(s))
				return
			}
			want := *it
			if it.spec.qos > 0 {
				if idi >= len(ids) {
					s.viol("read", "more-qos-than-ids", fmt.Sprintf("<=%d QoS>0 elements", len(ids)), readObs(s))
					return
				}
				want.id = ids[idi]
				idi++
				if r.inflExp != 0 {
					want.exp = r.now + int64(r.inflExp)
				}
			}
			got := elemDesc(s.readRes[ri])
			if got != want.desc() {
				cl := "wrong-element"
				if strings.Contains(got, fmt.Sprintf("id%d", want.id)) == false {
					cl = "wrong-id"
				}
				s.viol("read", cl, want.desc(), got)
				return
			}
			ri++
			if it.spec.qos == 0 {
				remove[qi[j]] = true
				r.qlen--
			} else {
				it.id, it.exp, it.handed = want.id, want.exp, true
				r.infl++
			}
		}
	}
	if ri != len(s.readRes) || di != len(s.n.drops) {
		s.viol("read", "unexplained-output", "outputs = first k queued elements in order", readObs(s))
		return
	}
	var keep []rItem
	for i, it := range r.items {
		if !remove[i] {
			keep = append(keep, it)
		}
	}
	r.items = keep
}

func readObs(s *c10Sys) string {
	var out []string
	for _, e := range s.readRes {
		out = append(out, "ret "+elemDesc(e))
	}
	for _, d := range s.n.drops {
		out = append(out, fmt.Sprintf("drop %s (%v)", d.desc, d.err))
	}
	return strings.Join(out, "; ")
}

func (s *c10Sys) startRead(n int) {
	r := s.ref
	ids := make([]uint16, n)
	// identifiers as the broker's limiter hands them out after a reconnect: the lowest ones not
	// held by an in-flight entry - so the in-flight part of the list is not sorted by id
	used := map[uint16]bool{}
	for _, it := range r.items {
		used[it.id] = true
	}
	next := uint16(0)
	for i := range ids {
		for next++; used[next]; next++ {
		}
		ids[i] = next
	}
	r.nextID = next
	pids := make([]packets.PacketID, n)
	for i := range ids {
		pids[i] = ids[i]
	}
	s.readDone = false
	vsched.Go("Read", func() {
		s.readRes, s.readErr = s.q.Read(pids)
		s.readDone = true
	})
	vsched.Settle()
	hasQueued := false
	for _, it := range r.items {
		if it.id == 0 {
			hasQueued = true
		}
	}
	if !s.readDone {
		if hasQueued {
			s.viol("read", "blocked-with-queued-messages", "read returns", "read blocks")
			return
		}
		r.pending, r.pendIDs = n, ids
		return
	}
	if !hasQueued {
		s.viol("read", "returned-with-nothing-queued", "read blocks", readObs(s))
		return
	}
	s.finishRead(ids)
}

// afterWake: an Add or Close may have released a pending read.
func (s *c10Sys) afterWake() {
	r := s.ref
	if r.pending == 0 {
		return
	}
	vsched.Settle()
	if s.readDone {
		ids := r.pendIDs
		r.pending, r.pendIDs = 0, nil
		s.finishRead(ids)
	}
}

func (s *c10Sys) apply(op int) {
	r := s.ref
	s.n.reset()
	switch {
	case op < len(c10Adds):
		spec := c10Adds[op]
		e := s.mkElem(spec)
		nu := rItem{spec: spec, at: r.now / 1e9}
		if spec.exp != 0 {
			nu.exp = r.now + int64(spec.exp)
		}
		err := s.q.Add(e)
		if err != nil {
			s.viol("add", "error", "nil", err.Error())
			return
		}
		addDrops := s.n.drops
		addQ, addI := s.n.qDelta, s.n.iDelta
		if len(r.items) < r.max {
			if len(addDrops) != 0 {
				s.viol("add-drop", "drop-when-not-full", "no drop", fmt.Sprint(addDrops))
				return
			}
			r.items = append(r.items, nu)
			r.qlen++
		} else {
			victim, reason, step := -1, queue.ErrDropQueueFull, ""
			for i, it := range r.items {
				if it.id != 0 && r.expired(it) {
					victim, reason, step = i, queue.ErrDropExpiredInflight, "expired-inflight"
					break
				}
			}
			if victim < 0 {
				for i, it := range r.items {
					if it.id == 0 && r.expired(it) {
						victim, reason, step = i, queue.ErrDropExpired, "expired-queued"
						break
					}
				}
			}
			if victim < 0 {
				for i, it := range r.items {
					if it.id == 0 && it.spec.qos == 0 {
						victim, step = i, "queued-qos0"
						break
					}
				}
			}
			oldestQueued := -1
			for i, it := range r.items {
				if it.id == 0 {
					oldestQueued = i
					break
				}
			}
			if victim < 0 {
				if spec.qos == 0 || oldestQueued < 0 {
					step = "newcomer"
				} else {
					victim, step = oldestQueued, "oldest-queued"
				}
			}
			wantDesc := nu.desc()
			if victim >= 0 {
				wantDesc = r.items[victim].desc()
			}
			if len(addDrops) != 1 {
				s.viol("add-drop", "full-queue-drops-"+fmt.Sprint(len(addDrops)), "exactly one drop: "+wantDesc, fmt.Sprint(addDrops))
				return
			}
			got := addDrops[0]
			newcomerDropped := got.desc == nu.desc()
			listWrong := false
			if s.list != nil {
				var old, exp []string
				for i, it := range r.items {
					old = append(old, it.desc())
					if i != victim {
						exp = append(exp, it.desc())
					}
				}
				if victim >= 0 {
					exp = append(exp, nu.desc())
				}
				il := strings.Join(s.list(), ";")
				listWrong = il != strings.Join(exp, ";")
				if newcomerDropped && victim >= 0 {
					newcomerDropped = il == strings.Join(old, ";") && listWrong
				}
			}
			if got.desc != wantDesc || listWrong {
				cl := "ladder-" + step + "-expected"
				if newcomerDropped {
					cl += "-newcomer-dropped"
				} else if strings.Contains(got.desc, "id0") {
					cl += "-queued-dropped"
				} else {
					cl += "-inflight-dropped"
				}
				if !r.drained {
					cl += "-inflight-not-drained-since-init"
				}
				s.viol("add-drop", cl, wantDesc+" ("+step+")", fmt.Sprintf("%s (%v)", got.desc, got.err))
				return
			}
			if (step == "expired-inflight" || step == "expired-queued") && got.err != reason {
				s.viol("add-drop", "reason-"+step, reason.Error(), fmt.Sprint(got.err))
				return
			}
			if victim >= 0 {
				if r.items[victim].id != 0 {
					r.infl--
				}
				r.items = append(append([]rItem{}, r.items[:victim]...), r.items[victim+1:]...)
				if victim < r.replay {
					r.replay--
				}
				r.items = append(r.items, nu)
			}
		}
		_ = addQ
		_ = addI
		// counters are compared in check() as running sums
		s.afterWakeKeepDeltas()
	case op == opRead1 || op == opRead2:
		s.startRead(op - opRead1 + 1)
	case op == opRI1 || op == opRI2:
		n := op - opRI1 + 1
		rs, err := s.q.ReadInflight(uint(n))
		if err != nil {
			s.viol("read-inflight", "error", "nil", err.Error())
			return
		}
		// expected: next <= n in-flight entries from the replay cursor
		var want []string
		i := r.replay
		for i < len(r.items) && len(want) < n && r.items[i].id != 0 {
			it := &r.items[i]
			if r.inflExp != 0 {
				it.exp = r.now + int64(r.inflExp)
			}
			it.handed = true
			want = append(want, it.desc())
			i++
		}
		r.replay = i
		var got []string
		for _, e := range rs {
			got = append(got, elemDesc(e))
		}
		if strings.Join(got, ";") != strings.Join(want, ";") {
			cl := "wrong-replay"
			if len(got) < len(want) {
				cl = "missing-inflight-entry"
			} else if len(got) > len(want) {
				cl = "extra-entry"
			}
			s.viol("read-inflight", cl, strings.Join(want, ";"), strings.Join(got, ";"))
			return
		}
		if len(rs) == 0 {
			r.drained = true
		}
	case op == opRemOld || op == opRemNew || op == opRemUnknown:
		ids := r.handedIDs()
		id := uint16(999)
		if op == opRemOld {
			id = ids[0]
		} else if op == opRemNew {
			id = ids[len(ids)-1]
		}
		if err := s.q.Remove(id); err != nil {
			s.viol("remove", "error", "nil", err.Error())
			return
		}
		for i, it := range r.items {
			if it.id == id && it.handed {
				r.items = append(append([]rItem{}, r.items[:i]...), r.items[i+1:]...)
				if i < r.replay {
					r.replay--
				}
				r.qlen--
				r.infl--
				break
			}
		}
	case op == opRemPending:
		// the acknowledgement of an in-flight entry arrives before the replay reached it.
		// The statement leaves open whether that completes the entry or whether it is still
		// replayed; the reference follows what the queue did and requires everything else
		// (conservation, FIFO, replay of the others, counters) to stay right afterwards.
		i := r.nextPending()
		id, d := r.items[i].id, r.items[i].desc()
		if err := s.q.Remove(id); err != nil {
			s.viol("remove", "error", "nil", err.Error())
			return
		}
		gone := true
		if s.list != nil {
			for _, g := range s.list() {
				if g == d {
					gone = false
				}
			}
		}
		if gone {
			r.items = append(append([]rItem{}, r.items[:i]...), r.items[i+1:]...)
			r.qlen--
			r.infl--
		}
	case op == opReplace:
		for i := range r.items {
			it := &r.items[i]
			if it.handed && !it.pubrel && it.spec.qos == 2 {
				ok, err := s.q.Replace(&queue.Elem{At: time.Unix(0, vsched.Now()), MessageWithID: &queue.Pubrel{PacketID: it.id}})
				if err != nil || !ok {
					s.viol("replace", "not-replaced", "true,nil", fmt.Sprint(ok, err))
					return
				}
				it.pubrel, it.exp = true, 0
				break
			}
		}
	case op == opInitClean || op == opInitResume:
		clean := op == opInitClean
		if err := s.q.Init(&queue.InitOptions{CleanStart: clean, Version: packets.Version5, ReadBytesLimit: c10ReadLimit, Notifier: s.n}); err != nil {
			s.viol("init", "error", "nil", err.Error())
			return
		}
		r.open, r.drained, r.replay = true, false, 0
		for i := range r.items {
			r.items[i].handed = false
		}
		if clean {
			r.items = nil
			r.qlen, r.infl = 0, 0
			s.sumQ, s.sumI = 0, 0
		}
	case op == opClose:
		if err := s.q.Close(); err != nil {
			s.viol("close", "error", "nil", err.Error())
			return
		}
		r.open = false
		if r.pending != 0 {
			vsched.Settle()
			if !s.readDone {
				s.viol("close", "pending-read-not-released", "Read returns ErrClosed", "still blocked")
				return
			}
			if s.readErr == nil {
				s.viol("close", "pending-read-returned-elements", "ErrClosed", readObs(s))
				return
			}
			r.pending, r.pendIDs = 0, nil
		}
	case op == opAdv6:
		vsched.Advance(6 * time.Second)
		r.now += int64(6 * time.Second)
	case op == opAdv31:
		vsched.Advance(31 * time.Second)
		r.now += int64(31 * time.Second)
	}
}

// afterWakeKeepDeltas lets a pending read (released by Add) finish; the notifier
// deltas of Add and of the released Read accumulate in the same record, which is
// fine because counters are compared as running sums; drops of the Add itself were
// consumed already, so reset only the drop list before the read is interpreted.
func (s *c10Sys) afterWakeKeepDeltas() {
	r := s.ref
	if r.pending == 0 || s.bad {
		return
	}
	s.n.drops = nil
	vsched.Settle()
	if s.readDone {
		ids := r.pendIDs
		r.pending, r.pendIDs = 0, nil
		s.finishRead(ids)
	} else if r.open {
		hasQueued := false
		for _, it := range r.items {
			if it.id == 0 {
				hasQueued = true
			}
		}
		if hasQueued {
			s.viol("read", "pending-read-not-woken-by-add", "pending Read returns", "still blocked")
		}
	}
}

// check compares contents, bound and counters after an op.
func (s *c10Sys) check() {
	if s.bad {
		return
	}
	r := s.ref
	s.sumQ += s.n.qDelta
	s.sumI += s.n.iDelta
	if s.list != nil {
		got := s.list()
		var want []string
		for _, it := range r.items {
			want = append(want, it.desc())
		}
		if len(got) > r.max {
			s.viol("bounded", "length-exceeds-max", fmt.Sprint("<=", r.max), fmt.Sprint(len(got)))
			return
		}
		if strings.Join(got, ";") != strings.Join(want, ";") {
			cl := "contents-differ"
			if len(got) < len(want) {
				cl = "element-silently-gone"
			} else if len(got) > len(want) {
				cl = "element-not-removed"
			}
			s.viol("conservation", cl, strings.Join(want, ";"), strings.Join(got, ";"))
			return
		}
	}
	if s.sumQ != len(r.items) {
		s.viol("counters", fmt.Sprintf("queue-len-counter-off-by-%+d", s.sumQ-len(r.items)), fmt.Sprint(len(r.items)), fmt.Sprint(s.sumQ))
		return
	}
	infl := 0
	for _, it := range r.items {
		if it.id != 0 {
			infl++
		}
	}
	if s.sumI != infl {
		s.viol("counters", fmt.Sprintf("inflight-counter-off-by-%+d", s.sumI-infl), fmt.Sprint(infl), fmt.Sprint(s.sumI))
	}
}

func c10Replay(c *explore.Ctx, max int, inflExp time.Duration, prefix, path []int) (key string, ok bool) {
	return c10ReplayOn(c, "mem", max, inflExp, prefix, path)
}

func c10ReplayOn(c *explore.Ctx, backend string, max int, inflExp time.Duration, prefix, path []int) (key string, ok bool) {
	full := append(append([]int{}, prefix...), path...)
	ok = true
	cas := func() any {
		names := make([]string, len(full))
		for i, p := range full {
			names[i] = c10OpName(p)
		}
		return map[string]any{"max": max, "inflight_expiry_s": int(inflExp / time.Second), "ops": names, "path": full, "backend": backend}
	}
	var rd *harness.Respd
	var db int
	if backend == "redis" {
		rd, db = c09DB(c, nil)
		if rd == nil {
			return "", false
		}
		defer rd.DropDB(db)
	}
	good := execBody(c, "C10", cas, func() {
		n := &recNotifier{}
		var s *c10Sys
		var stateOf func() string
		if backend == "mem" {
			mq, err := qmem.New(qmem.Options{MaxQueuedMsg: max, InflightExpiry: inflExp, ClientID: "c", DefaultNotifier: n})
			if err != nil {
				c.Fatal("queue.New: %v", err)
				return
			}
			s = &c10Sys{c: c, q: mq, list: func() []string { return implList(mq) }, back: backend, n: n, ref: &refQueue{max: max, inflExp: inflExp}, path: full}
			stateOf = func() string { return statekey.Dump(mq, "Queue.notifier", "Queue.log", "Queue.opts", "Queue.cond") }
		} else {
			pool := &redigo.Pool{MaxIdle: 2, Dial: func() (redigo.Conn, error) {
				cn, err := redigo.Dial("tcp", rd.Addr())
				if err != nil {
					return nil, err
				}
				if _, err := cn.Do("SELECT", db); err != nil {
					cn.Close()
					return nil, err
				}
				return cn, nil
			}}
			defer pool.Close()
			rq, err := qredis.New(qredis.Options{MaxQueuedMsg: max, InflightExpiry: inflExp, ClientID: "c", DefaultNotifier: n, Pool: pool})
			if err != nil {
				c.Fatal("queue.New: %v", err)
				return
			}
			list := func() []string {
				var out []string
				for _, b := range rd.List(db, "queue:c") {
					e := &queue.Elem{}
					if err := e.Decode(b); err != nil {
						out = append(out, "undecodable:"+err.Error())
					} else {
						out = append(out, elemDesc(e))
					}
				}
				return out
			}
			s = &c10Sys{c: c, q: rq, list: list, back: backend, n: n, ref: &refQueue{max: max, inflExp: inflExp}, path: full}
			stateOf = func() string {
				return statekey.Dump(rq, "Queue.notifier", "Queue.log", "Queue.pool", "Queue.cond") + "|" + strings.Join(list(), ";")
			}
		}
		for i, op := range full {
			if !s.enabled(op) {
				if i == len(full)-1 {
					ok = false
				} else {
					c.Fatal("C10: disabled op inside replayed prefix %v", full)
				}
				return
			}
			s.apply(op)
			s.check()
			if s.bad {
				ok = false
				return
			}
			if verbose {
				fmt.Printf("  %-28s impl=%v\n      ref=%s sumQ=%d sumI=%d\n", c10OpName(op), s.list(), s.ref.dump(), s.sumQ, s.sumI)
			}
		}
		key = stateOf() + "|" + s.ref.dump()
	})
	if !good {
		ok = false
	}
	return
}

func runC10(c *explore.Ctx) {
	c.Level = "model_checking"
	c.Rule = "E1: explicit-state BFS (depth-bounded; virtual clock) over Add(6 variants)/Read(1|2 ids)/ReadInflight(1|2)/Remove (handed-out id, unknown id, in-flight entry not replayed yet)/Replace/Init(clean|resume)/Close/Advance(6s|31s) on the real mem queue for max in {1,2,3} x inflight expiry in {0,30s}, and on the real redis queue (redigo against the in-process RESP server; max in {1,2}, thorough also 3; the redis list is read from the server after every op); callers respect the documented preconditions (ReadInflight drained before Read, Init only after Close); a blocking Read is a thread whose release by Add/Close is part of the state. After every op: private list / redis list contents == reference list (conservation), length <= max, outputs explained by the reference (FIFO, ids, expired/oversize never returned, replay after resume, drop ladder), sum of notifier deltas == contents. E3 (redis): an Add on a full queue races a Read, or a second Add, each on its own pooled connection, every schedule with <=k deviations: the stored list, the drops reported and what Read handed out are conserving, bounded and equal to the counters."
	c.Trusted = []string{"vsched virtual clock / Cond semantics", "statekey.Dump", "reference list model written from the property statement and the documented inflight_expiry semantics"}
	c.Assumptions = []string{"queue counters are compared from the last Init(clean) on (Init(clean) discards contents without notifier deltas; the broker resets the statistics of a terminated session separately)"}
	if rc := replayCase(c); rc != nil {
		back, _ := rc["backend"].(string)
		if back == "" {
			back = "mem"
		}
		c10ReplayOn(c, back, int(rc["max"].(float64)), time.Duration(rc["inflight_expiry_s"].(float64))*time.Second, nil, intsOf(rc["path"]))
		return
	}
	depth := 6
	if !c.Quick() {
		depth = 8
	}
	c.Extra["depth"] = depth
	type cfg struct {
		max  int
		infl time.Duration
	}
	var cfgs []cfg
	for _, m := range []int{1, 2, 3} {
		for _, e := range []time.Duration{0, 30 * time.Second} {
			cfgs = append(cfgs, cfg{m, e})
		}
	}
	// units: config x first two ops after Init(clean) (the only op enabled initially besides Add)
	type unit struct {
		cfg    cfg
		prefix []int
		back   string
	}
	var units []unit
	directed := [][]int{
		{opInitClean, 2, opRI1, opRead1, opReplace, opClose, opInitResume},
		{opInitClean, 1, 1, opRI1, opRead2, opClose, opInitResume},
		{opInitClean, 1, opRI1, opRead1, opAdv31, opClose, opInitResume},
		{opInitClean, 1, 2, opRI1, opRead1, opClose, opInitResume},
		{opInitClean, 3, 1, opRI1, opRead2, opAdv6, opClose, opInitResume},
		{opInitClean, 1, 2, 1, opRI1, opRead2, opClose},
		// an online session with two in-flight entries of which the one behind the front has
		// expired (its message's own expiry / the in-flight expiry; the front is a PUBREL)
		{opInitClean, opRI1, 1, 3, opRead2, opAdv6},
		{opInitClean, opRI1, 2, 1, opRead2, opReplace, opAdv31},
		// two in-flight entries whose identifiers are not in list order (a lower id was handed
		// out again behind a higher one)
		{opInitClean, opRI1, 1, 1, opRead2, opRemOld, 1, opRead1},
		// a Read is blocked on a queue that is full of in-flight entries which then expire: the
		// Add that replaces one of them has to wake it
		{opInitClean, opRI1, 1, opRead1, opRead1, opAdv31},
		{opInitClean, opRI1, 3, opRead1, opRead1, opAdv6},
	}
	// redis backend: same alphabet, reference and oracles; the "private list" is the
	// redis list itself (read from the RESP server's memory after every op)
	rdepth := depth
	if !c.Quick() {
		rdepth = depth - 1
	}
	c.Extra["depth_redis"] = rdepth
	for _, cf := range cfgs {
		if cf.max == 3 && c.Quick() {
			continue
		}
		for a := 0; a < c10NumOps; a++ {
			units = append(units, unit{cf, []int{opInitClean, a}, "redis"})
		}
		for _, p := range directed {
			if cf.max < 2 && (len(p) == 7 && p[5] == opReplace || len(p) == 8 && p[5] == opRemOld) {
				continue // needs two entries
			}
			units = append(units, unit{cf, p, "redis"})
		}
	}
	for _, cf := range cfgs {
		for a := 0; a < c10NumOps; a++ {
			units = append(units, unit{cf, []int{opInitClean, a}, "mem"})
		}
		// histories that start with Adds on a never-initialised queue
		units = append(units, unit{cf, []int{1}, "mem"}, unit{cf, []int{2}, "mem"})
		// directed non-initial states (resumed sessions with in-flight entries), explored
		// breadth-first from there
		for _, p := range directed {
			if cf.max < 2 && (len(p) == 7 && p[5] == opReplace || len(p) == 8 && p[5] == opRemOld) {
				continue // needs two entries
			}
			units = append(units, unit{cf, p, "mem"})
		}
	}
	c.Units("queue-bfs", len(units), func(u int) {
		un := units[u]
		if _, ok := c10ReplayOn(c, un.back, un.cfg.max, un.cfg.infl, nil, un.prefix); !ok {
			return
		}
		dd := depth
		if un.back == "redis" {
			dd = rdepth
		}
		d := dd - len(un.prefix)
		if len(un.prefix) > 2 {
			d = dd - 3
		}
		res := explore.BFS(c, explore.BFSConfig{Name: un.back + "queue", NumOps: c10NumOps, MaxDepth: d, MaxStates: 2000000, Replay: func(path []int) (string, bool) {
			return c10ReplayOn(c, un.back, un.cfg.max, un.cfg.infl, un.prefix, path)
		}})
		c.Count("states_"+un.back, int64(res.States))
		c.Count("states", int64(res.States))
		c.Count("transitions", int64(res.Transitions))
		c.Count("traces_validated_against_impl", int64(res.Transitions))
		if u%37 == 0 {
			c.Sample(map[string]any{"backend": un.back, "max": un.cfg.max, "inflight_expiry_s": int(un.cfg.infl / time.Second), "prefix": []string{c10OpName(un.prefix[0])}, "states": res.States, "transitions": res.Transitions, "depth": res.Depth})
		}
	})
	c10RedisRace(c)
}
