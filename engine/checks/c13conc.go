package checks

import (
	"fmt"
	"strings"

	"github.com/DrmagicE/gmqtt/server"
	"github.com/DrmagicE/gmqtt/zzverif/vsched"

	"verif/explore"
	"verif/harness"
	"verif/refmqtt"
)

// c13Busy: the client exceeds one of the advertised limits in the same burst as
// legitimate traffic, so that the broker's write loop is busy (PUBACK / PUBREC of the
// earlier packets) when the limit is found exceeded.  In every schedule the client must
// be "disconnected with 0x94 / 0x93 / 0x95": a DISCONNECT carrying that reason code is
// on the wire before the connection is closed, and everything sent before the offending
// packet was acknowledged or the connection is closed.
type c13BusyObs struct {
	problems [][3]string
	outcome  string
}

func c13BusyBody(obs *c13BusyObs, limit int, before int) func() {
	return func() {
		*obs = c13BusyObs{}
		cfg := harness.DefaultConfig()
		cfg.MQTT.ReceiveMax, cfg.MQTT.TopicAliasMax, cfg.MQTT.MaxPacketSize = 2, 2, 64
		w := harness.NewWorld(cfg, server.Hooks{})
		if w.InitErr != nil {
			obs.problems = append(obs.problems, [3]string{"init", "failed", w.InitErr.Error()})
			return
		}
		x := w.Dial("X")
		if ack := x.Connect(harness.ConnectOpts{ClientID: "x", Clean: true, Version: refmqtt.V5}); ack == nil || ack.Code != 0 {
			obs.problems = append(obs.problems, [3]string{"init", "connect-refused", fmt.Sprint(ack)})
			return
		}
		var burst []byte
		add := func(p *refmqtt.Packet) { p.Version = refmqtt.V5; burst = append(burst, refmqtt.Encode(p)...) }
		want := byte(0)
		switch limit {
		case 0: // topic alias above the advertised maximum
			for i := 0; i < before; i++ {
				add(&refmqtt.Packet{Type: refmqtt.PUBLISH, Topic: "t", QoS: 1, PacketID: uint16(i + 1), Payload: []byte("ok")})
			}
			add(&refmqtt.Packet{Type: refmqtt.PUBLISH, Topic: "t", Payload: []byte("bad"), Props: &refmqtt.Props{TopicAlias: harness.U16(3)}})
			want = 0x94
		case 1: // more unacknowledged QoS 2 publishes than the advertised receive maximum
			for i := 0; i < 3; i++ {
				add(&refmqtt.Packet{Type: refmqtt.PUBLISH, Topic: "t", QoS: 2, PacketID: uint16(i + 1), Payload: []byte("q2")})
			}
			want = 0x93
		case 2: // a packet larger than the advertised maximum packet size
			for i := 0; i < before; i++ {
				add(&refmqtt.Packet{Type: refmqtt.PUBLISH, Topic: "t", QoS: 1, PacketID: uint16(i + 1), Payload: []byte("ok")})
			}
			add(&refmqtt.Packet{Type: refmqtt.PUBLISH, Topic: "t", Payload: []byte(strings.Repeat("z", 80))})
			want = 0x95
		}
		vsched.Go("client-burst", func() { x.SendRaw(burst) })
		vsched.Settle()
		x.Pump()
		code, dis := byte(0), false
		acks := 0
		for _, r := range x.Inbox {
			if r.P == nil {
				continue
			}
			switch r.P.Type {
			case refmqtt.DISCONNECT:
				code, dis = r.P.Code, true
			case refmqtt.PUBACK, refmqtt.PUBREC:
				acks++
			}
		}
		name := []string{"topic-alias", "receive-maximum", "packet-size"}[limit]
		switch {
		case !x.ClosedByBroker():
			obs.problems = append(obs.problems, [3]string{"inbound-limit-busy-writer", name + "-exceeded-but-connection-left-open", fmt.Sprintf("disconnect=%v code=0x%02x acks=%d", dis, code, acks)})
		case !dis:
			obs.problems = append(obs.problems, [3]string{"inbound-limit-busy-writer", name + "-exceeded-closed-without-reason-code", fmt.Sprintf("connection closed, no DISCONNECT on the wire (want 0x%02x); acks=%d errors=%v", want, acks, w.Closeds)})
		case code != want:
			obs.problems = append(obs.problems, [3]string{"inbound-limit-busy-writer", fmt.Sprintf("%s-exceeded-wrong-reason-code-0x%02x", name, code), fmt.Sprintf("want 0x%02x", want)})
		}
		if p := w.SwallowedPanic(); p != "" {
			obs.problems = append(obs.problems, [3]string{"no-panic", "recovered: " + trimTo(p, 80), p})
		}
		obs.outcome = fmt.Sprintf("dis=%v code=0x%02x acks=%d", dis, code, acks)
	}
}

// c13Compliant: a client that never has more than the advertised Receive Maximum (1)
// unacknowledged publishes outstanding - it waits for every PUBACK / PUBCOMP before the
// next PUBLISH - is never disconnected, whatever the interleaving of the broker's read
// loop, handler and write loop.
func c13CompliantBody(obs *c13BusyObs, qos byte) func() {
	return func() {
		*obs = c13BusyObs{}
		cfg := harness.DefaultConfig()
		cfg.MQTT.ReceiveMax = 1
		w := harness.NewWorld(cfg, server.Hooks{})
		if w.InitErr != nil {
			obs.problems = append(obs.problems, [3]string{"init", "failed", w.InitErr.Error()})
			return
		}
		x := w.Dial("X")
		if ack := x.Connect(harness.ConnectOpts{ClientID: "x", Clean: true, Version: refmqtt.V5}); ack == nil || ack.Code != 0 {
			obs.problems = append(obs.problems, [3]string{"init", "connect-refused", fmt.Sprint(ack)})
			return
		}
		done := 0
		vsched.Go("client", func() {
			for i := 1; i <= 3; i++ {
				x.Send(&refmqtt.Packet{Type: refmqtt.PUBLISH, Topic: "t", QoS: qos, PacketID: uint16(i), Payload: []byte("m")})
				want := byte(refmqtt.PUBACK)
				if qos == 2 {
					want = refmqtt.PUBREC
				}
				vsched.WaitUntil("client-waits-for-ack", func() bool { return stampOf(x, want, uint16(i)) != 0 || x.ClosedByBroker() })
				if x.ClosedByBroker() {
					return
				}
				if qos == 2 {
					x.Send(&refmqtt.Packet{Type: refmqtt.PUBREL, PacketID: uint16(i)})
					vsched.WaitUntil("client-waits-for-pubcomp", func() bool { return stampOf(x, refmqtt.PUBCOMP, uint16(i)) != 0 || x.ClosedByBroker() })
					if x.ClosedByBroker() {
						return
					}
				}
				done++
			}
		})
		vsched.Settle()
		x.Pump()
		code := byte(0)
		for _, r := range x.Inbox {
			if r.P != nil && r.P.Type == refmqtt.DISCONNECT {
				code = r.P.Code
			}
		}
		if x.ClosedByBroker() || done != 3 {
			obs.problems = append(obs.problems, [3]string{"inbound-receive-maximum", fmt.Sprintf("client-within-receive-maximum-1-disconnected-0x%02x-qos%d", code, qos), fmt.Sprintf("completed %d of 3 flows, closed=%v, errors %v", done, x.ClosedByBroker(), w.Closeds)})
		}
		if p := w.SwallowedPanic(); p != "" {
			obs.problems = append(obs.problems, [3]string{"no-panic", "recovered: " + trimTo(p, 80), p})
		}
		obs.outcome = fmt.Sprint(done, x.ClosedByBroker())
	}
}

func c13Busy(c *explore.Ctx) {
	{
		b := 1
		if !c.Quick() {
			b = 2
		}
		for _, q := range []byte{1, 2} {
			obs := &c13BusyObs{}
			q := q
			schedScenario(c, fmt.Sprintf("compliant-client-receive-maximum-1-qos%d", q), b, func() [][3]string { return obs.problems }, func() string { return obs.outcome }, c13CompliantBody(obs, q), map[string]any{"qos": q})
		}
	}
	bound := 1
	if !c.Quick() {
		bound = 2
	}
	c.Extra["busy_writer_deviation_bound"] = bound
	for limit := 0; limit < 3; limit++ {
		for _, before := range []int{0, 1, 2} {
			if limit == 1 && before != 0 {
				continue
			}
			obs := &c13BusyObs{}
			name := fmt.Sprintf("limit-exceeded-with-busy-writer-%s-after-%d-publishes", []string{"topic-alias", "receive-maximum", "packet-size"}[limit], before)
			schedScenario(c, name, bound, func() [][3]string { return obs.problems }, func() string { return obs.outcome }, c13BusyBody(obs, limit, before), map[string]any{"limit": limit, "before": before})
		}
	}
}
