package checks

import (
	"context"
	"encoding/json"
	"fmt"
	"os"
	"os/exec"
	"path/filepath"
	"regexp"
	"sort"
	"strings"
	"time"

	"github.com/DrmagicE/gmqtt"
	"github.com/DrmagicE/gmqtt/zzverif/vsched"

	"verif/explore"
	"verif/harness"
	"verif/refmqtt"
)

func init() { register("C15", runC15) }

type c15Obs struct {
	problems [][3]string
	outcome  string
}

func (o *c15Obs) bad(rule, class, detail string) {
	o.problems = append(o.problems, [3]string{rule, class, detail})
}

// c15World boots a broker with one recording plugin (Load/Unload/OnStop counting).
func c15World(maxInflight uint16) *harness.World {
	c14Reset("", nil)
	cfg := harness.DefaultConfig()
	cfg.PluginOrder = []string{"vp1"}
	if maxInflight != 0 {
		cfg.MQTT.MaxInflight = maxInflight
	}
	return harness.NewWorld(cfg, c14BaseHooks())
}

// c15Finish stops the broker and checks the termination clauses.
func c15Finish(o *c15Obs, w *harness.World, clients []*harness.Client, stopAlreadyCalled bool) {
	if !stopAlreadyCalled {
		w.Stop()
	} else {
		vsched.Settle()
	}
	if !w.StopDone {
		o.bad("stop", "stop-did-not-return", "parked: "+strings.Join(vsched.ThreadsParked(), ", "))
		return
	}
	if w.StopErr != nil {
		o.bad("stop", "stop-returned-error", w.StopErr.Error())
	}
	if !w.L.IsClosed() {
		o.bad("stop", "listener-left-open", "")
	}
	if !w.RunDone {
		o.bad("stop", "run-did-not-return", "parked: "+strings.Join(vsched.ThreadsParked(), ", "))
	}
	for _, cl := range clients {
		if cl != nil && !cl.ClosedByBroker() && !cl.Conn.Closed() {
			o.bad("stop", "client-connection-left-open:"+cl.Name, "")
		}
	}
	if strings.Join(c14.loaded, " ") != "load:vp1 unload:vp1" {
		o.bad("stop", "plugin-unload-not-exactly-once", strings.Join(c14.loaded, " "))
	}
	nstop := 0
	for _, l := range c14.log {
		if l == "base:OnStop" {
			nstop++
		}
	}
	if nstop != 1 {
		o.bad("stop", fmt.Sprintf("OnStop-fired-%d-times", nstop), "")
	}
	for _, t := range vsched.ThreadsParked() {
		if strings.HasPrefix(t, "server.") && !strings.HasPrefix(t, "server.Stop") && !strings.HasPrefix(t, "server.Run") {
			o.bad("goroutines", "broker-goroutine-alive-after-stop:"+strings.SplitN(t, "@", 2)[0], t)
		}
	}
	if p := w.SwallowedPanic(); p != "" {
		o.bad("no-panic", "recovered: "+trimTo(p, 80), p)
	}
}

func c15Connect(w *harness.World, name, id string, clean bool, props *refmqtt.Props) *harness.Client {
	cl := w.Dial(name)
	cl.Connect(harness.ConnectOpts{ClientID: id, Clean: clean, Version: refmqtt.V5, Props: props})
	return cl
}

func c15Answered(o *c15Obs, cl *harness.Client, what string, ok bool) {
	if !ok && !cl.ClosedByBroker() {
		o.bad("liveness", "request-unanswered:"+what, "connection "+cl.Name+" still open and no answer; parked: "+strings.Join(vsched.ThreadsParked(), ", "))
	}
}

func hasType(cl *harness.Client, t byte) bool {
	cl.Pump()
	for _, r := range cl.Inbox {
		if r.P != nil && r.P.Type == t {
			return true
		}
	}
	return false
}

// c15Sweeper: two sessions have expired and the sweeper's tick is due; the owner of the
// second one reconnects while the sweeper runs.  Whoever wins, a connection that was
// acknowledged is known to the broker afterwards (answers, can be found, is closed by
// Stop).
func c15Sweeper(o *c15Obs, clockFirst bool) {
	w := c15World(0)
	for _, id := range []string{"x1", "x2"} {
		x := c15Connect(w, "X-"+id, id, true, &refmqtt.Props{SessionExpiry: harness.U32(10)})
		x.Subscribe(0, refmqtt.Sub{Filter: "t", QoS: 1})
		x.Close()
		vsched.Settle()
	}
	vsched.Advance(19 * time.Second) // both sessions are expired, the sweeper ticks at 20s
	y := w.Dial("Y")
	y.Version = refmqtt.V5
	reconnect := func() {
		y.Send(harness.ConnectPacket(harness.ConnectOpts{ClientID: "x2", Clean: false, Version: refmqtt.V5, Props: &refmqtt.Props{SessionExpiry: harness.U32(10)}}))
	}
	if clockFirst {
		vsched.Go("clock", func() { vsched.FireNext(-1) })
		vsched.Go("reconnect", reconnect)
	} else {
		vsched.Go("reconnect", reconnect)
		vsched.Go("clock", func() { vsched.FireNext(-1) })
	}
	vsched.Settle()
	acked := hasType(y, refmqtt.CONNACK)
	c15Answered(o, y, "CONNECT", acked)
	if acked && !y.ClosedByBroker() {
		if w.Srv.ClientService().GetClient("x2") == nil {
			o.bad("attached", "acknowledged-connection-unknown-to-the-broker", "GetClient(x2) == nil after CONNACK")
		}
		if ss, _ := w.Srv.ClientService().GetSession("x2"); ss == nil {
			o.bad("attached", "acknowledged-connection-without-session", "GetSession(x2) == nil after CONNACK")
		}
		y.Send(&refmqtt.Packet{Type: refmqtt.PINGREQ})
		vsched.Settle()
		c15Answered(o, y, "PINGREQ", hasType(y, refmqtt.PINGRESP))
	}
	o.outcome = fmt.Sprint(acked, y.ClosedByBroker())
	c15Finish(o, w, []*harness.Client{y}, false)
}

// c15ResumeExpired: a session with a full queue (max_queued 1, inflight_expiry 0) whose only
// entry is an unacknowledged in-flight message that expired while the client was away is
// resumed while a new message is published to it: the queue sacrifices the expired entry
// (and gives its packet identifier back to the limiter) while the new connection's poll
// goroutine replays the in-flight entries.
func c15ResumeExpired(o *c15Obs, gated bool) {
	c14Reset("", nil)
	cfg := harness.DefaultConfig()
	cfg.PluginOrder = []string{"vp1"}
	cfg.MQTT.MaxQueuedMsg, cfg.MQTT.MaxInflight, cfg.MQTT.InflightExpiry = 1, 1, 0
	w := harness.NewWorld(cfg, c14BaseHooks())
	s := c15Connect(w, "S", "s", true, &refmqtt.Props{SessionExpiry: harness.U32(3600)})
	s.Subscribe(0, refmqtt.Sub{Filter: "t", QoS: 1})
	w.Srv.Publisher().Publish(&gmqtt.Message{Topic: "t", QoS: 1, Payload: []byte("m1"), MessageExpiry: 1})
	vsched.Settle()
	s.Close() // m1 stays unacknowledged
	vsched.Settle()
	vsched.Advance(2 * time.Second)
	n := w.Dial("N")
	n.Version = refmqtt.V5
	vsched.Go("reconnect", func() {
		n.Send(harness.ConnectPacket(harness.ConnectOpts{ClientID: "s", Clean: false, Version: refmqtt.V5, Props: &refmqtt.Props{SessionExpiry: harness.U32(3600)}}))
	})
	published := false
	vsched.Go("api-publish", func() {
		if gated {
			vsched.WaitUntil("connack-written", func() bool { return n.Conn.Buffered() > 0 })
		}
		w.Srv.Publisher().Publish(&gmqtt.Message{Topic: "t", QoS: 1, Payload: []byte("m2")})
		published = true
	})
	vsched.Settle()
	c15Answered(o, n, "CONNECT(resume)", hasType(n, refmqtt.CONNACK))
	if !published {
		o.bad("liveness", "publish-never-returned", "Publisher.Publish blocked; parked: "+strings.Join(vsched.ThreadsParked(), ", "))
	}
	got := 0
	n.Pump()
	for _, r := range n.Inbox {
		if r.P != nil && r.P.Type == refmqtt.PUBLISH && string(r.P.Payload) == "m2" {
			got++
		}
	}
	o.outcome = fmt.Sprint(hasType(n, refmqtt.CONNACK), published, got)
	c15Finish(o, w, []*harness.Client{n}, false)
}

type c15Scenario struct {
	name string
	body func(o *c15Obs)
}

func c15Scenarios() []c15Scenario {
	exp := func() *refmqtt.Props { return &refmqtt.Props{SessionExpiry: harness.U32(3600)} }
	return []c15Scenario{
		{"online-client-and-two-takeovers", func(o *c15Obs) {
			w := c15World(0)
			old := c15Connect(w, "O", "c", true, exp())
			a, b := w.Dial("A"), w.Dial("B")
			a.Version, b.Version = refmqtt.V5, refmqtt.V5
			for _, x := range []*harness.Client{a, b} {
				x := x
				vsched.Go("connect-"+x.Name, func() {
					x.Send(harness.ConnectPacket(harness.ConnectOpts{ClientID: "c", Clean: true, Version: refmqtt.V5, Props: exp()}))
				})
			}
			vsched.Settle()
			attached := 0
			for _, x := range []*harness.Client{old, a, b} {
				if !x.ClosedByBroker() && hasType(x, refmqtt.CONNACK) {
					attached++
				}
			}
			c15Answered(o, a, "CONNECT", hasType(a, refmqtt.CONNACK))
			c15Answered(o, b, "CONNECT", hasType(b, refmqtt.CONNACK))
			if attached > 1 {
				o.bad("one-connection", fmt.Sprintf("%d-connections-attached", attached), "")
			}
			for _, x := range []*harness.Client{old, a, b} {
				if !x.ClosedByBroker() {
					x.Send(&refmqtt.Packet{Type: refmqtt.PINGREQ})
				}
			}
			vsched.Settle()
			answers := 0
			for _, x := range []*harness.Client{old, a, b} {
				if hasType(x, refmqtt.PINGRESP) {
					answers++
				}
			}
			if answers > 1 {
				o.bad("one-connection", fmt.Sprintf("%d-connections-answer-ping", answers), "")
			}
			o.outcome = fmt.Sprint(attached, answers)
			c15Finish(o, w, []*harness.Client{old, a, b}, false)
		}},
		{"subscribe-publish-kill", func(o *c15Obs) {
			w := c15World(0)
			s := c15Connect(w, "S", "s", true, nil)
			p := c15Connect(w, "P", "p", true, nil)
			vsched.Go("subscribe", func() {
				s.Send(&refmqtt.Packet{Type: refmqtt.SUBSCRIBE, PacketID: 1, Subs: []refmqtt.Sub{{Filter: "t", QoS: 1}}})
			})
			vsched.Go("publish", func() {
				p.Send(&refmqtt.Packet{Type: refmqtt.PUBLISH, Topic: "t", QoS: 1, PacketID: 1, Payload: []byte("x")})
				p.Send(&refmqtt.Packet{Type: refmqtt.PUBLISH, Topic: "t", QoS: 1, PacketID: 2, Payload: []byte("y")})
			})
			vsched.Go("kill", func() { s.Close() })
			vsched.Settle()
			p.Pump()
			acks := 0
			for _, r := range p.Inbox {
				if r.P != nil && r.P.Type == refmqtt.PUBACK {
					acks++
				}
			}
			c15Answered(o, p, "PUBLISH-qos1", acks == 2)
			o.outcome = fmt.Sprint(acks)
			c15Finish(o, w, []*harness.Client{s, p}, false)
		}},
		{"qos2-flow-ack-disconnect", func(o *c15Obs) {
			w := c15World(0)
			s := c15Connect(w, "S", "s", true, nil)
			s.Subscribe(0, refmqtt.Sub{Filter: "t", QoS: 2})
			p := c15Connect(w, "P", "p", true, nil)
			vsched.Go("publisher", func() {
				p.Send(&refmqtt.Packet{Type: refmqtt.PUBLISH, Topic: "t", QoS: 2, PacketID: 7, Payload: []byte("x")})
				p.Send(&refmqtt.Packet{Type: refmqtt.PUBREL, PacketID: 7})
				p.Send(&refmqtt.Packet{Type: refmqtt.DISCONNECT})
			})
			vsched.Go("subscriber", func() {
				// acknowledge whatever id the broker will use first (1)
				s.Send(&refmqtt.Packet{Type: refmqtt.PUBREC, PacketID: 1})
				s.Send(&refmqtt.Packet{Type: refmqtt.PUBCOMP, PacketID: 1})
			})
			vsched.Settle()
			c15Answered(o, p, "PUBLISH-qos2", hasType(p, refmqtt.PUBREC))
			o.outcome = fmt.Sprint(hasType(p, refmqtt.PUBCOMP), hasType(s, refmqtt.PUBLISH))
			c15Finish(o, w, []*harness.Client{s, p}, false)
		}},
		{"stop-vs-connect-vs-publish", func(o *c15Obs) {
			w := c15World(0)
			s := c15Connect(w, "S", "s", true, nil)
			s.Subscribe(0, refmqtt.Sub{Filter: "t", QoS: 1})
			n := w.Dial("N")
			n.Version = refmqtt.V5
			vsched.Go("stop", func() {
				w.StopErr = w.Srv.Stop(context.Background())
				w.StopDone = true
			})
			vsched.Go("connect", func() {
				n.Send(harness.ConnectPacket(harness.ConnectOpts{ClientID: "n", Clean: true, Version: refmqtt.V5}))
			})
			vsched.Go("api-publish", func() {
				w.Srv.Publisher().Publish(&gmqtt.Message{Topic: "t", QoS: 1, Payload: []byte("x")})
			})
			vsched.Settle()
			// a connection accepted concurrently with Stop may legitimately survive a
			// moment; it must be closed at the latest when we close it ourselves
			if !n.ClosedByBroker() {
				n.Close()
				vsched.Settle()
			}
			o.outcome = fmt.Sprint(hasType(n, refmqtt.CONNACK), hasType(s, refmqtt.PUBLISH))
			c15Finish(o, w, []*harness.Client{s}, true)
		}},
		{"terminate-vs-reconnect-vs-sweeper", func(o *c15Obs) {
			w := c15World(0)
			x := c15Connect(w, "X", "x", true, &refmqtt.Props{SessionExpiry: harness.U32(10)})
			x.Subscribe(0, refmqtt.Sub{Filter: "t", QoS: 1})
			x.Close()
			vsched.Settle()
			vsched.Advance(19 * time.Second) // session is expired, sweeper ticks at 20s
			y := w.Dial("Y")
			y.Version = refmqtt.V5
			vsched.Go("terminate", func() { w.Srv.ClientService().TerminateSession("x") })
			vsched.Go("reconnect", func() {
				y.Send(harness.ConnectPacket(harness.ConnectOpts{ClientID: "x", Clean: false, Version: refmqtt.V5, Props: &refmqtt.Props{SessionExpiry: harness.U32(10)}}))
			})
			vsched.Go("clock", func() { vsched.FireNext(-1) })
			vsched.Settle()
			c15Answered(o, y, "CONNECT", hasType(y, refmqtt.CONNACK))
			o.outcome = fmt.Sprint(hasType(y, refmqtt.CONNACK), y.ClosedByBroker())
			c15Finish(o, w, []*harness.Client{y}, false)
		}},
		{"sweeper-vs-reconnect-of-an-expired-session", func(o *c15Obs) { c15Sweeper(o, true) }},
		{"reconnect-vs-sweeper-of-an-expired-session", func(o *c15Obs) { c15Sweeper(o, false) }},
		{"publish-vs-resumed-session-replaying-an-expired-inflight-message", func(o *c15Obs) { c15ResumeExpired(o, false) }},
		{"publish-when-the-resumed-session-is-acknowledged-replaying-an-expired-inflight-message", func(o *c15Obs) { c15ResumeExpired(o, true) }},
		{"api-publish-subscribe-stats-vs-client", func(o *c15Obs) {
			w := c15World(0)
			s := c15Connect(w, "S", "s", true, nil)
			p := c15Connect(w, "P", "p", true, nil)
			vsched.Go("api-publish", func() { w.Srv.Publisher().Publish(&gmqtt.Message{Topic: "t", QoS: 1, Payload: []byte("a")}) })
			vsched.Go("api-subscribe", func() {
				w.Srv.SubscriptionService().Subscribe("s", &gmqtt.Subscription{TopicFilter: "t", QoS: 1})
				w.Srv.SubscriptionService().UnsubscribeAll("s")
			})
			vsched.Go("stats", func() {
				w.Srv.StatsManager().GetGlobalStats()
				w.Srv.StatsManager().GetClientStats("s")
				w.Srv.ClientService().GetClient("s")
			})
			vsched.Go("client-publish", func() {
				p.Send(&refmqtt.Packet{Type: refmqtt.PUBLISH, Topic: "t", QoS: 1, PacketID: 3, Payload: []byte("b")})
			})
			vsched.Settle()
			c15Answered(o, p, "PUBLISH-qos1", hasType(p, refmqtt.PUBACK))
			s.Pump()
			n := 0
			for _, r := range s.Inbox {
				if r.P != nil && r.P.Type == refmqtt.PUBLISH {
					n++
				}
			}
			o.outcome = fmt.Sprint(n)
			c15Finish(o, w, []*harness.Client{s, p}, false)
		}},
		{"delayed-will-timer-vs-stop", func(o *c15Obs) {
			w := c15World(0)
			x := w.Dial("X")
			x.Connect(harness.ConnectOpts{ClientID: "x", Clean: true, Version: refmqtt.V5, Props: &refmqtt.Props{SessionExpiry: harness.U32(100)},
				Will: &harness.Will{Topic: "w", Payload: []byte("bye"), Props: &refmqtt.Props{WillDelay: harness.U32(5)}}})
			x.Close()
			vsched.Settle()
			vsched.Advance(4 * time.Second)
			vsched.Go("clock", func() { vsched.FireNext(-1) })
			vsched.Go("stop", func() {
				w.StopErr = w.Srv.Stop(context.Background())
				w.StopDone = true
			})
			vsched.Settle()
			o.outcome = "done"
			c15Finish(o, w, nil, true)
		}},
		{"stalled-reader-takeover-stop", func(o *c15Obs) {
			w := c15World(0)
			p := c15Connect(w, "P", "p", true, nil)
			st := w.DialCap("ST", 64)
			st.Connect(harness.ConnectOpts{ClientID: "st", Clean: true, Version: refmqtt.V5, Props: exp()})
			st.Subscribe(0, refmqtt.Sub{Filter: "t", QoS: 0})
			// fill the stalled client's socket: it never reads again
			// enough to fill the socket (64 bytes), the packet in the writer's hands and the
			// 8-slot outbound channel, so that the producer itself is parked on the channel
			for i := 0; i < 14; i++ {
				p.Send(&refmqtt.Packet{Type: refmqtt.PUBLISH, Topic: "t", Payload: []byte(strings.Repeat("z", 30))})
			}
			vsched.Settle()
			n := w.Dial("N")
			n.Version = refmqtt.V5
			vsched.Go("takeover", func() {
				n.Send(harness.ConnectPacket(harness.ConnectOpts{ClientID: "st", Clean: false, Version: refmqtt.V5, Props: exp()}))
			})
			vsched.Settle()
			c15Answered(o, n, "CONNECT(take-over of a stalled reader)", hasType(n, refmqtt.CONNACK))
			o.outcome = fmt.Sprint(hasType(n, refmqtt.CONNACK))
			c15Finish(o, w, []*harness.Client{p, n}, false)
		}},
		{"kill-with-full-inflight-window-then-reconnect", func(o *c15Obs) {
			w := c15World(2)
			s := c15Connect(w, "S", "s", true, exp())
			s.Subscribe(0, refmqtt.Sub{Filter: "t", QoS: 1})
			for i := 0; i < 4; i++ {
				w.Srv.Publisher().Publish(&gmqtt.Message{Topic: "t", QoS: 1, Payload: []byte(fmt.Sprint("m", i))})
			}
			vsched.Settle()
			vsched.Go("kill", func() { s.Close() })
			n := w.Dial("N")
			n.Version = refmqtt.V5
			vsched.Go("reconnect", func() {
				n.Send(harness.ConnectPacket(harness.ConnectOpts{ClientID: "s", Clean: false, Version: refmqtt.V5, Props: exp()}))
			})
			vsched.Settle()
			c15Answered(o, n, "CONNECT(after killing a client with a full window)", hasType(n, refmqtt.CONNACK))
			o.outcome = fmt.Sprint(hasType(n, refmqtt.CONNACK))
			c15Finish(o, w, []*harness.Client{n}, false)
		}},
	}
}

func runC15(c *explore.Ctx) {
	c.Level = "model_checking"
	c.Rule = "E3: stateless schedule search (DFS over the choice points of the cooperative scheduler: every mutex/cond/channel/select/waitgroup/once/atomic-flag/conn-I/O operation of the instrumented broker) of 13 concurrent scenarios (take-overs, a publish racing the resumption of a session whose full queue holds an expired in-flight message (limiter lock vs queue lock), session sweeper vs the reconnect of an expired session (both start orders), subscribe/publish/kill, QoS2 flow vs acks vs DISCONNECT, Stop vs CONNECT vs API publish, TerminateSession vs reconnect vs sweeper tick, API calls vs client publish, delayed-will timer vs Stop, stalled reader take-over, client killed with a full window), all schedules with <=1 (quick) / <=2 (thorough) deviations (a deviation demotes the running thread until all others are blocked; select alternatives are enumerated for free). After every execution: no panic, no deadlock, every request answered or its socket closed, Stop returns with listener and connections closed, Unload and OnStop exactly once, no broker goroutine alive. states = choice points visited, transitions = executions."
	c.Trusted = []string{"vsched: interleavings only at synchronisation operations (complete for data-race-free code); channel commit semantics as in the gc runtime", "memconn (no TCP RST modelling)"}
	c.Assumptions = []string{"data-race freedom cannot be decided by the schedule search (a cooperative scheduler's hand-offs are happens-before edges); it is watched by a separate free-running pass: the uninstrumented broker under the Go race detector, driven over loopback TCP by concurrent subscribers, publishers, take-overs, administrative calls and Stop (coverage.race_pass); that pass is a dynamic detector on the schedules that happened, not an exhaustive search"}
	bound := 1
	if !c.Quick() {
		bound = 2
	}
	c.Extra["deviation_bound"] = bound
	if rc := replayCase(c); rc != nil {
		name, _ := rc["scenario"].(string)
		for _, sc := range c15Scenarios() {
			if sc.name == name {
				obs := &c15Obs{}
				r, div := explore.RunPrefix(intsOf(rc["choices"]), nil, true, func() { *obs = c15Obs{}; sc.body(obs) })
				for _, l := range r.Log {
					fmt.Println(l)
				}
				fmt.Println("divergence:", div, "problems:", obs.problems, "panic:", firstLines(r.Panic, 8), "deadlock:", r.Deadlock, r.Parked)
			}
		}
		return
	}
	for _, sc := range c15Scenarios() {
		sc := sc
		obs := &c15Obs{}
		schedScenario(c, sc.name, bound, func() [][3]string { return obs.problems }, func() string { return obs.outcome }, func() { *obs = c15Obs{}; sc.body(obs) }, nil)
	}
	if !c.IsWorker() {
		c15RacePass(c)
	}
	c.Count("states", c.Get("choice_points"))
	c.Count("transitions", c.Get("executions"))
	c.Count("traces_validated_against_impl", c.Get("executions"))
	c.Sample(map[string]any{"scenarios": len(c15Scenarios()), "deviation_bound": bound})
}

// ---- free-running pass under the Go race detector

var raceFrame = regexp.MustCompile(`^  (\S.*)\(\)$`)

// c15RacePass runs the race-detector build of the uninstrumented broker (built by
// run.sh, path in VERIF_RACER) and turns every report into a violation.
func c15RacePass(c *explore.Ctx) {
	bin := os.Getenv("VERIF_RACER")
	if bin == "" {
		c.Extra["race_pass"] = "not run (race-detector build unavailable)"
		return
	}
	dir, err := os.MkdirTemp(filepath.Join(c.Verif, ".work"), "race-")
	if err != nil {
		c.Extra["race_pass"] = "not run: " + err.Error()
		return
	}
	defer os.RemoveAll(dir)
	rounds := 8
	if !c.Quick() {
		rounds = 60
	}
	cmd := exec.Command(bin, "-rounds", fmt.Sprint(rounds), "-out", filepath.Join(dir, "sum.json"))
	cmd.Env = append(os.Environ(), "GORACE=log_path="+filepath.Join(dir, "race")+" halt_on_error=0 exitcode=0 history_size=3", "GOMAXPROCS=8")
	done := make(chan error, 1)
	var out []byte
	go func() { var e error; out, e = cmd.CombinedOutput(); done <- e }()
	select {
	case err = <-done:
	case <-time.After(10 * time.Minute):
		cmd.Process.Kill()
		c.Extra["race_pass"] = "driver did not finish within 10 minutes (not judged)"
		return
	}
	sum := map[string]any{}
	if b, e := os.ReadFile(filepath.Join(dir, "sum.json")); e == nil {
		json.Unmarshal(b, &sum)
	} else {
		c.Extra["race_pass"] = fmt.Sprintf("driver failed: %v %s", err, trimTo(string(out), 300))
		return
	}
	reports := 0
	logs, _ := filepath.Glob(filepath.Join(dir, "race.*"))
	for _, lf := range logs {
		b, _ := os.ReadFile(lf)
		for _, blk := range strings.Split(string(b), "==================") {
			if !strings.Contains(blk, "WARNING: DATA RACE") {
				continue
			}
			reports++
			// first gmqtt frame of each of the two accesses
			var fns []string
			for _, part := range strings.Split(blk, "\n\n") {
				if !(strings.HasPrefix(strings.TrimSpace(part), "Write at") || strings.HasPrefix(strings.TrimSpace(part), "Read at") || strings.HasPrefix(strings.TrimSpace(part), "Previous write at") || strings.HasPrefix(strings.TrimSpace(part), "Previous read at") || strings.HasPrefix(strings.TrimSpace(part), "WARNING")) {
					continue
				}
				for _, l := range strings.Split(part, "\n") {
					if m := raceFrame.FindStringSubmatch(l); m != nil && strings.Contains(m[1], "DrmagicE/gmqtt") {
						fns = append(fns, strings.TrimPrefix(m[1], "github.com/DrmagicE/gmqtt/"))
						break
					}
				}
			}
			sort.Strings(fns)
			cl := "data-race:" + strings.Join(fns, "|")
			c.Violate("race-free", cl, map[string]any{"pass": "free-running race detector", "rounds": rounds}, "no report from the race detector", trimTo(blk, 1500))
		}
	}
	if n, _ := sum["stop_did_not_return"].(float64); n > 0 {
		// a wall-clock observation (20 s) of a free-running, race-instrumented broker on a machine
		// that may be loaded: recorded, not judged - "Stop returns" is decided by the schedule search
		c.Note("free-running pass: Stop had not returned after 20 s of wall-clock time in %v of %d rounds (not judged)", n, rounds)
	}
	sum["race_reports"] = reports
	c.Extra["race_pass"] = sum
}
