package checks

import (
	"fmt"
	"strings"
	"time"

	"github.com/DrmagicE/gmqtt/server"
	"github.com/DrmagicE/gmqtt/zzverif/vsched"

	"verif/explore"
	"verif/harness"
	"verif/refmqtt"
)

func init() { register("C12", runC12) }

type c12Case struct {
	pubVer byte
	subVer byte
	E      int64 // publisher expiry seconds, -1 absent
	M      int64 // configured maximum lifetime seconds, 0 none
	mode   int   // 0 online, 1 offline then reconnect, 2 window full, 3 offline, delivered unacknowledged, cut, resumed again 1.4s later
	W      int64 // waiting time in milliseconds
	qos    byte
}

var c12Modes = []string{"online", "offline-then-reconnect", "window-full", "retransmission-after-second-resume"}

const c12W2 = 1400 // ms between the unacknowledged first transmission and the resume that retransmits it

func (k c12Case) String() string {
	return fmt.Sprintf("pub-v%d sub-v%d E=%d M=%d mode=%s W=%dms q%d", k.pubVer, k.subVer, k.E, k.M, c12Modes[k.mode], k.W, k.qos)
}

// lifetime returns the message lifetime in seconds, -1 if it never expires.
func (k c12Case) lifetime() int64 {
	switch {
	case k.E > 0 && (k.M == 0 || k.E <= k.M):
		return k.E
	case k.M > 0:
		return k.M
	}
	return -1
}

func c12Run(c *explore.Ctx, k c12Case) {
	cas := func() any {
		return map[string]any{"case": k.String(), "pv": k.pubVer, "sv": k.subVer, "E": k.E, "M": k.M, "mode": k.mode, "Wms": k.W, "q": k.qos}
	}
	c.Count("executions", 1)
	c.Count("states", 1)
	execBody(c, "C12", cas, func() {
		cfg := harness.DefaultConfig()
		cfg.MQTT.MessageExpiry = time.Duration(k.M) * time.Second
		w := harness.NewWorld(cfg, server.Hooks{})
		if w.InitErr != nil {
			c.Fatal("init: %v", w.InitErr)
			return
		}
		p := w.Dial("P")
		p.Connect(harness.ConnectOpts{ClientID: "pub", Clean: true, Version: k.pubVer})
		connectS := func(name string, clean bool) *harness.Client {
			s := w.Dial(name)
			o := harness.ConnectOpts{ClientID: "sub", Clean: clean && k.subVer == refmqtt.V5, Version: k.subVer}
			if k.subVer == refmqtt.V5 {
				o.Props = &refmqtt.Props{SessionExpiry: harness.U32(7200)}
				if k.mode == 2 {
					o.Props.ReceiveMax = harness.U16(1)
				}
			}
			if ack := s.Connect(o); ack == nil || ack.Code != 0 {
				c.Fatal("C12: subscriber connect failed: %v", ack)
				return nil
			}
			return s
		}
		s := connectS("S1", true)
		if s == nil {
			return
		}
		s.Subscribe(0, refmqtt.Sub{Filter: "t", QoS: 1})
		publish := func(payload string, withExpiry bool) {
			pk := &refmqtt.Packet{Type: refmqtt.PUBLISH, Topic: "t", QoS: k.qos, Payload: []byte(payload)}
			if k.qos > 0 {
				pk.PacketID = p.PID()
			}
			if withExpiry && k.E >= 0 && k.pubVer == refmqtt.V5 {
				pk.Props = &refmqtt.Props{MessageExpiry: harness.U32(uint32(k.E))}
			}
			p.Send(pk)
			vsched.Settle()
			p.Recv()
		}
		var blocker *refmqtt.Packet
		switch k.mode {
		case 1, 3:
			s.Close()
			vsched.Settle()
		case 2:
			// fill the window with a message that is left unacknowledged
			pk := &refmqtt.Packet{Type: refmqtt.PUBLISH, Topic: "t", QoS: 1, PacketID: p.PID(), Payload: []byte("blocker")}
			p.Send(pk)
			vsched.Settle()
			p.Recv()
			for _, r := range s.Recv() {
				if r.P != nil && r.P.Type == refmqtt.PUBLISH {
					blocker = r.P
				}
			}
			if blocker == nil {
				c.Fatal("C12: blocker message not delivered")
				return
			}
		}
		publish("msg", true)
		if k.W > 0 {
			vsched.Advance(time.Duration(k.W) * time.Millisecond)
		}
		switch k.mode {
		case 1, 3:
			s = connectS("S2", false)
			if s == nil {
				return
			}
			vsched.Settle()
		case 2:
			s.Send(&refmqtt.Packet{Type: refmqtt.PUBACK, PacketID: blocker.PacketID})
			vsched.Settle()
		}
		var got []*refmqtt.Packet
		for _, r := range s.Recv() {
			if r.P != nil && r.P.Type == refmqtt.PUBLISH && string(r.P.Payload) == "msg" {
				got = append(got, r.P)
			}
		}
		L := k.lifetime()
		expired := L >= 0 && k.W > L*1000
		alive := L < 0 || k.W < L*1000 || k.W == 0
		wLo, wHi := k.W/1000, (k.W+999)/1000 // whole seconds waited, rounded down / up
		drops := 0
		for _, d := range w.Drops {
			if d.Payload == "msg" && strings.Contains(d.Err, "expired") {
				drops++
			}
		}
		capped := k.E > 0 && k.M > 0 && k.E > k.M
		switch {
		case expired:
			if len(got) != 0 {
				cl := "expired-message-delivered"
				if capped {
					cl += "-lifetime-above-configured-maximum"
				} else if k.E < 0 || k.pubVer != refmqtt.V5 {
					cl += "-configured-maximum-only"
				}
				c.Violate("expiry", cl+"-"+c12Modes[k.mode], cas(), "not delivered (lifetime "+fmt.Sprint(L)+"s, waited "+fmt.Sprint(k.W)+"ms)", got[0].String())
				return
			}
			if drops != 1 {
				c.Violate("drop-report", fmt.Sprintf("expired-message-reported-%d-times-%s", drops, c12Modes[k.mode]), cas(), "one OnMsgDropped(expired)", fmt.Sprint(w.Drops))
				return
			}
		case alive:
			if len(got) != 1 {
				c.Violate("expiry", fmt.Sprintf("live-message-delivered-%d-times-%s", len(got), c12Modes[k.mode]), cas(), "delivered once", fmt.Sprint(len(got), w.Drops))
				return
			}
			if drops != 0 {
				c.Violate("drop-report", "live-message-reported-dropped", cas(), "no drop", fmt.Sprint(w.Drops))
				return
			}
			if k.subVer == refmqtt.V5 && k.E > 0 && k.pubVer == refmqtt.V5 {
				pk := got[0]
				if pk.Props == nil || pk.Props.MessageExpiry == nil {
					c.Violate("remaining-lifetime", "property-absent-"+c12Modes[k.mode], cas(), fmt.Sprintf("Message Expiry Interval %d", k.E-wLo), "absent")
					return
				}
				v := int64(*pk.Props.MessageExpiry)
				// original minus the whole seconds waited; a wait with a fraction may be counted
				// down or up, but the forwarded value is never 0 and never ignores whole seconds
				ok := v == k.E-wLo || (v == k.E-wHi && v >= 1) || (capped && (v == k.M-wLo || (v == k.M-wHi && v >= 1)))
				if !ok {
					cl := "wrong-value"
					if v == wLo && wLo > 0 {
						cl = "value-is-elapsed-time"
					} else if v > k.E {
						cl = "value-above-original"
					} else if v > k.E-wLo {
						cl = "value-ignores-whole-seconds-waited"
					}
					if k.W%1000 != 0 {
						cl += "-fractional-wait"
					}
					c.Violate("remaining-lifetime", cl+"-"+c12Modes[k.mode], cas(), fmt.Sprintf("%d (or %d)", k.E-wLo, k.E-wHi), fmt.Sprint(v))
					return
				}
			}
		}
		if k.mode == 3 && len(got) == 1 && got[0].QoS > 0 {
			// the first transmission stays unacknowledged; the connection is cut and the session
			// resumed again: the retransmission has waited W + c12W2 in all
			s.Close()
			vsched.Settle()
			vsched.Advance(c12W2 * time.Millisecond)
			s = connectS("S3", false)
			if s == nil {
				return
			}
			vsched.Settle()
			var re []*refmqtt.Packet
			for _, r := range s.Recv() {
				if r.P != nil && r.P.Type == refmqtt.PUBLISH && string(r.P.Payload) == "msg" {
					re = append(re, r.P)
				}
			}
			if len(re) != 1 || !re[0].Dup {
				c.Violate("expiry", fmt.Sprintf("unacknowledged-live-message-retransmitted-%d-times", len(re)), cas(), "one DUP retransmission", pktStrs(re))
				return
			}
			if k.subVer == refmqtt.V5 && k.E > 0 && k.pubVer == refmqtt.V5 {
				if re[0].Props == nil || re[0].Props.MessageExpiry == nil {
					c.Violate("remaining-lifetime", "property-absent-on-retransmission", cas(), "Message Expiry Interval", "absent")
					return
				}
				v := int64(*re[0].Props.MessageExpiry)
				total := k.W + c12W2
				lo, hi := k.E-(total+999)/1000, k.E-wLo // counted up to now ... as at the first transmission
				if capped {
					lo = k.M - (total+999)/1000
				}
				if v < lo || v > hi || v < 1 {
					cl := "retransmission-value-below-original-minus-time-waited"
					if v > hi {
						cl = "retransmission-value-above-first-transmission"
					}
					c.Violate("remaining-lifetime", cl, cas(), fmt.Sprintf("%d..%d", lo, hi), fmt.Sprint(v))
					return
				}
			}
		}
		if s.ClosedByBroker() {
			c.Violate("connection-kept", "subscriber-disconnected", cas(), "open", fmt.Sprint(w.Closeds))
		}
		swallowedPanic(c, w, cas)
	})
}

// ---- backlog: several messages with different lifetimes wait together

type c12Backlog struct {
	subVer byte
	M      int64   // configured maximum lifetime, 0 none
	Es     []int64 // publisher expiry per message (-1 absent)
	gap    int64   // ms between consecutive publishes
	W      int64   // ms waited after the last publish
	mode   int     // 1 offline then reconnect, 2 window full
	redis  bool    // redis persistence backend (over the in-process RESP server) instead of memory
}

func (k c12Backlog) String() string {
	be := "mem"
	if k.redis {
		be = "redis"
	}
	return fmt.Sprintf("backlog[%s] sub-v%d M=%d E=%v gap=%dms W=%dms mode=%s", be, k.subVer, k.M, k.Es, k.gap, k.W, c12Modes[k.mode])
}

func c12Life(E, M int64) int64 {
	return c12Case{E: E, M: M}.lifetime()
}

// waited returns how long message i has waited when the backlog is released.
func (k c12Backlog) waited(i int) int64 { return k.W + int64(len(k.Es)-1-i)*k.gap }

// decidable: no message is within 300 ms of its deadline
func (k c12Backlog) decidable() bool {
	for i, E := range k.Es {
		if L := c12Life(E, k.M); L >= 0 {
			d := k.waited(i) - L*1000
			if d < 300 && d > -300 {
				return false
			}
			// the redis queue stores deadlines as whole Unix seconds (truncated): a message may
			// expire up to a second early there, which the statement does not exclude
			if k.redis && d < 300 && d > -1300 {
				return false
			}
		}
	}
	return true
}

func c12RunBacklog(c *explore.Ctx, k c12Backlog) {
	cas := func() any {
		return map[string]any{"case": k.String(), "backlog": true, "sv": k.subVer, "M": k.M, "Es": k.Es, "gap": k.gap, "Wms": k.W, "mode": k.mode, "redis": k.redis}
	}
	c.Count("executions", 1)
	c.Count("states", 1)
	var rd *harness.Respd
	db := 0
	if k.redis {
		if rd, db = c09DB(c, nil); rd == nil {
			return
		}
		defer rd.DropDB(db)
	}
	execBody(c, "C12", cas, func() {
		cfg := harness.DefaultConfig()
		if k.redis {
			cfg = c09Config(rd.Addr(), db)
		}
		cfg.MQTT.MessageExpiry = time.Duration(k.M) * time.Second
		w := harness.NewWorld(cfg, server.Hooks{})
		if w.InitErr != nil {
			c.Fatal("init: %v", w.InitErr)
			return
		}
		p := w.Dial("P")
		p.Connect(harness.ConnectOpts{ClientID: "pub", Clean: true, Version: refmqtt.V5})
		connectS := func(name string, clean bool) *harness.Client {
			s := w.Dial(name)
			o := harness.ConnectOpts{ClientID: "sub", Clean: clean && k.subVer == refmqtt.V5, Version: k.subVer}
			if k.subVer == refmqtt.V5 {
				o.Props = &refmqtt.Props{SessionExpiry: harness.U32(7200)}
				if k.mode == 2 {
					o.Props.ReceiveMax = harness.U16(1)
				}
			}
			if ack := s.Connect(o); ack == nil || ack.Code != 0 {
				c.Fatal("C12: subscriber connect failed: %v", ack)
				return nil
			}
			return s
		}
		s := connectS("S1", true)
		if s == nil {
			return
		}
		s.Subscribe(0, refmqtt.Sub{Filter: "t", QoS: 1})
		var blocker *refmqtt.Packet
		if k.mode == 1 {
			s.Close()
			vsched.Settle()
		} else {
			p.Send(&refmqtt.Packet{Type: refmqtt.PUBLISH, Topic: "t", QoS: 1, PacketID: p.PID(), Payload: []byte("blocker")})
			vsched.Settle()
			p.Recv()
			for _, r := range s.Recv() {
				if r.P != nil && r.P.Type == refmqtt.PUBLISH {
					blocker = r.P
				}
			}
			if blocker == nil {
				c.Fatal("C12: blocker message not delivered")
				return
			}
		}
		for i, E := range k.Es {
			pk := &refmqtt.Packet{Type: refmqtt.PUBLISH, Topic: "t", QoS: 1, PacketID: p.PID(), Payload: []byte(fmt.Sprintf("m%d", i))}
			if E >= 0 {
				pk.Props = &refmqtt.Props{MessageExpiry: harness.U32(uint32(E))}
			}
			p.Send(pk)
			vsched.Settle()
			p.Recv()
			if i < len(k.Es)-1 && k.gap > 0 {
				vsched.Advance(time.Duration(k.gap) * time.Millisecond)
			}
		}
		vsched.Advance(time.Duration(k.W) * time.Millisecond)
		if k.mode == 1 {
			if s = connectS("S2", false); s == nil {
				return
			}
			vsched.Settle()
		} else {
			s.Send(&refmqtt.Packet{Type: refmqtt.PUBACK, PacketID: blocker.PacketID})
			vsched.Settle()
		}
		// acknowledge everything that arrives until nothing more comes (window 1 in mode 2)
		var got []*refmqtt.Packet
		for round := 0; round < len(k.Es)+2; round++ {
			rs := s.Recv()
			if len(rs) == 0 {
				break
			}
			for _, r := range rs {
				if r.P != nil && r.P.Type == refmqtt.PUBLISH && r.P.QoS > 0 {
					if string(r.P.Payload) != "blocker" {
						got = append(got, r.P)
					}
					s.Send(&refmqtt.Packet{Type: refmqtt.PUBACK, PacketID: r.P.PacketID})
				}
			}
			vsched.Settle()
		}
		var want []string
		for i, E := range k.Es {
			L := c12Life(E, k.M)
			name := fmt.Sprintf("m%d", i)
			drops := 0
			for _, d := range w.Drops {
				if d.Payload == name && strings.Contains(d.Err, "expired") {
					drops++
				}
			}
			if L >= 0 && k.waited(i) > L*1000 {
				if drops != 1 {
					c.Violate("drop-report", fmt.Sprintf("backlog-expired-message-reported-%d-times", drops), cas(), "one OnMsgDropped(expired) for "+name, fmt.Sprint(w.Drops))
					return
				}
				continue
			}
			if drops != 0 {
				c.Violate("drop-report", "backlog-live-message-reported-dropped", cas(), "no drop for "+name, fmt.Sprint(w.Drops))
				return
			}
			want = append(want, name)
		}
		var gotN []string
		for _, g := range got {
			gotN = append(gotN, string(g.Payload))
		}
		if strings.Join(gotN, " ") != strings.Join(want, " ") {
			cl := "backlog-deliveries-differ"
			for _, g := range gotN {
				live := false
				for _, x := range want {
					live = live || x == g
				}
				if !live {
					cl = "backlog-expired-message-delivered"
				}
			}
			if cl == "backlog-deliveries-differ" && len(gotN) < len(want) {
				cl = "backlog-live-message-not-delivered"
			}
			c.Violate("expiry", cl, cas(), strings.Join(want, " "), strings.Join(gotN, " ")+" drops "+fmt.Sprint(w.Drops))
			return
		}
		if k.subVer == refmqtt.V5 {
			for _, g := range got {
				var i int
				fmt.Sscanf(string(g.Payload), "m%d", &i)
				E := k.Es[i]
				if E <= 0 {
					if g.Props != nil && g.Props.MessageExpiry != nil && E < 0 && k.M == 0 {
						c.Violate("remaining-lifetime", "backlog-property-invented", cas(), "absent", fmt.Sprint(*g.Props.MessageExpiry))
						return
					}
					continue
				}
				if g.Props == nil || g.Props.MessageExpiry == nil {
					c.Violate("remaining-lifetime", "backlog-property-absent", cas(), "present for "+string(g.Payload), "absent")
					return
				}
				v := int64(*g.Props.MessageExpiry)
				wd := k.waited(i)
				wLo, wHi := wd/1000, (wd+999)/1000
				capped := k.M > 0 && E > k.M
				ok := v == E-wLo || (v == E-wHi && v >= 1) || (capped && (v == k.M-wLo || (v == k.M-wHi && v >= 1)))
				if !ok {
					cl := "backlog-wrong-value"
					if v > E {
						cl = "backlog-value-above-original"
					} else if v > E-wLo {
						cl = "backlog-value-ignores-whole-seconds-waited"
					}
					c.Violate("remaining-lifetime", cl, cas(), fmt.Sprintf("%s: %d (or %d)", g.Payload, E-wLo, E-wHi), fmt.Sprint(v))
					return
				}
			}
		}
		if s.ClosedByBroker() {
			c.Violate("connection-kept", "subscriber-disconnected", cas(), "open", fmt.Sprint(w.Closeds))
		}
		swallowedPanic(c, w, cas)
	})
}

// c12Retained: a retained message with an expiry interval is replayed to a new
// subscription whose in-flight window is full, waits W in the session queue and is then
// released.  Only intervals not above the configured maximum are generated (whether the cap
// also applies to a replayed retained message is not something the statement settles).
func c12Retained(c *explore.Ctx, E, M, W int64) {
	cas := func() any {
		return map[string]any{"case": fmt.Sprintf("retained message E=%d replayed at SUBSCRIBE behind a full window, M=%d, W=%dms", E, M, W), "retained": true, "E": E, "M": M, "Wms": W}
	}
	c.Count("executions", 1)
	c.Count("states", 1)
	execBody(c, "C12", cas, func() {
		cfg := harness.DefaultConfig()
		cfg.MQTT.MessageExpiry = time.Duration(M) * time.Second
		w := harness.NewWorld(cfg, server.Hooks{})
		if w.InitErr != nil {
			c.Fatal("init: %v", w.InitErr)
			return
		}
		p := w.Dial("P")
		p.Connect(harness.ConnectOpts{ClientID: "pub", Clean: true, Version: refmqtt.V5})
		s := w.Dial("S")
		s.Connect(harness.ConnectOpts{ClientID: "sub", Clean: true, Version: refmqtt.V5, Props: &refmqtt.Props{SessionExpiry: harness.U32(7200), ReceiveMax: harness.U16(1)}})
		s.Subscribe(0, refmqtt.Sub{Filter: "t", QoS: 1})
		p.Send(&refmqtt.Packet{Type: refmqtt.PUBLISH, Topic: "t", QoS: 1, PacketID: p.PID(), Payload: []byte("blocker")})
		vsched.Settle()
		p.Recv()
		var blocker *refmqtt.Packet
		for _, r := range s.Recv() {
			if r.P != nil && r.P.Type == refmqtt.PUBLISH {
				blocker = r.P
			}
		}
		if blocker == nil {
			c.Fatal("C12: blocker message not delivered")
			return
		}
		p.Send(&refmqtt.Packet{Type: refmqtt.PUBLISH, Topic: "r", QoS: 1, Retain: true, PacketID: p.PID(), Payload: []byte("kept"), Props: &refmqtt.Props{MessageExpiry: harness.U32(uint32(E))}})
		vsched.Settle()
		p.Recv()
		s.Subscribe(0, refmqtt.Sub{Filter: "r", QoS: 1})
		vsched.Advance(time.Duration(W) * time.Millisecond)
		s.Send(&refmqtt.Packet{Type: refmqtt.PUBACK, PacketID: blocker.PacketID})
		vsched.Settle()
		var got []*refmqtt.Packet
		for _, r := range s.Recv() {
			if r.P != nil && r.P.Type == refmqtt.PUBLISH && string(r.P.Payload) == "kept" {
				got = append(got, r.P)
			}
		}
		drops := 0
		for _, d := range w.Drops {
			if d.Payload == "kept" && strings.Contains(d.Err, "expired") {
				drops++
			}
		}
		if W > E*1000 {
			if len(got) != 0 {
				c.Violate("expiry", "expired-retained-message-delivered-from-the-queue", cas(), "not delivered", got[0].String())
			} else if drops != 1 {
				c.Violate("drop-report", fmt.Sprintf("expired-retained-message-reported-%d-times", drops), cas(), "one OnMsgDropped(expired)", fmt.Sprint(w.Drops))
			}
			return
		}
		if len(got) != 1 || drops != 0 {
			c.Violate("expiry", fmt.Sprintf("live-retained-message-delivered-%d-times", len(got)), cas(), "delivered once, no drop", fmt.Sprint(len(got), w.Drops))
			return
		}
		if got[0].Props == nil || got[0].Props.MessageExpiry == nil {
			c.Violate("remaining-lifetime", "property-absent-on-replayed-retained-message", cas(), "present", "absent")
			return
		}
		v := int64(*got[0].Props.MessageExpiry)
		wLo, wHi := W/1000, (W+999)/1000
		if !(v == E-wLo || (v == E-wHi && v >= 1)) {
			c.Violate("remaining-lifetime", "wrong-value-on-replayed-retained-message", cas(), fmt.Sprintf("%d (or %d)", E-wLo, E-wHi), fmt.Sprint(v))
		}
	})
}

func c12Backlogs(c *explore.Ctx) []c12Backlog {
	var out []c12Backlog
	maxN := 3
	if !c.Quick() {
		maxN = 4
	}
	alpha := []int64{-1, 2, 5, 100}
	var seqs [][]int64
	var rec func(cur []int64)
	rec = func(cur []int64) {
		if len(cur) >= 2 {
			seqs = append(seqs, append([]int64{}, cur...))
		}
		if len(cur) == maxN {
			return
		}
		for _, e := range alpha {
			rec(append(cur, e))
		}
	}
	rec(nil)
	for _, sv := range []byte{refmqtt.V5, refmqtt.V311} {
		for _, M := range []int64{0, 3} {
			for _, mode := range []int{1, 2} {
				if mode == 2 && sv != refmqtt.V5 {
					continue
				}
				for _, es := range seqs {
					for _, gap := range []int64{0, 700} {
						for _, W := range []int64{600, 2600, 3900, 5600, 31000} {
							k := c12Backlog{subVer: sv, M: M, Es: es, gap: gap, W: W, mode: mode}
							if k.decidable() {
								out = append(out, k)
							}
							if sv == refmqtt.V5 && (len(es) <= 2 || !c.Quick()) {
								k.redis = true
								if k.decidable() {
									out = append(out, k)
								}
							}
						}
					}
				}
			}
		}
	}
	return out
}

func runC12(c *explore.Ctx) {
	c.Level = "model_checking"
	c.Rule = "E2 (virtual clock): the full grid publisher version x subscriber version x Message Expiry Interval {absent,2,5,100} x configured maximum {none,3s,10s} x waiting mode {online, offline then reconnect, in-flight window full, offline then delivered-unacknowledged then cut and resumed again (the DUP retransmission must carry a value between original minus everything waited and the value of the first transmission)} x waiting time {0, 0.6s, 1.4s, L-1, L-0.6s, L-0.4s, L+0.4s, L+1, L+30} (L = lifetime) x QoS, each on a fresh in-process broker: after the wait the message must be delivered exactly once (W < L) with Message Expiry Interval = original - whole seconds waited (a fraction may count down or up, never to 0), or not delivered and reported dropped as expired exactly once (W > L). Backlog: every sequence of 2..3 (thorough 4) messages over Message Expiry Interval {absent,2,5,100} published 0 / 0.7 s apart to an offline subscriber (v5, v3.1.1) or behind a full in-flight window, configured maximum {none,3s}, released after {0.6,2.6,3.9,5.6,31}s, on the memory backend and (v5 subscriber; quick: sequences of 2) on the redis backend (cases with a message within 0.3 s of its deadline are not generated): exactly the live messages arrive, in order, each with its own remaining lifetime, and every expired one is reported dropped exactly once. Retained: a retained message with interval {2,5} (configured maximum none / 10 s) replayed to a new subscription behind a full window and released after 8 waiting times. states = grid points."
	c.Trusted = []string{"vsched virtual clock", "refmqtt codec"}
	c.Assumptions = []string{"for E above the configured maximum both E-W and M-W are accepted as forwarded value", "W == L (the boundary instant) is not generated"}
	if rc := replayCase(c); rc != nil {
		if rc["retained"] != nil {
			c12Retained(c, int64(rc["E"].(float64)), int64(rc["M"].(float64)), int64(rc["Wms"].(float64)))
			return
		}
		if rc["backlog"] != nil {
			var es []int64
			for _, e := range rc["Es"].([]any) {
				es = append(es, int64(e.(float64)))
			}
			c12RunBacklog(c, c12Backlog{byte(rc["sv"].(float64)), int64(rc["M"].(float64)), es, int64(rc["gap"].(float64)), int64(rc["Wms"].(float64)), int(rc["mode"].(float64)), rc["redis"] == true})
			return
		}
		c12Run(c, c12Case{byte(rc["pv"].(float64)), byte(rc["sv"].(float64)), int64(rc["E"].(float64)), int64(rc["M"].(float64)), int(rc["mode"].(float64)), int64(rc["Wms"].(float64)), byte(rc["q"].(float64))})
		return
	}
	var cases []c12Case
	for _, pv := range []byte{refmqtt.V5, refmqtt.V311} {
		for _, sv := range []byte{refmqtt.V5, refmqtt.V311} {
			for _, E := range []int64{-1, 2, 5, 100} {
				if pv != refmqtt.V5 && E >= 0 {
					continue
				}
				for _, M := range []int64{0, 3, 10} {
					for mode := 0; mode < 4; mode++ {
						if mode == 2 && sv != refmqtt.V5 {
							continue
						}
						for _, q := range []byte{0, 1} {
							if q == 0 && mode != 0 {
								continue
							}
							k := c12Case{pubVer: pv, subVer: sv, E: E, M: M, mode: mode, qos: q}
							L := k.lifetime()
							ws := []int64{0}
							if mode != 0 {
								if L >= 0 {
									ws = []int64{0, 600, 1400, (L - 1) * 1000, L*1000 - 600, L*1000 - 400, L*1000 + 400, (L + 1) * 1000, (L + 30) * 1000}
								} else {
									ws = []int64{0, 600, 30000}
								}
							}
							if mode == 3 {
								if L >= 0 && L < 5 {
									continue
								}
								ws = []int64{0, 1400, 2000}
							}
							seenW := map[int64]bool{}
							for _, W := range ws {
								if W < 0 || seenW[W] {
									continue
								}
								seenW[W] = true
								k.W = W
								cases = append(cases, k)
							}
						}
					}
				}
			}
		}
	}
	c.Extra["grid_points"] = len(cases)
	c.Units("grid", len(cases), func(u int) {
		c12Run(c, cases[u])
		c.Count("transitions", 1)
		if u%61 == 0 {
			c.Sample(cases[u].String())
		}
	})
	if !c.IsWorker() {
		for _, E := range []int64{2, 5} {
			for _, M := range []int64{0, 10} {
				for _, W := range []int64{0, 600, 1400, E*1000 - 600, E*1000 + 400, E*1000 + 1400, 8000, 30000} {
					c12Retained(c, E, M, W)
					c.Count("transitions", 1)
				}
			}
		}
	}
	bl := c12Backlogs(c)
	c.Extra["backlog_cases"] = len(bl)
	c.Units("backlog", len(bl), func(u int) {
		c12RunBacklog(c, bl[u])
		c.Count("transitions", int64(len(bl[u].Es)))
		if u%997 == 0 {
			c.Sample(bl[u].String())
		}
	})
	c.Count("traces_validated_against_impl", c.Get("executions"))
}
