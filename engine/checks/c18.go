package checks

import (
	"bytes"
	"fmt"
	"strings"

	"github.com/DrmagicE/gmqtt/server"
	"github.com/DrmagicE/gmqtt/zzverif/vsched"

	"verif/explore"
	"verif/harness"
	"verif/refmqtt"
)

func init() { register("C18", runC18) }

type wsMsg struct {
	size int
	text bool
}

// c18ReadCase feeds msgs (binary unless text) and reads with the cyclic read-size
// pattern until an error; returns what was read.
func c18ReadCase(c *explore.Ctx, msgs []wsMsg, reads []int) {
	cas := func() any {
		var ms []string
		for _, m := range msgs {
			if m.text {
				ms = append(ms, fmt.Sprintf("text(%d)", m.size))
			} else {
				ms = append(ms, fmt.Sprintf("bin(%d)", m.size))
			}
		}
		return map[string]any{"messages": ms, "read_sizes": reads}
	}
	c.Count("evaluations", 1)
	cli, srvc := harness.Pipe("ws", 1<<22)
	ws, err := server.VerifNewWSConn(srvc)
	if err != nil {
		c.Fatal("C18: upgrade failed: %v", err)
		return
	}
	cli.TakeAll() // HTTP 101 response
	var want []byte
	counter := byte(1)
	textAt := -1
	for i, m := range msgs {
		p := make([]byte, m.size)
		for j := range p {
			p[j] = counter
			counter++
			if counter == 0 {
				counter = 1
			}
		}
		op := byte(harness.WSBinary)
		if m.text {
			op = harness.WSText
			if textAt < 0 {
				textAt = len(want)
			}
			for j := range p {
				p[j] = 'a' + p[j]%26
			}
		} else if textAt < 0 {
			want = append(want, p...)
		}
		cli.Write(harness.WSClientFrame(op, p, true, [4]byte{1, 2, 3, byte(i)}))
	}
	cli.Close()
	var got []byte
	var rerr error
	buf := make([]byte, 8192)
	zero := 0
	for i := 0; ; i++ {
		sz := reads[i%len(reads)]
		n, e := ws.Read(buf[:sz])
		got = append(got, buf[:n]...)
		if len(got) > len(want)+4096 || i > 4*len(want)+1000 {
			c.Violate("read-stream", "reader-never-ends", cas(), fmt.Sprintf("%d bytes then an error", len(want)), fmt.Sprintf("%d bytes after %d reads and still no error", len(got), i))
			return
		}
		if e != nil {
			rerr = e
			break
		}
		if n == 0 {
			zero++
			if zero > 50 {
				c.Violate("read-stream", "no-progress", cas(), "data or error", "more than 50 consecutive (0,nil) reads")
				return
			}
		} else {
			zero = 0
		}
	}
	if len(want) > 1 {
		c.Count("distinct_nontrivial", 1)
	}
	if !bytes.Equal(got, want) {
		c.Violate("read-stream", c18Class(got, want, msgs, reads), cas(), fmt.Sprintf("%d bytes %x", len(want), trimBytes(want)), fmt.Sprintf("%d bytes %x", len(got), trimBytes(got)))
		return
	}
	if textAt >= 0 && rerr != server.ErrInvalWsMsgType {
		c.Violate("text-rejected", "text-message-not-rejected", cas(), server.ErrInvalWsMsgType.Error(), fmt.Sprint(rerr))
	}
}

func trimBytes(b []byte) []byte {
	if len(b) > 24 {
		return b[:24]
	}
	return b
}

// c18Class: which byte is the first to go wrong, relative to message ends.
func c18Class(got, want []byte, msgs []wsMsg, reads []int) string {
	i := 0
	for i < len(got) && i < len(want) && got[i] == want[i] {
		i++
	}
	// position of i relative to its message
	off := 0
	for _, m := range msgs {
		if m.text {
			break
		}
		if i < off+m.size {
			if i == off+m.size-1 {
				if len(got) < len(want) {
					return "last-byte-of-message-dropped"
				}
				return "last-byte-of-message-wrong"
			}
			if len(got) > len(want) {
				return "bytes-duplicated-inside-message"
			}
			return "bytes-lost-inside-message"
		}
		off += m.size
	}
	if len(got) > len(want) {
		return "extra-bytes-at-end"
	}
	return "truncated-at-end"
}

func c18Write(c *explore.Ctx, sizes []int) {
	cas := func() any { return map[string]any{"write_sizes": sizes} }
	c.Count("evaluations", 1)
	c.Count("distinct_nontrivial", 1)
	cli, srvc := harness.Pipe("ws", 1<<22)
	ws, err := server.VerifNewWSConn(srvc)
	if err != nil {
		c.Fatal("C18: upgrade failed: %v", err)
		return
	}
	var want []byte
	b := byte(1)
	for _, sz := range sizes {
		p := make([]byte, sz)
		for j := range p {
			p[j] = b
			b++
		}
		want = append(want, p...)
		n, err := ws.Write(p)
		if err != nil || n != sz {
			c.Violate("write-stream", "write-error", cas(), fmt.Sprint(sz, " nil"), fmt.Sprint(n, err))
			return
		}
	}
	raw, ok := harness.SkipHTTPResponse(cli.TakeAll())
	if !ok {
		c.Fatal("C18: no HTTP response head")
		return
	}
	frames, rest, err := harness.WSParseFrames(raw)
	if err != nil || len(rest) != 0 {
		c.Violate("write-stream", "unparseable-frames", cas(), "complete frames", fmt.Sprint(err, len(rest)))
		return
	}
	var got []byte
	for _, f := range frames {
		if f.Opcode != harness.WSBinary && !(f.Opcode == 0) {
			c.Violate("write-stream", fmt.Sprintf("non-binary-frame-opcode-%d", f.Opcode), cas(), "binary frames", fmt.Sprint(f.Opcode))
			return
		}
		if f.Masked {
			c.Violate("write-stream", "masked-server-frame", cas(), "unmasked", "masked")
			return
		}
		got = append(got, f.Payload...)
	}
	if !bytes.Equal(got, want) {
		c.Violate("write-stream", "bytes-differ", cas(), fmt.Sprint(len(want)), fmt.Sprint(len(got)))
	}
}

func runC18(c *explore.Ctx) {
	c.Level = "exploration"
	c.Rule = "E5: every sequence of <=3 binary websocket messages with sizes 0..6 x every cyclic pattern of <=3 Read sizes 1..7, plus boundary message sizes around the 1024-byte bufio reader x boundary read sizes, plus a text message (0, 1, 4 bytes) after every sequence of <=2 binary messages of 0, 1, 3 bytes (empty ones included), fed through the broker's real upgrader and wsConn adapter (frames built by an independent RFC 6455 framer); concatenation of reads must equal concatenation of binary payloads; writes must come out as unmasked binary frames whose concatenation is the written stream. Broker scope: a valid MQTT stream (CONNECT, SUBSCRIBE, 3 PUBLISH incl. a 1100-byte one, PINGREQ) through the real websocket handler and a real broker under every single cut, every pair of cuts in the first 24/40 bytes, one-byte messages, 1023/1024/1025-byte messages, and packed messages larger than a small max_packet_size: the replies must be exactly CONNACK, SUBACK, the echoed publishes and PINGRESP in binary frames. distinct_nontrivial = cases with more than one payload byte."
	c.Trusted = []string{"harness RFC 6455 framer/parser", "in-memory conn"}
	var msgSeqs [][]wsMsg
	var rec func(cur []wsMsg)
	rec = func(cur []wsMsg) {
		if len(cur) > 0 {
			msgSeqs = append(msgSeqs, append([]wsMsg{}, cur...))
		}
		if len(cur) == 3 {
			return
		}
		for s := 0; s <= 6; s++ {
			rec(append(cur, wsMsg{size: s}))
		}
	}
	rec(nil)
	var readPats [][]int
	var rec2 func(cur []int)
	rec2 = func(cur []int) {
		if len(cur) > 0 {
			readPats = append(readPats, append([]int{}, cur...))
		}
		if len(cur) == 3 {
			return
		}
		for s := 1; s <= 7; s++ {
			rec2(append(cur, s))
		}
	}
	rec2(nil)
	if c.Quick() {
		// quick: read patterns of length <=2
		var rp [][]int
		for _, p := range readPats {
			if len(p) <= 2 {
				rp = append(rp, p)
			}
		}
		readPats = rp
	}
	c.Units("small", len(msgSeqs), func(u int) {
		for _, rp := range readPats {
			c18ReadCase(c, msgSeqs[u], rp)
		}
		if u%97 == 0 {
			c.Sample(map[string]any{"message_sizes": msgSeqs[u], "read_patterns": len(readPats)})
		}
	})
	big := []int{1, 2, 1023, 1024, 1025, 1026, 2047, 2048, 2049, 4096, 4097}
	rs := []int{1, 2, 511, 512, 1023, 1024, 1025, 4096}
	type bc struct {
		msgs  []wsMsg
		reads []int
	}
	var bcs []bc
	for _, a := range big {
		for _, r := range rs {
			bcs = append(bcs, bc{[]wsMsg{{size: a}}, []int{r}})
			for _, b := range big {
				bcs = append(bcs, bc{[]wsMsg{{size: a}, {size: b}}, []int{r}})
			}
		}
		for _, r1 := range rs {
			for _, r2 := range rs {
				bcs = append(bcs, bc{[]wsMsg{{size: a}, {size: 3}}, []int{r1, r2}})
			}
		}
	}
	// text messages at every position among small binary ones
	pres := [][]wsMsg{nil, {{size: 2}, {size: 5}}}
	for _, a := range []int{0, 1, 3} {
		pres = append(pres, []wsMsg{{size: a}})
		for _, b := range []int{0, 1, 3} {
			pres = append(pres, []wsMsg{{size: a}, {size: b}})
		}
	}
	for _, pre := range pres {
		for _, ts := range []int{0, 1, 4} {
			for _, r := range []int{1, 2, 7, 1024} {
				bcs = append(bcs, bc{append(append([]wsMsg{}, pre...), wsMsg{size: ts, text: true}, wsMsg{size: 2}), []int{r}})
			}
		}
	}
	c.Units("boundary", len(bcs), func(u int) {
		c18ReadCase(c, bcs[u].msgs, bcs[u].reads)
	})
	ws := [][]int{{0}, {1}, {125}, {126}, {127}, {1024}, {4095}, {4096}, {4097}, {16383}, {16384}, {16385}, {32767}, {32768}, {32769}, {40000}, {49152}, {49153}, {65535}, {65536}, {65537}, {100000}, {1 << 20}, {1, 126, 3}, {1024, 1024, 1}, {0, 5, 0}, {70000, 1, 70000}}
	c.Units("write", len(ws), func(u int) { c18Write(c, ws[u]) })
	c18BrokerAll(c)
}

// ---- broker scope: a valid MQTT stream through the real websocket handler under
// many segmentations into binary messages

// c18Huge, when non-zero, replaces the third payload size of the "big" stream (forwarded
// publishes far larger than any internal buffer of the adapter)
var c18Huge int

func c18Stream(big bool) (stream []byte, wantTypes []string) {
	add := func(p *refmqtt.Packet) { p.Version = refmqtt.V5; stream = append(stream, refmqtt.Encode(p)...) }
	add(harness.ConnectPacket(harness.ConnectOpts{ClientID: "wsc", Clean: true, Version: refmqtt.V5}))
	add(&refmqtt.Packet{Type: refmqtt.SUBSCRIBE, PacketID: 1, Subs: []refmqtt.Sub{{Filter: "t", QoS: 0}}})
	sizes := []int{0, 10, 100}
	if big {
		sizes = []int{0, 10, 1100}
		if c18Huge != 0 {
			sizes[2] = c18Huge
		}
	}
	for i, n := range sizes {
		add(&refmqtt.Packet{Type: refmqtt.PUBLISH, Topic: "t", Payload: []byte(strings.Repeat(string(rune('a'+i)), n))})
	}
	add(&refmqtt.Packet{Type: refmqtt.PINGREQ})
	wantTypes = []string{"CONNACK", "SUBACK"}
	for i, n := range sizes {
		wantTypes = append(wantTypes, fmt.Sprintf("PUBLISH:%d:%c", n, 'a'+i))
	}
	wantTypes = append(wantTypes, "PINGRESP")
	return
}

func c18Broker(c *explore.Ctx, maxPacket uint32, big bool, cuts []int, label string, huge int) {
	c18Huge = huge
	stream, want := c18Stream(big)
	c18Huge = 0
	cas := func() any {
		return map[string]any{"part": "broker", "max_packet_size": maxPacket, "stream_len": len(stream), "large_publish": huge, "cut_positions": cuts, "segmentation": label}
	}
	c.Count("evaluations", 1)
	c.Count("distinct_nontrivial", 1)
	execBody(c, "C18", cas, func() {
		cfg := harness.DefaultConfig()
		if maxPacket != 0 {
			cfg.MQTT.MaxPacketSize = maxPacket
		}
		w := harness.NewWorld(cfg, server.Hooks{})
		if w.InitErr != nil {
			c.Fatal("init: %v", w.InitErr)
			return
		}
		cli, srvc := harness.Pipe("ws", 1<<22)
		vsched.Go("wsHandler", func() { server.VerifServeWS(w.Srv, srvc) })
		vsched.Settle()
		prev := 0
		n := 0
		for _, cut := range append(append([]int{}, cuts...), len(stream)) {
			if cut <= prev || cut > len(stream) {
				continue
			}
			n++
			cli.Write(harness.WSClientFrame(harness.WSBinary, stream[prev:cut], true, [4]byte{byte(n), 3, 5, 7}))
			prev = cut
			vsched.Settle()
		}
		raw, ok := harness.SkipHTTPResponse(cli.TakeAll())
		if !ok {
			c.Violate("ws-broker", "no-upgrade-response", cas(), "HTTP 101", "none")
			return
		}
		frames, rest, err := harness.WSParseFrames(raw)
		if err != nil || len(rest) != 0 {
			c.Violate("ws-broker", "unparseable-frames-from-broker", cas(), "complete frames", fmt.Sprint(err, len(rest)))
			return
		}
		var out []byte
		for _, f := range frames {
			if f.Opcode == harness.WSClose {
				c.Violate("ws-broker", fmt.Sprintf("connection-closed-by-broker-%x", f.Payload), cas(), "stream served", fmt.Sprintf("close frame %x; errors %v", f.Payload, w.Closeds))
				return
			}
			if f.Opcode != harness.WSBinary {
				c.Violate("ws-broker", fmt.Sprintf("non-binary-frame-opcode-%d", f.Opcode), cas(), "binary", fmt.Sprint(f.Opcode))
				return
			}
			out = append(out, f.Payload...)
		}
		var got []string
		for len(out) > 0 {
			p, k, err := refmqtt.Decode(out, refmqtt.V5)
			if err != nil || k == 0 {
				c.Violate("ws-broker", "reply-stream-does-not-parse", cas(), strings.Join(want, " "), strings.Join(got, " ")+fmt.Sprint(" then ", err))
				return
			}
			out = out[k:]
			switch p.Type {
			case refmqtt.PUBLISH:
				ch := byte('?')
				if len(p.Payload) > 0 {
					ch = p.Payload[0]
					for _, b := range p.Payload {
						if b != ch {
							ch = '!'
						}
					}
				} else {
					ch = 'a'
				}
				got = append(got, fmt.Sprintf("PUBLISH:%d:%c", len(p.Payload), ch))
			default:
				got = append(got, refmqtt.TypeNames[p.Type])
			}
		}
		// forwarded publishes travel through the session queue and may be overtaken by the
		// PINGRESP: compare control replies and publishes as two ordered sequences
		split := func(in []string) (ctl, pubs string) {
			for _, x := range in {
				if strings.HasPrefix(x, "PUBLISH") {
					pubs += x + " "
				} else {
					ctl += x + " "
				}
			}
			return
		}
		gc, gp := split(got)
		wc, wp := split(want)
		if gc != wc || gp != wp {
			cl := "replies-differ"
			if len(got) < len(want) {
				cl = "stream-cut-short-or-corrupted"
			}
			if cli.PeerClosed() {
				cl += "-connection-dropped"
			}
			c.Violate("ws-broker", cl, cas(), strings.Join(want, " "), strings.Join(got, " ")+fmt.Sprint(" errors ", w.Closeds))
		}
		cli.Close()
		vsched.Settle()
	})
}

func c18BrokerAll(c *explore.Ctx) {
	type job struct {
		maxPacket uint32
		big       bool
		cuts      []int
		label     string
		huge      int
	}
	var jobs []job
	for _, big := range []bool{false, true} {
		stream, _ := c18Stream(big)
		L := len(stream)
		jobs = append(jobs, job{0, big, nil, "one message", 0})
		for i := 1; i < L; i++ {
			if !big || i < 80 || i%7 == 0 || i > L-40 {
				jobs = append(jobs, job{0, big, []int{i}, "one cut", 0})
			}
		}
		lim := 40
		if c.Quick() {
			lim = 24
		}
		for i := 1; i < lim; i++ {
			for j := i + 1; j < lim; j++ {
				jobs = append(jobs, job{0, big, []int{i, j}, "two cuts", 0})
			}
		}
		var ones []int
		for i := 1; i <= 48 && i < L; i++ {
			ones = append(ones, i)
		}
		jobs = append(jobs, job{0, big, ones, "one-byte messages for the first 48 bytes", 0})
		if big {
			// messages of exactly 1023 / 1024 / 1025 bytes
			for _, sz := range []int{1023, 1024, 1025} {
				for start := 0; start+sz <= L; start += 17 {
					jobs = append(jobs, job{0, big, []int{start, start + sz}, fmt.Sprintf("a %d-byte message", sz), 0})
				}
			}
		}
	}
	// small configured max_packet_size: many in-limit packets packed into one large message
	jobs = append(jobs, job{128, false, nil, "all packets in one message larger than max_packet_size", 0}, job{128, false, []int{40}, "two messages, second larger than max_packet_size", 0})
	// forwarded publishes far larger than the adapter's buffers (and than 16/32/48/64 KiB)
	for _, h := range []int{4000, 16380, 16400, 33000, 40000, 50000, 66000, 140000} {
		jobs = append(jobs, job{0, true, nil, "one message, large publish", h})
		for _, cut := range []int{1, 60, 4096, 16384, h / 2, h - 1, h + 20} {
			jobs = append(jobs, job{0, true, []int{cut}, "one cut, large publish", h})
		}
	}
	c.Extra["broker_segmentations"] = len(jobs)
	c.Units("broker", len(jobs), func(u int) {
		j := jobs[u]
		c18Broker(c, j.maxPacket, j.big, j.cuts, j.label, j.huge)
		if u%211 == 0 {
			c.Sample(map[string]any{"part": "broker", "segmentation": j.label, "cuts": j.cuts})
		}
	})
}
