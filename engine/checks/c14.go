package checks

import (
	"context"
	"errors"
	"fmt"
	"net"
	"strings"
	"time"

	"github.com/DrmagicE/gmqtt"
	"github.com/DrmagicE/gmqtt/config"
	"github.com/DrmagicE/gmqtt/persistence/subscription"
	"github.com/DrmagicE/gmqtt/pkg/codes"
	"github.com/DrmagicE/gmqtt/pkg/packets"
	"github.com/DrmagicE/gmqtt/server"
	"github.com/DrmagicE/gmqtt/zzverif/vsched"

	"verif/explore"
	"verif/harness"
	"verif/refmqtt"
)

func init() {
	register("C14", runC14)
	for _, n := range []string{"vp1", "vp2", "vp3"} {
		n := n
		server.RegisterPlugin(n, func(cfg config.Config) (server.Plugin, error) { return &c14Plugin{name: n}, nil })
	}
}

// per-execution state shared by the recording plugins (one execution at a time)
var c14 struct {
	log     []string
	verdict map[string]string // hook kind -> verdict, applied by the plugin named in decider
	decider string
	loaded  []string
}

func c14Reset(decider string, verdict map[string]string) {
	c14.log, c14.verdict, c14.decider, c14.loaded = nil, verdict, decider, nil
}

type c14Plugin struct{ name string }

func (p *c14Plugin) Load(server.Server) error {
	c14.loaded = append(c14.loaded, "load:"+p.name)
	return nil
}
func (p *c14Plugin) Unload() error { c14.loaded = append(c14.loaded, "unload:"+p.name); return nil }
func (p *c14Plugin) Name() string  { return p.name }

func (p *c14Plugin) in(kind string) func() {
	c14.log = append(c14.log, "enter:"+kind+":"+p.name)
	return func() { c14.log = append(c14.log, "exit:"+kind+":"+p.name) }
}

func (p *c14Plugin) v(kind string) string {
	if c14.decider == p.name {
		return c14.verdict[kind]
	}
	return ""
}

func c14Err(v string) error {
	switch v {
	case "reject-0x86":
		return codes.NewError(codes.BadUserNameOrPassword)
	case "reject-0x87":
		return codes.NewError(codes.NotAuthorized)
	case "reject-0x80":
		return codes.NewError(codes.UnspecifiedError)
	case "reject-plain-error":
		return errors.New("nope")
	}
	return nil
}

func (p *c14Plugin) HookWrapper() server.HookWrapper {
	return server.HookWrapper{
		OnAcceptWrapper: func(next server.OnAccept) server.OnAccept {
			return func(ctx context.Context, conn net.Conn) bool { defer p.in("OnAccept")(); return next(ctx, conn) }
		},
		OnBasicAuthWrapper: func(next server.OnBasicAuth) server.OnBasicAuth {
			return func(ctx context.Context, cl server.Client, req *server.ConnectRequest) error {
				defer p.in("OnBasicAuth")()
				if e := c14Err(p.v("OnBasicAuth")); e != nil {
					return e
				}
				return next(ctx, cl, req)
			}
		},
		OnEnhancedAuthWrapper: func(next server.OnEnhancedAuth) server.OnEnhancedAuth {
			return func(ctx context.Context, cl server.Client, req *server.ConnectRequest) (*server.EnhancedAuthResponse, error) {
				defer p.in("OnEnhancedAuth")()
				v := p.v("OnEnhancedAuth")
				if e := c14Err(v); e != nil {
					return nil, e
				}
				if strings.HasPrefix(v, "continue") {
					return &server.EnhancedAuthResponse{Continue: true, AuthData: []byte("challenge"), OnAuth: func(ctx context.Context, cl server.Client, r *server.AuthRequest) (*server.AuthResponse, error) {
						c14.log = append(c14.log, "onauth:"+p.name)
						if v == "continue-then-reject" {
							return nil, codes.NewError(codes.NotAuthorized)
						}
						return &server.AuthResponse{Continue: false}, nil
					}}, nil
				}
				return next(ctx, cl, req)
			}
		},
		OnReAuthWrapper: func(next server.OnReAuth) server.OnReAuth {
			return func(ctx context.Context, cl server.Client, a *packets.Auth) (*server.AuthResponse, error) {
				defer p.in("OnReAuth")()
				return next(ctx, cl, a)
			}
		},
		OnConnectedWrapper: func(next server.OnConnected) server.OnConnected {
			return func(ctx context.Context, cl server.Client) { defer p.in("OnConnected")(); next(ctx, cl) }
		},
		OnSessionCreatedWrapper: func(next server.OnSessionCreated) server.OnSessionCreated {
			return func(ctx context.Context, cl server.Client) { defer p.in("OnSessionCreated")(); next(ctx, cl) }
		},
		OnSessionResumedWrapper: func(next server.OnSessionResumed) server.OnSessionResumed {
			return func(ctx context.Context, cl server.Client) { defer p.in("OnSessionResumed")(); next(ctx, cl) }
		},
		OnSessionTerminatedWrapper: func(next server.OnSessionTerminated) server.OnSessionTerminated {
			return func(ctx context.Context, id string, r server.SessionTerminatedReason) {
				defer p.in("OnSessionTerminated")()
				next(ctx, id, r)
			}
		},
		OnSubscribeWrapper: func(next server.OnSubscribe) server.OnSubscribe {
			return func(ctx context.Context, cl server.Client, req *server.SubscribeRequest) error {
				defer p.in("OnSubscribe")()
				switch v := p.v("OnSubscribe"); v {
				case "reject-all":
					return codes.NewError(codes.NotAuthorized)
				case "reject-one":
					req.Reject("s/b", codes.NewError(codes.NotAuthorized))
				case "downgrade":
					req.GrantQoS("s/a", 0)
				case "rewrite-filter":
					if s := req.Subscriptions["s/a"]; s != nil {
						s.Sub.TopicFilter = "s/rewritten"
					}
				}
				return next(ctx, cl, req)
			}
		},
		OnSubscribedWrapper: func(next server.OnSubscribed) server.OnSubscribed {
			return func(ctx context.Context, cl server.Client, s *gmqtt.Subscription) {
				defer p.in("OnSubscribed")()
				next(ctx, cl, s)
			}
		},
		OnUnsubscribeWrapper: func(next server.OnUnsubscribe) server.OnUnsubscribe {
			return func(ctx context.Context, cl server.Client, req *server.UnsubscribeRequest) error {
				defer p.in("OnUnsubscribe")()
				switch p.v("OnUnsubscribe") {
				case "reject-all":
					return codes.NewError(codes.NotAuthorized)
				case "reject-one":
					req.Reject("s/a", codes.NewError(codes.NotAuthorized))
				}
				return next(ctx, cl, req)
			}
		},
		OnUnsubscribedWrapper: func(next server.OnUnsubscribed) server.OnUnsubscribed {
			return func(ctx context.Context, cl server.Client, t string) {
				defer p.in("OnUnsubscribed")()
				next(ctx, cl, t)
			}
		},
		OnMsgArrivedWrapper: func(next server.OnMsgArrived) server.OnMsgArrived {
			return func(ctx context.Context, cl server.Client, req *server.MsgArrivedRequest) error {
				defer p.in("OnMsgArrived")()
				switch p.v("OnMsgArrived") {
				case "error":
					return codes.NewError(codes.NotAuthorized)
				case "error-plain":
					return errors.New("refused")
				case "error-0x80":
					return codes.NewError(codes.UnspecifiedError)
				case "drop":
					req.Drop()
					return nil
				case "rewrite":
					req.Message.Topic = "m/rewritten"
					req.Message.Payload = []byte("REWRITTEN")
					req.IterationOptions.TopicName = "m/rewritten"
				}
				return next(ctx, cl, req)
			}
		},
		OnMsgDroppedWrapper: func(next server.OnMsgDropped) server.OnMsgDropped {
			return func(ctx context.Context, id string, m *gmqtt.Message, err error) {
				defer p.in("OnMsgDropped")()
				next(ctx, id, m, err)
			}
		},
		OnDeliveredWrapper: func(next server.OnDelivered) server.OnDelivered {
			return func(ctx context.Context, cl server.Client, m *gmqtt.Message) {
				defer p.in("OnDelivered")()
				next(ctx, cl, m)
			}
		},
		OnClosedWrapper: func(next server.OnClosed) server.OnClosed {
			return func(ctx context.Context, cl server.Client, err error) { defer p.in("OnClosed")(); next(ctx, cl, err) }
		},
		OnStopWrapper: func(next server.OnStop) server.OnStop {
			return func(ctx context.Context) { defer p.in("OnStop")(); next(ctx) }
		},
		OnWillPublishWrapper: func(next server.OnWillPublish) server.OnWillPublish {
			return func(ctx context.Context, id string, req *server.WillMsgRequest) {
				defer p.in("OnWillPublish")()
				switch p.v("OnWillPublish") {
				case "drop":
					req.Drop()
					return
				case "edit":
					m := req.Message.Copy()
					m.Payload = []byte("EDITED")
					req.Message = m
				}
				next(ctx, id, req)
			}
		},
		OnWillPublishedWrapper: func(next server.OnWillPublished) server.OnWillPublished {
			return func(ctx context.Context, id string, m *gmqtt.Message) {
				defer p.in("OnWillPublished")()
				next(ctx, id, m)
			}
		},
	}
}

var c14Kinds = []string{"OnAccept", "OnBasicAuth", "OnEnhancedAuth", "OnReAuth", "OnConnected", "OnSessionCreated", "OnSessionResumed", "OnSessionTerminated", "OnSubscribe", "OnSubscribed", "OnUnsubscribe", "OnUnsubscribed", "OnMsgArrived", "OnMsgDropped", "OnDelivered", "OnClosed", "OnStop", "OnWillPublish", "OnWillPublished"}

// base hooks: the innermost functions, recording "base:<kind>"
func c14BaseHooks() server.Hooks {
	b := func(k string) { c14.log = append(c14.log, "base:"+k) }
	return server.Hooks{
		OnAccept:       func(context.Context, net.Conn) bool { b("OnAccept"); return true },
		OnStop:         func(context.Context) { b("OnStop") },
		OnSubscribe:    func(context.Context, server.Client, *server.SubscribeRequest) error { b("OnSubscribe"); return nil },
		OnSubscribed:   func(context.Context, server.Client, *gmqtt.Subscription) { b("OnSubscribed") },
		OnUnsubscribe:  func(context.Context, server.Client, *server.UnsubscribeRequest) error { b("OnUnsubscribe"); return nil },
		OnUnsubscribed: func(context.Context, server.Client, string) { b("OnUnsubscribed") },
		OnMsgArrived:   func(context.Context, server.Client, *server.MsgArrivedRequest) error { b("OnMsgArrived"); return nil },
		OnBasicAuth:    func(context.Context, server.Client, *server.ConnectRequest) error { b("OnBasicAuth"); return nil },
		OnEnhancedAuth: func(context.Context, server.Client, *server.ConnectRequest) (*server.EnhancedAuthResponse, error) {
			b("OnEnhancedAuth")
			return &server.EnhancedAuthResponse{}, nil
		},
		OnReAuth: func(context.Context, server.Client, *packets.Auth) (*server.AuthResponse, error) {
			b("OnReAuth")
			return &server.AuthResponse{}, nil
		},
		OnConnected:         func(context.Context, server.Client) { b("OnConnected") },
		OnSessionCreated:    func(context.Context, server.Client) { b("OnSessionCreated") },
		OnSessionResumed:    func(context.Context, server.Client) { b("OnSessionResumed") },
		OnSessionTerminated: func(context.Context, string, server.SessionTerminatedReason) { b("OnSessionTerminated") },
		OnDelivered:         func(context.Context, server.Client, *gmqtt.Message) { b("OnDelivered") },
		OnClosed:            func(context.Context, server.Client, error) { b("OnClosed") },
		OnMsgDropped:        func(context.Context, string, *gmqtt.Message, error) { b("OnMsgDropped") },
		OnWillPublish:       func(context.Context, string, *server.WillMsgRequest) { b("OnWillPublish") },
		OnWillPublished:     func(context.Context, string, *gmqtt.Message) { b("OnWillPublished") },
	}
}

func c14World(order []string) *harness.World {
	cfg := harness.DefaultConfig()
	cfg.PluginOrder = order
	return harness.NewWorld(cfg, c14BaseHooks())
}

// ---- (e) wrapper composition: trigger every hook kind once or more, check nesting

func c14Composition(c *explore.Ctx, order []string) {
	cas := func() any { return map[string]any{"part": "composition", "plugin_order": order} }
	c.Count("executions", 1)
	execBody(c, "C14", cas, func() {
		c14Reset("", nil)
		w := c14World(order)
		if w.InitErr != nil {
			c.Fatal("init: %v", w.InitErr)
			return
		}
		a := w.Dial("A")
		a.Connect(harness.ConnectOpts{ClientID: "a", Clean: true, Version: refmqtt.V5, Will: &harness.Will{Topic: "will/a", Payload: []byte("w")}})
		a.Subscribe(0, refmqtt.Sub{Filter: "t", QoS: 0})
		b := w.Dial("B")
		b.Connect(harness.ConnectOpts{ClientID: "b", Clean: true, Version: refmqtt.V311})
		b.Send(&refmqtt.Packet{Type: refmqtt.PUBLISH, Topic: "t", Payload: []byte("x")})
		vsched.Settle()
		a.Send(&refmqtt.Packet{Type: refmqtt.UNSUBSCRIBE, PacketID: 9, Filters: []string{"t"}})
		vsched.Settle()
		// enhanced auth + re-auth
		e := w.Dial("E")
		e.Connect(harness.ConnectOpts{ClientID: "e", Clean: true, Version: refmqtt.V5, Props: &refmqtt.Props{AuthMethod: harness.Str("m")}})
		e.Send(&refmqtt.Packet{Type: refmqtt.AUTH, Code: 0x19, Props: &refmqtt.Props{AuthMethod: harness.Str("m"), AuthData: []byte("m"), HasAuthData: true}})
		vsched.Settle()
		// a drop: subscriber with a tiny Maximum Packet Size
		d := w.Dial("D")
		d.Connect(harness.ConnectOpts{ClientID: "d", Clean: true, Version: refmqtt.V5, Props: &refmqtt.Props{MaxPacketSize: harness.U32(20)}})
		d.Subscribe(0, refmqtt.Sub{Filter: "big", QoS: 0})
		b.Send(&refmqtt.Packet{Type: refmqtt.PUBLISH, Topic: "big", Payload: []byte(strings.Repeat("z", 40))})
		vsched.Settle()
		// will + closed + session terminated
		a.Close()
		vsched.Settle()
		// session resume
		f := w.Dial("F")
		f.Connect(harness.ConnectOpts{ClientID: "f", Clean: true, Version: refmqtt.V5, Props: &refmqtt.Props{SessionExpiry: harness.U32(100)}})
		f.Close()
		vsched.Settle()
		f2 := w.Dial("F2")
		f2.Connect(harness.ConnectOpts{ClientID: "f", Clean: false, Version: refmqtt.V5, Props: &refmqtt.Props{SessionExpiry: harness.U32(100)}})
		// take-over of an online client whose session ends with its connection (no expiry)
		g := w.Dial("G")
		g.Connect(harness.ConnectOpts{ClientID: "g", Clean: true, Version: refmqtt.V5})
		g2 := w.Dial("G2")
		g2.Connect(harness.ConnectOpts{ClientID: "g", Clean: true, Version: refmqtt.V5})
		vsched.Settle()
		w.Stop()
		if !w.StopDone {
			c.Violate("stop", "stop-did-not-return", cas(), "Stop returns", fmt.Sprint(vsched.ThreadsParked()))
			return
		}
		// analyse the log per kind
		must := map[string]bool{}
		for _, k := range c14Kinds {
			must[k] = true
		}
		c14Nesting(c, cas, order, c14Kinds, must, "")
		// each hook fires exactly once per event: the number of base calls per kind equals the
		// number of events of that kind the script caused (8 connections: a b e d f f2 g g2;
		// sessions created for all but f2, which resumes; sessions ended: a at its close, g by
		// the take-over, and b e d g2 - no session expiry - when Stop closes them; f is kept)
		wantN := map[string]int{"OnAccept": 8, "OnBasicAuth": 7, "OnEnhancedAuth": 1, "OnReAuth": 1, "OnConnected": 8, "OnSessionCreated": 7, "OnSessionResumed": 1,
			"OnSessionTerminated": 6, "OnClosed": 8, "OnSubscribe": 2, "OnSubscribed": 2, "OnUnsubscribe": 1, "OnUnsubscribed": 1, "OnMsgArrived": 2, "OnDelivered": 1,
			"OnMsgDropped": 1, "OnWillPublish": 1, "OnWillPublished": 1, "OnStop": 1}
		gotN := map[string]int{}
		for _, l := range c14.log {
			if strings.HasPrefix(l, "base:") {
				gotN[strings.TrimPrefix(l, "base:")]++
			}
		}
		for _, k := range c14Kinds {
			if gotN[k] != wantN[k] {
				c.Violate("fires-once-per-event", fmt.Sprintf("%s-fired-%d-times-for-%d-events", k, gotN[k], wantN[k]), cas(), fmt.Sprint(wantN[k]), fmt.Sprint(gotN[k]))
			}
		}
		var wantLoad []string
		for _, n := range order {
			wantLoad = append(wantLoad, "load:"+n)
		}
		for _, n := range order {
			wantLoad = append(wantLoad, "unload:"+n)
		}
		if strings.Join(c14.loaded, " ") != strings.Join(wantLoad, " ") {
			c.Violate("plugin-lifecycle", "load-unload-not-once-in-order", cas(), strings.Join(wantLoad, " "), strings.Join(c14.loaded, " "))
		}
		swallowedPanic(c, w, cas)
	})
}

// c14Nesting checks, per hook kind, that the recorded calls are repetitions of
// enter(order) base exit(reverse order).  must lists kinds that have to have fired.
func c14Nesting(c *explore.Ctx, cas func() any, order []string, kinds []string, must map[string]bool, tag string) {
	for _, k := range kinds {
		var seq []string
		for _, l := range c14.log {
			p := strings.SplitN(l, ":", 3)
			if len(p) >= 2 && p[1] == k {
				if p[0] == "base" {
					seq = append(seq, "base")
				} else {
					seq = append(seq, p[0]+":"+p[2])
				}
			}
		}
		var pattern []string
		for _, n := range order {
			pattern = append(pattern, "enter:"+n)
		}
		pattern = append(pattern, "base")
		for i := len(order) - 1; i >= 0; i-- {
			pattern = append(pattern, "exit:"+order[i])
		}
		if len(seq) == 0 {
			if must[k] {
				c.Violate("wrappers-installed", "hook-never-fired:"+k+tag, cas(), "at least one "+k+" event in the trigger script", "none")
			}
			continue
		}
		ok := len(seq)%len(pattern) == 0
		for i := 0; ok && i < len(seq); i++ {
			ok = seq[i] == pattern[i%len(pattern)]
		}
		if !ok {
			cl := "wrong-nesting:" + k
			missing := false
			for _, n := range order {
				if !strings.Contains(strings.Join(seq, " "), "enter:"+n) {
					missing = true
				}
			}
			if missing {
				cl = "wrapper-not-installed:" + k
			} else if len(order) > 1 && strings.HasPrefix(strings.Join(seq, " "), "enter:"+order[len(order)-1]) {
				cl = "nesting-reversed:" + k
			}
			c.Violate("wrappers-compose", cl+tag, cas(), strings.Join(pattern, " ")+" (repeated)", strings.Join(seq, " "))
		}
	}
}

// c14Restart: hooks that fire for a session the broker restored from the persistence
// backend at start-up (redis over the in-process RESP server), before its client has
// logged in again: a message dropped from the restored queue goes through every plugin's
// OnMsgDropped wrapper; resuming the session afterwards nests as usual.
func c14Restart(c *explore.Ctx, order []string) {
	cas := func() any { return map[string]any{"part": "composition-after-restart", "plugin_order": order} }
	c.Count("executions", 1)
	rd, db := c09DB(c, nil)
	if rd == nil {
		return
	}
	defer rd.DropDB(db)
	execBody(c, "C14", cas, func() {
		c14Reset("", nil)
		cfg := c09Config(rd.Addr(), db)
		cfg.PluginOrder = order
		cfg.MQTT.MaxQueuedMsg = 1
		w := harness.NewWorld(cfg, c14BaseHooks())
		if w.InitErr != nil {
			c.Fatal("C14 restart init: %v", w.InitErr)
			return
		}
		exp := &refmqtt.Props{SessionExpiry: harness.U32(3600)}
		f := w.Dial("F")
		f.Connect(harness.ConnectOpts{ClientID: "f", Clean: true, Version: refmqtt.V5, Props: exp})
		f.Subscribe(0, refmqtt.Sub{Filter: "t", QoS: 1})
		f.Close()
		vsched.Settle()
		w.Stop()
		if !w.StopDone {
			c.Violate("stop", "stop-did-not-return", cas(), "Stop returns", fmt.Sprint(vsched.ThreadsParked()))
			return
		}
		c14Reset("", nil)
		w = harness.NewWorld(cfg, c14BaseHooks())
		if w.InitErr != nil {
			c.Violate("restart", "init-fails-on-stored-sessions", cas(), "Init succeeds", w.InitErr.Error())
			return
		}
		p := w.Dial("P")
		p.Connect(harness.ConnectOpts{ClientID: "p", Clean: true, Version: refmqtt.V311})
		for i := 1; i <= 3; i++ {
			p.Send(&refmqtt.Packet{Type: refmqtt.PUBLISH, Topic: "t", QoS: 1, PacketID: uint16(i), Payload: []byte{byte('0' + i)}})
			vsched.Settle()
		}
		f2 := w.Dial("F2")
		f2.Connect(harness.ConnectOpts{ClientID: "f", Clean: false, Version: refmqtt.V5, Props: exp})
		vsched.Settle()
		w.Stop()
		c14Nesting(c, cas, order, c14Kinds, map[string]bool{"OnMsgDropped": true, "OnSessionResumed": true, "OnMsgArrived": true}, ":session-restored-at-start-up")
		swallowedPanic(c, w, cas)
	})
}

// ---- (a)-(d) verdicts

type c14Verdict struct {
	kind, verdict string
	version       byte
}

func c14Verdicts() []c14Verdict {
	var out []c14Verdict
	for _, v := range []byte{refmqtt.V311, refmqtt.V5} {
		for _, r := range []string{"accept", "reject-0x86", "reject-0x87", "reject-0x80", "reject-plain-error"} {
			out = append(out, c14Verdict{"OnBasicAuth", r, v})
		}
		for _, r := range []string{"accept", "reject-all", "reject-one", "downgrade", "rewrite-filter"} {
			out = append(out, c14Verdict{"OnSubscribe", r, v})
		}
		for _, r := range []string{"accept", "reject-all", "reject-one"} {
			out = append(out, c14Verdict{"OnUnsubscribe", r, v})
		}
		for _, r := range []string{"accept", "error", "error-plain", "error-0x80", "drop", "rewrite"} {
			out = append(out, c14Verdict{"OnMsgArrived", r, v})
		}
		for _, r := range []string{"keep", "edit", "drop"} {
			out = append(out, c14Verdict{"OnWillPublish", r, v})
		}
	}
	for _, r := range []string{"accept", "reject-0x87", "continue-then-accept", "continue-then-reject"} {
		out = append(out, c14Verdict{"OnEnhancedAuth", r, refmqtt.V5})
	}
	return out
}

func c14RunVerdict(c *explore.Ctx, order []string, decider string, vd c14Verdict) {
	cas := func() any {
		return map[string]any{"part": "verdict", "plugin_order": order, "deciding_plugin": decider, "hook": vd.kind, "verdict": vd.verdict, "client_version": vd.version}
	}
	c.Count("executions", 1)
	execBody(c, "C14", cas, func() {
		c14Reset(decider, map[string]string{vd.kind: vd.verdict})
		w := c14World(order)
		if w.InitErr != nil {
			c.Fatal("init: %v", w.InitErr)
			return
		}
		srv := w.Srv
		retainedSnapshot := func() string {
			var s []string
			srv.RetainedService().Iterate(func(m *gmqtt.Message) bool {
				s = append(s, m.Topic+"="+string(m.Payload))
				return true
			})
			return strings.Join(s, ";")
		}
		subsOf := func(id string) string {
			var s []string
			srv.SubscriptionService().Iterate(func(cid string, sub *gmqtt.Subscription) bool {
				if cid == id {
					s = append(s, fmt.Sprintf("%s:q%d", sub.GetFullTopicName(), sub.QoS))
				}
				return true
			}, subscriptionAll(id))
			sortStrings(s)
			return strings.Join(s, ";")
		}
		// watcher (connected while all verdicts are neutral for it: decider only acts on the
		// kinds in the table, so disable the table while setting up)
		saved := c14.verdict
		c14.verdict = nil
		watch := w.Dial("W")
		watch.Connect(harness.ConnectOpts{ClientID: "watch", Clean: true, Version: refmqtt.V5})
		watch.Subscribe(0, refmqtt.Sub{Filter: "#", QoS: 0, RAP: true})
		c14.verdict = saved
		watchGot := func() []string {
			var s []string
			for _, r := range watch.Recv() {
				if r.P != nil && r.P.Type == refmqtt.PUBLISH {
					s = append(s, r.P.Topic+"="+string(r.P.Payload))
				}
			}
			return s
		}
		x := w.Dial("X")
		copts := harness.ConnectOpts{ClientID: "x", Clean: true, Version: vd.version, Will: &harness.Will{Topic: "will/x", Payload: []byte("willmsg"), Retain: true}}
		if vd.version == refmqtt.V5 {
			copts.Props = &refmqtt.Props{SessionExpiry: harness.U32(100)}
		}
		switch vd.kind {
		case "OnBasicAuth", "OnEnhancedAuth":
			if vd.kind == "OnEnhancedAuth" {
				copts.Props.AuthMethod = harness.Str("m")
			}
			before := retainedSnapshot()
			ack := x.Connect(copts)
			rounds := 0
			for ack == nil && rounds < 2 {
				// an AUTH challenge?
				got := false
				for _, r := range x.Inbox {
					if r.P != nil && r.P.Type == refmqtt.AUTH && r.P.Code == 0x18 {
						got = true
					}
				}
				if !got {
					break
				}
				rounds++
				x.Send(&refmqtt.Packet{Type: refmqtt.AUTH, Code: 0x18, Props: &refmqtt.Props{AuthMethod: harness.Str("m"), AuthData: []byte("resp"), HasAuthData: true}})
				vsched.Settle()
				for _, r := range x.Recv() {
					if r.P != nil && r.P.Type == refmqtt.CONNACK {
						ack = r.P
					}
				}
			}
			reject := strings.Contains(vd.verdict, "reject")
			if ack == nil {
				c.Violate("auth", "no-connack-"+vd.verdict, cas(), "a CONNACK", fmt.Sprint(len(x.Inbox), w.Closeds, x.ClosedByBroker(), vsched.ThreadsParked()))
				return
			}
			if reject {
				fail := ack.Code >= 0x80 || (vd.version != refmqtt.V5 && ack.Code != 0)
				if !fail {
					c.Violate("auth", "rejected-connect-acknowledged-"+vd.verdict, cas(), "failing CONNACK", ack.String())
				} else if vd.version == refmqtt.V5 {
					want := map[string]byte{"reject-0x86": 0x86, "reject-0x87": 0x87, "reject-0x80": 0x80, "reject-plain-error": 0x80, "continue-then-reject": 0x87}[vd.verdict]
					if ack.Code != want {
						c.Violate("auth", fmt.Sprintf("connack-code-0x%02x-want-0x%02x", ack.Code, want), cas(), fmt.Sprintf("0x%02x", want), ack.String())
					}
				}
				vsched.Settle()
				// nothing left behind
				if srv.ClientService().GetClient("x") != nil {
					c.Violate("auth-leaves-nothing", "client-registered-after-rejected-connect", cas(), "no client", "client x registered")
				}
				if s, _ := srv.ClientService().GetSession("x"); s != nil {
					c.Violate("auth-leaves-nothing", "session-after-rejected-connect", cas(), "no session", "session x exists")
				}
				if s := subsOf("x"); s != "" {
					c.Violate("auth-leaves-nothing", "subscription-after-rejected-connect", cas(), "none", s)
				}
				vsched.Advance(30 * time.Second)
				if g := watchGot(); len(g) != 0 {
					c.Violate("auth-leaves-nothing", "will-or-message-after-rejected-connect", cas(), "nothing", strings.Join(g, ";"))
				}
				if after := retainedSnapshot(); after != before {
					c.Violate("auth-leaves-nothing", "retained-changed-by-rejected-connect", cas(), before, after)
				}
			} else if ack.Code != 0 {
				c.Violate("auth", "accepted-connect-refused-"+vd.verdict, cas(), "CONNACK success", ack.String())
			}
		case "OnSubscribe":
			if ack := x.Connect(copts); ack == nil || ack.Code != 0 {
				c.Fatal("C14: connect failed")
				return
			}
			// retained messages on every topic involved, stored while the verdict table is off
			c14.verdict = nil
			h := w.Dial("H")
			h.Connect(harness.ConnectOpts{ClientID: "helper", Clean: true, Version: refmqtt.V5})
			for _, t := range []string{"s/a", "s/b", "s/rewritten"} {
				h.Send(&refmqtt.Packet{Type: refmqtt.PUBLISH, Topic: t, QoS: 1, PacketID: h.PID(), Retain: true, Payload: []byte("kept:" + t)})
				vsched.Settle()
				h.Recv()
			}
			c14.verdict = saved
			suback, replay := x.Subscribe(0, refmqtt.Sub{Filter: "s/a", QoS: 1}, refmqtt.Sub{Filter: "s/b", QoS: 1})
			if suback == nil || len(suback.Codes) != 2 {
				c.Violate("subscribe", "no-or-short-suback", cas(), "SUBACK with 2 codes", fmt.Sprint(suback))
				return
			}
			fail := func(cd byte) bool { return cd >= 0x80 }
			wantSubs, wantCodes := "", ""
			switch vd.verdict {
			case "accept":
				wantSubs, wantCodes = "s/a:q1;s/b:q1", "ok ok"
			case "reject-all":
				wantSubs, wantCodes = "", "fail fail"
			case "reject-one":
				wantSubs, wantCodes = "s/a:q1", "ok fail"
			case "downgrade":
				wantSubs, wantCodes = "s/a:q0;s/b:q1", "q0 ok"
			case "rewrite-filter":
				wantSubs, wantCodes = "s/b:q1;s/rewritten:q1", "ok ok"
			}
			var gc []string
			for i, cd := range suback.Codes {
				switch {
				case fail(cd):
					gc = append(gc, "fail")
				case vd.verdict == "downgrade" && i == 0:
					gc = append(gc, fmt.Sprintf("q%d", cd))
				default:
					gc = append(gc, "ok")
				}
			}
			if strings.Join(gc, " ") != wantCodes {
				c.Violate("subscribe", "suback-does-not-report-verdict-"+vd.verdict, cas(), wantCodes, fmt.Sprint(suback.Codes))
			}
			if got := subsOf("x"); got != wantSubs {
				c.Violate("subscribe", "installed-subscriptions-differ-from-verdict-"+vd.verdict, cas(), wantSubs, got)
			}
			// what the verdict installed is what takes effect: the retained messages replayed
			// after the SUBACK and a live message per topic arrive through exactly the installed
			// subscriptions, at min(1, installed QoS)
			wantFlow := map[string]string{
				"accept":         "s/a:q1;s/b:q1",
				"reject-all":     "",
				"reject-one":     "s/a:q1",
				"downgrade":      "s/a:q0;s/b:q1",
				"rewrite-filter": "s/b:q1;s/rewritten:q1",
			}[vd.verdict]
			flow := func(ps []*refmqtt.Packet, prefix string) string {
				var out []string
				for _, pk := range ps {
					if pk != nil && pk.Type == refmqtt.PUBLISH && strings.HasPrefix(string(pk.Payload), prefix) {
						out = append(out, fmt.Sprintf("%s:q%d", pk.Topic, pk.QoS))
						if pk.QoS == 1 {
							x.Send(&refmqtt.Packet{Type: refmqtt.PUBACK, PacketID: pk.PacketID})
						}
					}
				}
				vsched.Settle()
				sortStrings(out)
				return strings.Join(out, ";")
			}
			if got := flow(replay, "kept:"); got != wantFlow {
				cl := "retained-replay-differs-from-verdict-" + vd.verdict
				if vd.verdict == "downgrade" && strings.Contains(got, "s/a:q1") {
					cl = "retained-replay-above-the-granted-qos"
				}
				c.Violate("subscribe", cl, cas(), wantFlow, got)
			}
			c14.verdict = nil
			for _, t := range []string{"s/a", "s/b", "s/rewritten"} {
				h.Send(&refmqtt.Packet{Type: refmqtt.PUBLISH, Topic: t, QoS: 1, PacketID: h.PID(), Payload: []byte("live:" + t)})
				vsched.Settle()
				h.Recv()
			}
			c14.verdict = saved
			var live []*refmqtt.Packet
			for _, r := range x.Recv() {
				live = append(live, r.P)
			}
			if got := flow(live, "live:"); got != wantFlow {
				c.Violate("subscribe", "live-delivery-differs-from-verdict-"+vd.verdict, cas(), wantFlow, got)
			}
		case "OnUnsubscribe":
			if ack := x.Connect(copts); ack == nil || ack.Code != 0 {
				c.Fatal("C14: connect failed")
				return
			}
			x.Subscribe(0, refmqtt.Sub{Filter: "s/a", QoS: 1}, refmqtt.Sub{Filter: "s/b", QoS: 1})
			x.Send(&refmqtt.Packet{Type: refmqtt.UNSUBSCRIBE, PacketID: 7, Filters: []string{"s/a", "s/b"}})
			vsched.Settle()
			want := map[string]string{"accept": "", "reject-all": "s/a:q1;s/b:q1", "reject-one": "s/a:q1"}[vd.verdict]
			if got := subsOf("x"); got != want {
				c.Violate("unsubscribe", "remaining-subscriptions-differ-from-verdict-"+vd.verdict, cas(), want, got)
			}
			if vd.version == refmqtt.V5 {
				for _, r := range x.Recv() {
					if r.P != nil && r.P.Type == refmqtt.UNSUBACK {
						wantFail := map[string]string{"accept": "ok ok", "reject-all": "fail fail", "reject-one": "fail ok"}[vd.verdict]
						var g []string
						for _, cd := range r.P.Codes {
							if cd >= 0x80 {
								g = append(g, "fail")
							} else {
								g = append(g, "ok")
							}
						}
						if strings.Join(g, " ") != wantFail {
							c.Violate("unsubscribe", "unsuback-does-not-report-verdict-"+vd.verdict, cas(), wantFail, fmt.Sprint(r.P.Codes))
						}
					}
				}
			}
		case "OnMsgArrived":
			if ack := x.Connect(copts); ack == nil || ack.Code != 0 {
				c.Fatal("C14: connect failed")
				return
			}
			// an existing retained message on the topic, set while the verdict table is off
			c14.verdict = nil
			x.Send(&refmqtt.Packet{Type: refmqtt.PUBLISH, Topic: "m/t", Retain: true, Payload: []byte("old")})
			vsched.Settle()
			watchGot()
			c14.verdict = saved
			x.Send(&refmqtt.Packet{Type: refmqtt.PUBLISH, Topic: "m/t", Retain: true, QoS: 1, PacketID: 3, Payload: []byte("new")})
			vsched.Settle()
			got := strings.Join(watchGot(), ";")
			ret := retainedSnapshot()
			var wantGot, wantRet string
			switch vd.verdict {
			case "accept":
				wantGot, wantRet = "m/t=new", "m/t=new"
			case "error", "error-plain", "error-0x80", "drop":
				wantGot, wantRet = "", "m/t=old"
			case "rewrite":
				wantGot, wantRet = "m/rewritten=REWRITTEN", "m/rewritten=REWRITTEN;m/t=old"
			}
			if got != wantGot {
				c.Violate("publish", "delivery-differs-from-verdict-"+vd.verdict, cas(), wantGot, got)
			}
			if sortedJoin(ret) != sortedJoin(wantRet) {
				cl := "retained-store-differs-from-verdict-" + vd.verdict
				c.Violate("publish", cl, cas(), wantRet, ret)
			}
			// the publisher gets an ack with the same id
			ok := false
			for _, r := range x.Recv() {
				if r.P != nil && r.P.Type == refmqtt.PUBACK && r.P.PacketID == 3 {
					ok = true
					wantCode := map[string]byte{"error": 0x87, "error-plain": 0x80, "error-0x80": 0x80}[vd.verdict]
					if wantCode != 0 && vd.version == refmqtt.V5 && r.P.Code != wantCode {
						c.Violate("publish", "puback-code-does-not-report-error", cas(), fmt.Sprintf("0x%02x", wantCode), fmt.Sprintf("0x%02x", r.P.Code))
					}
				}
			}
			if !ok {
				c.Violate("publish", "no-puback-"+vd.verdict, cas(), "PUBACK(3)", "none")
			}
			// the same verdict on a QoS 2 publish, and then the identifier is used again for a
			// publish the hooks accept: it is a new message (hook fires, subscribers get it)
			x.Send(&refmqtt.Packet{Type: refmqtt.PUBLISH, Topic: "m/q", QoS: 2, PacketID: 9, Payload: []byte("first")})
			vsched.Settle()
			var rec *refmqtt.Packet
			for _, r := range x.Recv() {
				if r.P != nil && r.P.Type == refmqtt.PUBREC && r.P.PacketID == 9 {
					rec = r.P
				}
			}
			if rec == nil {
				c.Violate("publish", "no-pubrec-"+vd.verdict, cas(), "PUBREC(9)", "none")
				return
			}
			if !(vd.version == refmqtt.V5 && rec.Code >= 0x80) {
				x.Send(&refmqtt.Packet{Type: refmqtt.PUBREL, PacketID: 9})
				vsched.Settle()
				x.Recv()
			}
			got2 := strings.Join(watchGot(), ";")
			want2 := map[string]string{"accept": "m/q=first", "rewrite": "m/rewritten=REWRITTEN"}[vd.verdict]
			if got2 != want2 {
				c.Violate("publish", "qos2-delivery-differs-from-verdict-"+vd.verdict, cas(), want2, got2)
			}
			c14.verdict = nil
			fired := 0
			for _, l := range c14.log {
				if l == "base:OnMsgArrived" {
					fired++
				}
			}
			x.Send(&refmqtt.Packet{Type: refmqtt.PUBLISH, Topic: "m/q", QoS: 2, PacketID: 9, Payload: []byte("second")})
			vsched.Settle()
			fired2 := 0
			for _, l := range c14.log {
				if l == "base:OnMsgArrived" {
					fired2++
				}
			}
			c14.verdict = saved
			if g := strings.Join(watchGot(), ";"); g != "m/q=second" || fired2 != fired+1 {
				c.Violate("publish", "identifier-reused-after-a-"+vd.verdict+"-qos2-publish-not-treated-as-a-new-message", cas(), "m/q=second delivered, OnMsgArrived fired once more", fmt.Sprintf("%q, fired %d more time(s)", g, fired2-fired))
			}
		case "OnWillPublish":
			if ack := x.Connect(copts); ack == nil || ack.Code != 0 {
				c.Fatal("C14: connect failed")
				return
			}
			x.Close()
			vsched.Settle()
			vsched.Advance(2 * time.Second)
			got := strings.Join(watchGot(), ";")
			want := map[string]string{"keep": "will/x=willmsg", "edit": "will/x=EDITED", "drop": ""}[vd.verdict]
			if got != want {
				c.Violate("will", "published-will-differs-from-verdict-"+vd.verdict, cas(), want, got)
			}
			if ret := retainedSnapshot(); ret != want {
				c.Violate("will", "retained-will-differs-from-verdict-"+vd.verdict, cas(), want, ret)
			}
		}
		swallowedPanic(c, w, cas)
	})
}

// c14AuthRounds drives the connect state machine in-package (the wire cannot complete a
// multi-round exchange, see known findings): CONNECT with an authentication method,
// then one AUTH answer; the continuation either accepts or rejects.
func c14AuthRounds(c *explore.Ctx, order []string, verdict string) {
	cas := func() any {
		return map[string]any{"part": "auth-rounds-in-package", "plugin_order": order, "verdict": verdict}
	}
	c.Count("executions", 1)
	execBody(c, "C14", cas, func() {
		c14Reset(order[len(order)-1], map[string]string{"OnEnhancedAuth": verdict})
		w := c14World(order)
		if w.InitErr != nil {
			c.Fatal("init: %v", w.InitErr)
			return
		}
		_, sc := harness.Pipe("inpkg", 1<<20)
		conn := &packets.Connect{Version: packets.Version5, ProtocolLevel: 5, ProtocolName: []byte("MQTT"), CleanStart: true, ClientID: []byte("x"),
			WillFlag: true, WillTopic: []byte("will/x"), WillMsg: []byte("w"), WillProperties: &packets.Properties{},
			Properties: &packets.Properties{AuthMethod: []byte("m")}}
		auth := &packets.Auth{Code: codes.ContinueAuthentication, Properties: &packets.Properties{AuthMethod: []byte("m"), AuthData: []byte("resp")}}
		out, ok := server.VerifRunConnect(w.Srv, sc, []packets.Packet{conn, auth})
		var last packets.Packet
		if len(out) > 0 {
			last = out[len(out)-1]
		}
		ca, _ := last.(*packets.Connack)
		reject := verdict == "continue-then-reject"
		switch {
		case ca == nil:
			c.Violate("auth-rounds", "no-connack-"+verdict, cas(), "CONNACK", fmt.Sprint(out))
		case reject && (ca.Code < 0x80 || ok):
			c.Violate("auth-rounds", "rejection-in-later-round-ignored", cas(), "failing CONNACK, connection refused", fmt.Sprintf("%v accepted=%v", ca, ok))
		case !reject && (ca.Code != 0 || !ok):
			c.Violate("auth-rounds", "accepted-exchange-refused", cas(), "CONNACK success", fmt.Sprint(ca))
		}
		if reject {
			if w.Srv.ClientService().GetClient("x") != nil {
				c.Violate("auth-leaves-nothing", "client-registered-after-rejected-auth-round", cas(), "no client", "registered")
			}
			if s, _ := w.Srv.ClientService().GetSession("x"); s != nil {
				c.Violate("auth-leaves-nothing", "session-after-rejected-auth-round", cas(), "no session", "session exists")
			}
		}
		n := 0
		for _, l := range c14.log {
			if strings.HasPrefix(l, "onauth:") {
				n++
			}
		}
		if n != 1 {
			c.Violate("auth-rounds", fmt.Sprintf("continuation-called-%d-times", n), cas(), "once", fmt.Sprint(n))
		}
	})
}

func sortedJoin(s string) string {
	p := strings.Split(s, ";")
	sortStrings(p)
	return strings.Join(p, ";")
}

func sortStrings(s []string) {
	for i := 1; i < len(s); i++ {
		for j := i; j > 0 && s[j] < s[j-1]; j-- {
			s[j], s[j-1] = s[j-1], s[j]
		}
	}
}

func runC14(c *explore.Ctx) {
	c.Level = "model_checking"
	c.Rule = "E2: (composition) every permutation of every subset of three recording plugins as plugin_order (16 orders): a trigger script fires all 19 hook kinds, and a second script runs on the redis backend across a broker restart (drop from the queue of a session restored at start-up, then resume); per kind the call log must be the repetition of enter(order...) base exit(reverse order), every exposed wrapper installed, Load/Unload once in order. (verdicts) every verdict of the table auth{accept, reject 0x86/0x87/0x80/plain error}, enhanced auth{accept, reject, continue-then-accept, continue-then-reject}, OnSubscribe{accept, reject all, reject one, downgrade, rewrite filter}, OnUnsubscribe{accept, reject all, reject one}, OnMsgArrived{accept, error, drop, rewrite}, OnWillPublish{keep, edit, drop} x v3.1.1/v5 x deciding plugin position (alone, inner, outer): wire acks, SubscriptionService / ClientService / RetainedService contents and what an independent '#' subscriber receives must equal the verdict."
	c.Trusted = []string{"vsched default schedule", "refmqtt codec", "recording plugins registered through the public RegisterPlugin/plugin_order API"}
	if rc := replayCase(c); rc != nil {
		c.Fatal("C14 replay: cases are single executions; re-run ./run.sh C14 quick (%v)", rc)
		return
	}
	names := []string{"vp1", "vp2", "vp3"}
	var orders [][]string
	var rec func(cur []string, used int)
	rec = func(cur []string, used int) {
		orders = append(orders, append([]string{}, cur...))
		for i, n := range names {
			if used&(1<<i) == 0 {
				rec(append(cur, n), used|1<<i)
			}
		}
	}
	rec(nil, 0)
	c.Extra["plugin_orders"] = len(orders)
	c.Units("composition", len(orders), func(u int) {
		if len(orders[u]) == 0 {
			return
		}
		c14Composition(c, orders[u])
		c14Restart(c, orders[u])
		c.Count("states", 2)
		c.Count("transitions", int64(len(c14Kinds)))
		if u%5 == 1 {
			c.Sample(map[string]any{"part": "composition", "plugin_order": orders[u]})
		}
	})
	vds := c14Verdicts()
	type pos struct {
		order   []string
		decider string
	}
	poss := []pos{{[]string{"vp1"}, "vp1"}, {[]string{"vp2", "vp1"}, "vp1"}, {[]string{"vp1", "vp2"}, "vp1"}}
	c.Extra["verdicts"] = len(vds)
	c.Units("verdicts", len(vds)*len(poss), func(u int) {
		vd := vds[u/len(poss)]
		p := poss[u%len(poss)]
		c14RunVerdict(c, p.order, p.decider, vd)
		c.Count("states", 1)
		c.Count("transitions", 1)
		if u%29 == 0 {
			c.Sample(map[string]any{"part": "verdict", "hook": vd.kind, "verdict": vd.verdict, "version": vd.version, "plugin_order": p.order})
		}
	})
	rounds := []string{"continue-then-accept", "continue-then-reject"}
	c.Units("auth-rounds", len(rounds)*len(poss), func(u int) {
		c14AuthRounds(c, poss[u%len(poss)].order, rounds[u/len(poss)])
		c.Count("states", 1)
		c.Count("transitions", 2)
	})
	c.Count("traces_validated_against_impl", c.Get("executions"))
}

func subscriptionAll(clientID string) subscription.IterationOptions {
	return subscription.IterationOptions{Type: subscription.TypeAll, ClientID: clientID}
}
