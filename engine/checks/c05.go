package checks

import (
	"fmt"
	"os"
	"strconv"
	"strings"
	"time"

	"github.com/DrmagicE/gmqtt/server"
	"github.com/DrmagicE/gmqtt/zzverif/vsched"

	"verif/explore"
	"verif/harness"
	"verif/refmqtt"
)

func init() { register("C05", runC05) }

type c05Ev struct {
	name    string
	kind    int // 0 connect, 1 subscribe, 2 helper publish, 3 disconnect, 4 disconnect(expiry), 5 abrupt, 6 terminate, 7 advance
	version byte
	clean   bool
	expiry  int64 // -1 absent
	adv     time.Duration
}

var c05Events = []c05Ev{
	{name: "connect(v3,clean1)", kind: 0, version: refmqtt.V311, clean: true, expiry: -1},
	{name: "connect(v3,clean0)", kind: 0, version: refmqtt.V311, clean: false, expiry: -1},
	{name: "connect(v5,clean1,noexpiry)", kind: 0, version: refmqtt.V5, clean: true, expiry: -1},
	{name: "connect(v5,clean0,expiry5)", kind: 0, version: refmqtt.V5, clean: false, expiry: 5},
	{name: "connect(v5,clean0,expiryMAX)", kind: 0, version: refmqtt.V5, clean: false, expiry: 0xFFFFFFFF},
	{name: "connect(v5,clean1,expiry5)", kind: 0, version: refmqtt.V5, clean: true, expiry: 5},
	{name: "subscribe(a,q1)", kind: 1},
	{name: "helper-publish(q1)", kind: 2},
	{name: "disconnect", kind: 3},
	{name: "disconnect(expiry3)", kind: 4, expiry: 3},
	{name: "abrupt-close", kind: 5},
	{name: "TerminateSession", kind: 6},
	{name: "advance(4s)", kind: 7, adv: 4 * time.Second},
	{name: "advance(6s)", kind: 7, adv: 6 * time.Second},
	{name: "advance(21s)", kind: 7, adv: 21 * time.Second},
	{name: "disconnect(expiry0)", kind: 4, expiry: 0},
	{name: "disconnect(expiry30)-while-session-expiry-is-0(protocol-error)", kind: 8, expiry: 30},
}

var c05Reduced = []int{3, 1, 6, 7, 8, 10, 12, 13, 14}

func c05Names(alpha []int, seq []int) []string {
	out := make([]string, len(seq))
	for i, e := range seq {
		out[i] = c05Events[alpha[e]].name
	}
	return out
}

func c05Run(c *explore.Ctx, cfgExpiry time.Duration, alpha []int, seq []int) int {
	cas := func() any {
		return map[string]any{"config_session_expiry_s": int(cfgExpiry / time.Second), "alphabet": alpha, "seq": append([]int{}, seq...), "events": c05Names(alpha, seq)}
	}
	applied := 0
	execBody(c, "C05", cas, func() {
		cfg := harness.DefaultConfig()
		cfg.MQTT.SessionExpiry = cfgExpiry
		w := harness.NewWorld(cfg, server.Hooks{})
		if w.InitErr != nil {
			c.Fatal("init: %v", w.InitErr)
			return
		}
		h := w.Dial("H")
		h.Connect(harness.ConnectOpts{ClientID: "helper", Clean: true, Version: refmqtt.V5})
		cfgS := int64(cfgExpiry / time.Second)
		var cl *harness.Client
		// reference session
		var (
			exists, online, subscribed bool
			expiry                     int64 // effective, seconds
			endsAt                     int64 // ns (virtual), valid when exists && !online
			connectedAt                int64
			version                    byte
			queued                     []string
			now                        int64
			nmsg, nconn                int
		)
		hpid := uint16(0)
		helperPublish := func(payload string) {
			hpid++
			h.Send(&refmqtt.Packet{Type: refmqtt.PUBLISH, Topic: "a", QoS: 1, PacketID: hpid, Payload: []byte(payload)})
			vsched.Settle()
			h.Recv()
		}
		// expectDeliveries: cl must have received exactly want (QoS1 publishes), acks them
		expectDeliveries := func(want []string, what string) bool {
			var got []string
			for _, r := range cl.Recv() {
				if r.P != nil && r.P.Type == refmqtt.PUBLISH {
					got = append(got, string(r.P.Payload))
					if r.P.QoS == 1 {
						cl.Send(&refmqtt.Packet{Type: refmqtt.PUBACK, PacketID: r.P.PacketID})
					}
				} else if r.P != nil {
					got = append(got, r.P.String())
				}
			}
			vsched.Settle()
			if strings.Join(got, ",") != strings.Join(want, ",") {
				cl := what + "-missing"
				if len(got) > len(want) {
					cl = what + "-unexpected"
				}
				c.Violate("session-state", cl, cas(), strings.Join(want, ","), strings.Join(got, ","))
				return false
			}
			return true
		}
		for i, ei := range seq {
			ev := c05Events[alpha[ei]]
			switch ev.kind {
			case 0:
				prevOnline := online
				var old *harness.Client
				if online {
					old = cl
				}
				nconn++
				cl = w.Dial(fmt.Sprintf("C%d", nconn))
				o := harness.ConnectOpts{ClientID: "c", Clean: ev.clean, Version: ev.version}
				if ev.version == refmqtt.V5 && ev.expiry >= 0 {
					o.Props = &refmqtt.Props{SessionExpiry: harness.U32(uint32(ev.expiry))}
				}
				ack := cl.Connect(o)
				if ack == nil || ack.Code != 0 {
					c.Violate("connect", "refused", cas(), "CONNACK success", fmt.Sprint(ack))
					return
				}
				if old != nil {
					vsched.Settle()
					if !old.ClosedByBroker() {
						c.Violate("one-connection", "displaced-connection-left-open", cas(), "old socket closed", "still open")
						return
					}
					if old.Conn.PeerCloseStamp() > cl.Inbox[0].Stamp {
						c.Violate("one-connection", "displaced-closed-after-new-connack", cas(), "close before CONNACK", fmt.Sprint(old.Conn.PeerCloseStamp(), ">", cl.Inbox[0].Stamp))
						return
					}
					// the displaced v3 clean session / v5 expiry-0 session ends with its connection
					if expiry == 0 {
						exists = false
					}
				}
				alive := exists && (prevOnline || now < endsAt)
				ambiguous := exists && !prevOnline && absI64(now-endsAt) <= int64(time.Second)
				wantSP := !ev.clean && alive
				if !ambiguous && ack.SessionPresent != wantSP {
					cls := fmt.Sprintf("sp%d-want%d", b2i(ack.SessionPresent), b2i(wantSP))
					if wantSP && ((!prevOnline && endsAt-int64(expiry)*1e9-connectedAt > int64(expiry)*1e9) || (prevOnline && now-connectedAt > int64(expiry)*1e9)) {
						cls += "-previous-connection-lasted-longer-than-expiry"
					}
					c.Violate("session-present", cls, cas(), fmt.Sprint(wantSP), fmt.Sprint(ack.SessionPresent))
					return
				}
				resumed := ack.SessionPresent
				if !resumed {
					subscribed, queued = false, nil
				}
				version = ev.version
				switch {
				case ev.version != refmqtt.V5:
					expiry = 0
					if !ev.clean {
						expiry = cfgS
					}
				case ev.expiry < 0:
					expiry = 0
				default:
					expiry = ev.expiry
					if expiry > cfgS {
						expiry = cfgS
					}
				}
				if ev.version == refmqtt.V5 {
					got := int64(-1)
					if ack.Props != nil && ack.Props.SessionExpiry != nil {
						got = int64(*ack.Props.SessionExpiry)
					}
					if got != expiry {
						c.Violate("connack-expiry", fmt.Sprintf("advertised-%d-want-%d", got, expiry), cas(), fmt.Sprint(expiry), fmt.Sprint(got))
						return
					}
				}
				exists, online, connectedAt = true, true, now
				want := queued
				queued = nil
				if !expectDeliveries(want, "offline-messages-after-resume") {
					return
				}
				// probe: is the subscription there?
				nmsg++
				probe := fmt.Sprintf("probe%d", nmsg)
				helperPublish(probe)
				var wp []string
				if subscribed {
					wp = []string{probe}
				}
				if !expectDeliveries(wp, "subscription-after-connect") {
					return
				}
			case 1:
				if !online {
					return
				}
				if ack, _ := cl.Subscribe(0, refmqtt.Sub{Filter: "a", QoS: 1}); ack == nil {
					c.Violate("subscribe", "no-suback", cas(), "SUBACK", "none")
					return
				}
				subscribed = true
			case 2:
				nmsg++
				m := fmt.Sprintf("m%d", nmsg)
				helperPublish(m)
				if online {
					var wp []string
					if subscribed {
						wp = []string{m}
					}
					if !expectDeliveries(wp, "live-delivery") {
						return
					}
				} else if exists && subscribed {
					queued = append(queued, m)
				}
			case 3, 4, 5, 8:
				if !online {
					return
				}
				if ev.kind == 8 {
					// raising the expiry from 0 at DISCONNECT is a protocol error (MQTT 5 3.14.2.2.2):
					// the packet must not change the session's fate, which ends with the connection
					if version != refmqtt.V5 || expiry != 0 {
						return
					}
					cl.Send(&refmqtt.Packet{Type: refmqtt.DISCONNECT, Props: &refmqtt.Props{SessionExpiry: harness.U32(uint32(ev.expiry))}})
				}
				if ev.kind == 4 {
					if version != refmqtt.V5 || expiry == 0 {
						return
					}
					cl.Send(&refmqtt.Packet{Type: refmqtt.DISCONNECT, Props: &refmqtt.Props{SessionExpiry: harness.U32(uint32(ev.expiry))}})
					expiry = ev.expiry
				} else if ev.kind == 3 {
					cl.Send(&refmqtt.Packet{Type: refmqtt.DISCONNECT})
				}
				vsched.Settle()
				cl.Close()
				vsched.Settle()
				online = false
				endsAt = now + expiry*1e9
				if expiry == 0 {
					exists = false
				}
			case 6:
				if !exists {
					return
				}
				w.Srv.ClientService().TerminateSession("c")
				vsched.Settle()
				if online && !cl.ClosedByBroker() {
					c.Violate("terminate", "connection-left-open", cas(), "closed", "open")
					return
				}
				exists, online, subscribed, queued = false, false, false, nil
			case 7:
				vsched.Advance(ev.adv)
				now += int64(ev.adv)
				if online && cl.ClosedByBroker() {
					c.Violate("connection-kept", "idle-connection-closed", cas(), "stays open (keep alive 0)", fmt.Sprint(w.Closeds))
					return
				}
				if online {
					// a connected client must keep its session and subscription: probe
					nmsg++
					probe := fmt.Sprintf("probe%d", nmsg)
					helperPublish(probe)
					var wp []string
					if subscribed {
						wp = []string{probe}
					}
					if !expectDeliveries(wp, "subscription-while-connected") {
						return
					}
				}
			}
			applied = i + 1
			if verbose {
				fmt.Printf("  %-30s exists=%v online=%v sub=%v expiry=%d endsAt=%ds now=%ds queued=%v\n", ev.name, exists, online, subscribed, expiry, endsAt/1e9, now/1e9, queued)
			}
		}
		swallowedPanic(c, w, cas)
	})
	return applied
}

func absI64(x int64) int64 {
	if x < 0 {
		return -x
	}
	return x
}

func runC05(c *explore.Ctx) {
	c.Level = "model_checking"
	c.Rule = "E2 (virtual clock): every sequence of connect variants (v3/v5, clean 0/1, expiry absent/5/MAX; a connect while connected is a take-over), subscribe, helper publish, DISCONNECT (plain, expiry 3, expiry 0, and the invalid raise from expiry 0), abrupt close, TerminateSession and clock advances (4s/6s/21s) up to the depth for config session_expiry 10s and 2h, on a fresh in-process broker; reference session model (ends_at = end of last connection + effective expiry) decides Session Present, delivery of offline QoS1 messages and whether the subscription survived; a probe publish after every connect observes the subscription. E3: simultaneous CONNECTs with one client id, and TerminateSession racing the client's own disconnect, under all schedules with <=k deviations."
	c.Trusted = []string{"vsched scheduler, virtual clock and memconn", "refmqtt codec"}
	c.Assumptions = []string{"a reconnect within 1s of the computed expiry instant is accepted either way", "DISCONNECT may only lower the expiry to a value <= configured maximum (statement silent on capping)"}
	if rc := replayCase(c); rc != nil {
		c05Run(c, time.Duration(rc["config_session_expiry_s"].(float64))*time.Second, intsOf(rc["alphabet"]), intsOf(rc["seq"]))
		return
	}
	c05Takeover(c)
	full := make([]int, len(c05Events))
	for i := range full {
		full[i] = i
	}
	dFull, dRed := 4, 5
	if !c.Quick() {
		dFull, dRed = 5, 6
	}
	c.Extra["depth_full_alphabet"] = dFull
	c.Extra["depth_reduced_alphabet"] = dRed
	for _, ce := range []time.Duration{10 * time.Second, 2 * time.Hour} {
		ce := ce
		for _, a := range []struct {
			alpha []int
			depth int
			name  string
		}{{full, dFull, "full"}, {c05Reduced, dRed, "reduced"}} {
			a := a
			treeUnits(c, fmt.Sprintf("tree-%s-%ds", a.name, int(ce/time.Second)), len(a.alpha), a.depth, func(seq []int) int {
				n := c05Run(c, ce, a.alpha, seq)
				if n == len(seq) && c.Get("executions")%4000 == 0 {
					c.Sample(map[string]any{"config_session_expiry_s": int(ce / time.Second), "events": c05Names(a.alpha, seq)})
				}
				return n
			})
		}
	}
}

// ---- E3: simultaneous CONNECTs with one client id, all schedules up to a preemption bound

type c05TakeoverObs struct {
	done     bool
	problems [][3]string // rule, class, detail
	outcome  string
}

// c05TakeoverBody: optional stored offline session, then n connections send CONNECT
// for the same client id concurrently (one harness thread each); afterwards every
// connection pings and a helper publishes.
func c05TakeoverBody(obs *c05TakeoverObs, n int, offlineSession bool, clean bool, onlineOld ...bool) func() {
	online := len(onlineOld) > 0 && onlineOld[0]
	return func() {
		*obs = c05TakeoverObs{}
		bad := func(rule, class, detail string) { obs.problems = append(obs.problems, [3]string{rule, class, detail}) }
		w := harness.NewWorld(harness.DefaultConfig(), server.Hooks{})
		h := w.Dial("H")
		h.Connect(harness.ConnectOpts{ClientID: "helper", Clean: true, Version: refmqtt.V5})
		props := func() *refmqtt.Props { return &refmqtt.Props{SessionExpiry: harness.U32(3600)} }
		if offlineSession {
			x := w.Dial("X0")
			x.Connect(harness.ConnectOpts{ClientID: "c", Clean: true, Version: refmqtt.V5, Props: props()})
			x.Subscribe(0, refmqtt.Sub{Filter: "a", QoS: 0})
			x.Close()
			vsched.Settle()
		}
		cls := make([]*harness.Client, n)
		for i := range cls {
			cls[i] = w.Dial(fmt.Sprintf("X%d", i+1))
			cls[i].Version, cls[i].ID = refmqtt.V5, "c"
		}
		var oldStamp int64
		if online {
			// an older connection of the client id is attached and stays; it is displaced too
			x := w.Dial("X0")
			x.Connect(harness.ConnectOpts{ClientID: "c", Clean: true, Version: refmqtt.V5, Props: props()})
			if len(x.Inbox) > 0 {
				oldStamp = x.Inbox[0].Stamp
			}
			cls = append([]*harness.Client{x}, cls...)
		}
		for i := range cls {
			i := i
			if online && i == 0 {
				continue
			}
			vsched.Go(fmt.Sprintf("client%d", i+1), func() {
				cls[i].Send(harness.ConnectPacket(harness.ConnectOpts{ClientID: "c", Clean: clean, Version: refmqtt.V5, Props: props()}))
			})
		}
		vsched.Settle()
		// every connection must have an answer: CONNACK or close
		type st struct {
			connack int64
			closed  int64
		}
		sts := make([]st, len(cls))
		if online {
			sts[0].connack = oldStamp
		}
		attached := 0
		for i, x := range cls {
			for _, r := range x.Recv() {
				if r.P != nil && r.P.Type == refmqtt.CONNACK && r.P.Code == 0 {
					sts[i].connack = r.Stamp
				}
			}
			if x.ClosedByBroker() {
				sts[i].closed = x.Conn.PeerCloseStamp()
			}
			if sts[i].connack == 0 && sts[i].closed == 0 {
				bad("liveness", "connect-unanswered", fmt.Sprintf("connection %d got neither CONNACK nor close; parked: %v", i+1, vsched.ThreadsParked()))
			}
			if sts[i].connack != 0 && sts[i].closed == 0 {
				attached++
			}
		}
		if attached > 1 {
			bad("one-connection", fmt.Sprintf("%d-connections-attached-to-one-client-id", attached), fmt.Sprint(sts))
		}
		if attached == 0 && len(obs.problems) == 0 {
			bad("one-connection", "no-connection-survived", fmt.Sprint(sts))
		}
		// a displaced socket is closed before the displacer is acknowledged: every
		// acknowledged-then-closed socket must have been closed before some later CONNACK
		for i := range sts {
			if sts[i].connack != 0 && sts[i].closed != 0 {
				ok := false
				for j := range sts {
					if j != i && sts[j].connack > sts[i].closed {
						ok = true
					}
				}
				if !ok {
					bad("one-connection", "displaced-socket-closed-after-displacer-connack", fmt.Sprint(sts))
				}
			}
		}
		// pings: exactly the attached connection answers
		for _, x := range cls {
			if !x.ClosedByBroker() {
				x.Send(&refmqtt.Packet{Type: refmqtt.PINGREQ})
			}
		}
		vsched.Settle()
		answered := 0
		for _, x := range cls {
			for _, r := range x.Recv() {
				if r.P != nil && r.P.Type == refmqtt.PINGRESP {
					answered++
				}
			}
		}
		if answered != 1 && len(obs.problems) == 0 {
			bad("one-connection", fmt.Sprintf("%d-connections-answer-ping", answered), fmt.Sprint(sts))
		}
		// service view
		if w.Srv.ClientService().GetClient("c") == nil && attached >= 1 {
			bad("one-connection", "attached-connection-unknown-to-client-service", fmt.Sprint(sts))
		}
		if p := w.SwallowedPanic(); p != "" {
			bad("no-panic", "recovered: "+trimTo(p, 80), p)
		}
		obs.outcome = fmt.Sprint(attached, "/", answered)
		for i := range sts {
			obs.outcome += fmt.Sprintf(" %v%v", sts[i].connack != 0, sts[i].closed != 0)
		}
		obs.done = true
	}
}

// c05TerminateRace: the client's own disconnect races an administrative
// TerminateSession: once TerminateSession has returned and the system is quiescent the
// session is gone whatever the interleaving (Session Present 0, no subscription, no
// queued message on the next Clean Start 0 CONNECT).
func c05TerminateRaceBody(obs *c05TakeoverObs, ending int) func() {
	return func() {
		*obs = c05TakeoverObs{}
		bad := func(rule, class, detail string) { obs.problems = append(obs.problems, [3]string{rule, class, detail}) }
		w := harness.NewWorld(harness.DefaultConfig(), server.Hooks{})
		h := w.Dial("H")
		h.Connect(harness.ConnectOpts{ClientID: "helper", Clean: true, Version: refmqtt.V5})
		props := func() *refmqtt.Props { return &refmqtt.Props{SessionExpiry: harness.U32(3600)} }
		x := w.Dial("X")
		x.Connect(harness.ConnectOpts{ClientID: "c", Clean: true, Version: refmqtt.V5, Props: props()})
		x.Subscribe(0, refmqtt.Sub{Filter: "a", QoS: 1})
		vsched.Go("client-ends", func() {
			if ending == 1 {
				x.Send(&refmqtt.Packet{Type: refmqtt.DISCONNECT})
			}
			x.Close()
		})
		vsched.Go("terminate", func() { w.Srv.ClientService().TerminateSession("c") })
		vsched.Settle()
		if s, _ := w.Srv.ClientService().GetSession("c"); s != nil {
			bad("resume-iff", "session-survives-TerminateSession-racing-the-client's-own-disconnect", "GetSession still returns it")
		}
		h.Send(&refmqtt.Packet{Type: refmqtt.PUBLISH, Topic: "a", QoS: 1, PacketID: 1, Payload: []byte("offline")})
		vsched.Settle()
		y := w.Dial("Y")
		ack := y.Connect(harness.ConnectOpts{ClientID: "c", Clean: false, Version: refmqtt.V5, Props: props()})
		vsched.Settle()
		got := 0
		for _, r := range y.Recv() {
			if r.P != nil && r.P.Type == refmqtt.PUBLISH {
				got++
			}
		}
		switch {
		case ack == nil || ack.Code != 0:
			bad("liveness", "connect-after-terminate-refused", fmt.Sprint(ack))
		case ack.SessionPresent:
			bad("resume-iff", "session-present-1-after-TerminateSession", fmt.Sprintf("messages delivered: %d", got))
		case got != 0:
			bad("resume-iff", "subscription-or-queue-survived-TerminateSession", fmt.Sprint(got))
		}
		if p := w.SwallowedPanic(); p != "" {
			bad("no-panic", "recovered: "+trimTo(p, 80), p)
		}
		obs.outcome = fmt.Sprint(ack != nil && ack.SessionPresent, got)
		obs.done = true
	}
}

func schedScenario(c *explore.Ctx, name string, bound int, obsProblems func() [][3]string, outcome func() string, body func(), extra map[string]any) {
	if dn := os.Getenv("VERIF_DEBUG_SCENARIO"); dn != "" {
		// development aid: VERIF_DEBUG_SCENARIO=<name> VERIF_DEBUG_CHOICES=1,0,2 prints the step log of one schedule
		if dn != name {
			return
		}
		var ch []int
		for _, f := range strings.Split(os.Getenv("VERIF_DEBUG_CHOICES"), ",") {
			if n, err := strconv.Atoi(strings.TrimSpace(f)); err == nil {
				ch = append(ch, n)
			}
		}
		r, div := explore.RunPrefix(ch, nil, true, body)
		l := r.Log
		if len(l) > 400 {
			l = l[len(l)-400:]
		}
		for _, x := range l {
			fmt.Println(x)
		}
		fmt.Println("divergence:", div, "problems:", obsProblems(), "steplimit:", r.StepLimit, "deadlock:", r.Deadlock, r.Parked)
		return
	}
	if extra["switch_choice"] == true {
		explore.SwitchChoice = true
		defer func() { explore.SwitchChoice = false }()
	}
	explore.DFS(c, explore.DFSConfig{Name: name, Bound: bound, Body: body, ShardDepth: 1, Check: func(r *vsched.Result, choices []int) {
		cas := func() any {
			m := map[string]any{"scenario": name, "deviation_bound": bound, "choices": choices}
			for k, v := range extra {
				m[k] = v
			}
			return m
		}
		if r.Panic != "" {
			c.Violate("no-panic", panicClass(r.Panic), cas(), "no panic", firstLines(r.Panic, 12))
			return
		}
		if r.Deadlock {
			c.Violate("no-deadlock", name+":harness-blocked@"+r.ParkedMain, cas(), "scenario completes", "blocked; parked: "+strings.Join(r.Parked, ","))
			return
		}
		if sp := gmqttSpinner(r); r.StepLimit && sp != "" {
			c.Violate("no-livelock", name+":busy-loop:"+sp, cas(), "every goroutine blocks or exits", "goroutine "+r.Spinner+" keeps running alone without ever blocking (>100000 consecutive scheduling points)")
			return
		}
		if r.StepLimit {
			c.Fatal("%s: step limit (choices %v; parked %v)", name, choices, r.Parked)
			return
		}
		for _, p := range obsProblems() {
			c.Violate(p[0], name+":"+p[1], cas(), "property holds in every schedule", p[2])
		}
		c.Outcome(name + ":" + outcome())
	}})
}

func c05Takeover(c *explore.Ctx) {
	bound := 1
	if !c.Quick() {
		bound = 2
	}
	c.Extra["deviation_bound"] = bound
	type sc struct {
		n       int
		offline bool
		clean   bool
	}
	{
		obs := &c05TakeoverObs{}
		name := "takeover-of-an-online-client-by-two-connections"
		schedScenario(c, name, bound, func() [][3]string { return obs.problems }, func() string { return obs.outcome }, c05TakeoverBody(obs, 2, false, true, true), map[string]any{"connections": 2, "online_old_client": true, "clean_start": true})
	}
	scs := []sc{{2, false, true}, {2, true, false}, {2, true, true}}
	if !c.Quick() {
		scs = append(scs, sc{3, false, true}, sc{2, false, false})
	}
	for ending := 0; ending < 2; ending++ {
		obs := &c05TakeoverObs{}
		name := fmt.Sprintf("terminate-vs-%s", []string{"socket-close", "disconnect"}[ending])
		schedScenario(c, name, bound, func() [][3]string { return obs.problems }, func() string { return obs.outcome }, c05TerminateRaceBody(obs, ending), map[string]any{"ending": ending})
	}
	for _, s := range scs {
		obs := &c05TakeoverObs{}
		name := fmt.Sprintf("takeover-n%d-offline%v-clean%v", s.n, s.offline, s.clean)
		schedScenario(c, name, bound, func() [][3]string { return obs.problems }, func() string { return obs.outcome }, c05TakeoverBody(obs, s.n, s.offline, s.clean), map[string]any{"connections": s.n, "offline_session": s.offline, "clean_start": s.clean})
	}
}
