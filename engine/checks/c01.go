package checks

import (
	"fmt"
	"sort"
	"strings"

	"github.com/DrmagicE/gmqtt"
	"github.com/DrmagicE/gmqtt/pkg/packets"
	"github.com/DrmagicE/gmqtt/server"
	"github.com/DrmagicE/gmqtt/zzverif/vsched"

	"verif/explore"
	"verif/harness"
	"verif/refmqtt"
)

func init() { register("C01", runC01) }

type c01Sub struct {
	client int // 0 = s1 (v5), 1 = s2 (v3.1.1), 2 = p (v5, also publishes)
	filter string
	qos    byte
	nl     bool
	rap    bool
	id     uint32
}

func (s c01Sub) String() string {
	return fmt.Sprintf("%s:%s q%d nl%v rap%v id%d", c01Clients[s.client], s.filter, s.qos, s.nl, s.rap, s.id)
}

var c01Clients = []string{"s1", "s2", "p"}
var c01Filters = []string{"a", "a/b", "a/+", "a/#", "+", "#"}

func c01Candidates(reduced bool, fewFlags ...bool) []c01Sub {
	var out []c01Sub
	filters := c01Filters
	qoss := []byte{0, 1, 2}
	if reduced {
		filters = []string{"a", "a/#", "+"}
		qoss = []byte{0, 2}
	}
	type fl struct {
		nl, rap bool
		id      uint32
	}
	flags := []fl{{false, false, 0}, {true, false, 0}, {false, true, 0}, {false, false, 1}, {false, false, 2}, {true, true, 1}}
	if len(fewFlags) > 0 && fewFlags[0] {
		flags = []fl{{false, false, 0}, {false, false, 2}, {true, true, 1}}
	}
	for cl := 0; cl < 3; cl++ {
		for _, f := range filters {
			for _, q := range qoss {
				if cl == 1 {
					out = append(out, c01Sub{client: cl, filter: f, qos: q})
					continue
				}
				for _, g := range flags {
					out = append(out, c01Sub{client: cl, filter: f, qos: q, nl: g.nl, rap: g.rap, id: g.id})
				}
			}
		}
	}
	return out
}

type c01Pub struct {
	kind   int // 0 = v5 client p, 1 = v3 client q, 2 = Publisher API
	topic  string
	qos    byte
	retain bool
	props  bool
	alias  int // 0 none, 1 topic name + Topic Alias 1 (binds or re-binds it), 2 empty topic name + Topic Alias 1
}

func (p c01Pub) String() string {
	s := fmt.Sprintf("%s:%s q%d ret%v props%v", []string{"p(v5)", "q(v3)", "api"}[p.kind], p.topic, p.qos, p.retain, p.props)
	if p.alias != 0 {
		s += []string{"", " with-alias-1", " by-alias-1-only"}[p.alias]
	}
	return s
}

func c01Pubs() []c01Pub {
	var out []c01Pub
	n := 0
	for kind := 0; kind < 3; kind++ {
		for _, t := range []string{"a", "a/b", "b", "$SYS/a"} {
			for q := byte(0); q <= 2; q++ {
				for _, r := range []bool{false, true} {
					n++
					out = append(out, c01Pub{kind: kind, topic: t, qos: q, retain: r, props: kind != 1 && n%2 == 0})
				}
			}
		}
	}
	// the v5 publisher uses an inbound topic alias: bind, use, re-bind to another topic, use
	for _, t := range []string{"a", "a/b", "b", "a"} {
		out = append(out, c01Pub{kind: 0, topic: t, qos: 1, alias: 1}, c01Pub{kind: 0, topic: t, qos: 0, alias: 2}, c01Pub{kind: 0, topic: t, qos: 2, alias: 2})
	}
	return out
}

type c01Copy struct {
	qos    byte
	retain string // "0", "1" or "?" (either accepted)
	ids    string
	props  bool
}

func (c c01Copy) String() string {
	return fmt.Sprintf("q%d ret%s ids[%s] props%v", c.qos, c.retain, c.ids, c.props)
}

func idsStr(ids []uint32) string {
	sort.Slice(ids, func(i, j int) bool { return ids[i] < ids[j] })
	var s []string
	for _, i := range ids {
		s = append(s, fmt.Sprint(i))
	}
	return strings.Join(s, ",")
}

// c01Expect computes the copies client cl must receive for pub.
func c01Expect(mode string, table map[string]c01Sub, cl int, pub c01Pub) []c01Copy {
	var m []c01Sub
	for _, s := range table {
		if s.client != cl || !refmqtt.Match(pub.topic, s.filter) {
			continue
		}
		if s.nl && cl == 2 && pub.kind == 0 {
			continue
		}
		m = append(m, s)
	}
	sort.Slice(m, func(i, j int) bool { return m[i].filter < m[j].filter })
	v5 := cl != 1
	var out []c01Copy
	min := func(a, b byte) byte {
		if a < b {
			return a
		}
		return b
	}
	ret := func(rap bool) string {
		if pub.retain && rap && v5 {
			return "1"
		}
		return "0"
	}
	if mode == "overlap" {
		for _, s := range m {
			c := c01Copy{qos: min(pub.qos, s.qos), retain: ret(s.rap), props: pub.props && v5}
			if s.id != 0 && v5 {
				c.ids = fmt.Sprint(s.id)
			}
			out = append(out, c)
		}
		return out
	}
	if len(m) == 0 {
		return nil
	}
	var maxq byte
	var ids []uint32
	rap0, rap1 := false, false
	for _, s := range m {
		if s.qos > maxq {
			maxq = s.qos
		}
		if s.id != 0 && v5 {
			ids = append(ids, s.id)
		}
		if s.rap {
			rap1 = true
		} else {
			rap0 = true
		}
	}
	c := c01Copy{qos: min(pub.qos, maxq), ids: idsStr(ids), props: pub.props && v5}
	switch {
	case !pub.retain || !v5:
		c.retain = "0"
	case rap1 && rap0:
		c.retain = "?"
	default:
		c.retain = ret(rap1)
	}
	return []c01Copy{c}
}

func copiesMatch(got, want []c01Copy) bool {
	if len(got) != len(want) {
		return false
	}
	used := make([]bool, len(got))
	for _, w := range want {
		found := false
		for i, g := range got {
			if used[i] {
				continue
			}
			if g.qos == w.qos && g.ids == w.ids && g.props == w.props && (w.retain == "?" || g.retain == w.retain) {
				used[i], found = true, true
				break
			}
		}
		if !found {
			return false
		}
	}
	return true
}

func c01Class(got, want []c01Copy, mode string) string {
	switch {
	case len(got) < len(want):
		return "missing-copy-" + mode
	case len(got) > len(want):
		if len(want) == 0 {
			return "unmatched-delivery-" + mode
		}
		return "extra-copy-" + mode
	}
	// same count: which attribute differs
	gq, wq := "", ""
	gi, wi := "", ""
	gr, wr := "", ""
	for i := range got {
		gq += fmt.Sprint(got[i].qos)
		wq += fmt.Sprint(want[i].qos)
		gi += got[i].ids + ";"
		wi += want[i].ids + ";"
		gr += got[i].retain
		wr += want[i].retain
	}
	switch {
	case sortStr(gq) != sortStr(wq):
		return "wrong-qos-" + mode
	case sortStr(gi) != sortStr(wi):
		return "wrong-subscription-ids-" + mode
	case strings.ReplaceAll(wr, "?", "") != "" && gr != wr:
		return "wrong-retain-flag-" + mode
	}
	return "wrong-properties-" + mode
}

func sortStr(s string) string {
	b := []byte(s)
	sort.Slice(b, func(i, j int) bool { return b[i] < b[j] })
	return string(b)
}

func allPubProps() *refmqtt.Props {
	return &refmqtt.Props{PayloadFormat: harness.U8(1), ContentType: harness.Str("ct"), ResponseTopic: harness.Str("rt"), CorrelationData: []byte("cd"), HasCorrelationData: true, User: []refmqtt.KV{{K: "k", V: "v"}}}
}

func propsComplete(p *refmqtt.Props) bool {
	return p != nil && p.PayloadFormat != nil && *p.PayloadFormat == 1 && p.ContentType != nil && *p.ContentType == "ct" && p.ResponseTopic != nil && *p.ResponseTopic == "rt" && string(p.CorrelationData) == "cd" && len(p.User) == 1 && p.User[0].K == "k" && p.User[0].V == "v"
}

func propsEmpty(p *refmqtt.Props) bool {
	return p == nil || (p.PayloadFormat == nil && p.ContentType == nil && p.ResponseTopic == nil && !p.HasCorrelationData && len(p.User) == 0)
}

// c01World runs one subscription table and the whole publish battery.
func c01World(c *explore.Ctx, mode string, subs []c01Sub, pubs []c01Pub, unsubFirst bool) {
	cas := func() any {
		var ss []string
		for _, s := range subs {
			ss = append(ss, s.String())
		}
		if unsubFirst {
			ss = append(ss, "UNSUBSCRIBE "+c01Clients[subs[0].client]+":"+subs[0].filter)
		}
		return map[string]any{"mode": mode, "subscriptions": ss}
	}
	c.Count("executions", 1)
	execBody(c, "C01", cas, func() {
		cfg := harness.DefaultConfig()
		cfg.MQTT.DeliveryMode = mode
		w := harness.NewWorld(cfg, server.Hooks{})
		if w.InitErr != nil {
			c.Fatal("init: %v", w.InitErr)
			return
		}
		cl := make([]*harness.Client, 4)
		vers := []byte{refmqtt.V5, refmqtt.V311, refmqtt.V5, refmqtt.V311}
		names := []string{"s1", "s2", "p", "q"}
		for i := range cl {
			cl[i] = w.Dial(names[i])
			if ack := cl[i].Connect(harness.ConnectOpts{ClientID: names[i], Clean: true, Version: vers[i]}); ack == nil || ack.Code != 0 {
				c.Fatal("C01: connect %s failed: %v", names[i], ack)
				return
			}
		}
		table := map[string]c01Sub{}
		for _, s := range subs {
			ack, rest := cl[s.client].Subscribe(s.id, refmqtt.Sub{Filter: s.filter, QoS: s.qos, NoLocal: s.nl, RAP: s.rap})
			if ack == nil || len(ack.Codes) != 1 || ack.Codes[0] != s.qos {
				c.Violate("suback", "granted-qos-differs", cas(), fmt.Sprint(s.qos), fmt.Sprint(ack))
				return
			}
			if len(rest) != 0 {
				c.Violate("delivery", "unexpected-packet-after-subscribe", cas(), "nothing", pktStrs(rest))
				return
			}
			table[fmt.Sprint(s.client, "|", s.filter)] = s
		}
		if unsubFirst {
			x := cl[subs[0].client]
			x.Send(&refmqtt.Packet{Type: refmqtt.UNSUBSCRIBE, PacketID: x.PID(), Filters: []string{subs[0].filter}})
			vsched.Settle()
			ok := false
			for _, r := range x.Recv() {
				if r.P != nil && r.P.Type == refmqtt.UNSUBACK {
					ok = true
				}
			}
			if !ok {
				c.Violate("unsuback", "missing", cas(), "UNSUBACK", "none")
				return
			}
			delete(table, fmt.Sprint(subs[0].client, "|", subs[0].filter))
		}
		c.Count("states", 1)
		lastSeq := map[string]int{} // subscriber|publisher -> last payload number seen
		pid := uint16(0)
		for n, pub := range pubs {
			payload := fmt.Sprintf("n%d", n)
			pcas := func() any {
				m := cas().(map[string]any)
				m["publish"] = pub.String()
				return m
			}
			pid++
			var pubc *harness.Client
			switch pub.kind {
			case 0, 1:
				pubc = cl[2+pub.kind]
				pk := &refmqtt.Packet{Type: refmqtt.PUBLISH, Topic: pub.topic, QoS: pub.qos, Retain: pub.retain, Payload: []byte(payload)}
				if pub.qos > 0 {
					pk.PacketID = pid
				}
				if pub.props {
					pk.Props = allPubProps()
				}
				if pub.alias != 0 {
					pk.Props = &refmqtt.Props{TopicAlias: harness.U16(1)}
					if pub.alias == 2 {
						pk.Topic = ""
					}
				}
				pubc.Send(pk)
			case 2:
				m := &gmqtt.Message{Topic: pub.topic, QoS: pub.qos, Retained: pub.retain, Payload: []byte(payload)}
				if pub.props {
					m.PayloadFormat, m.ContentType, m.ResponseTopic, m.CorrelationData = 1, "ct", "rt", []byte("cd")
					m.UserProperties = append(m.UserProperties, packets.UserProperty{K: []byte("k"), V: []byte("v")})
				}
				w.Srv.Publisher().Publish(m)
			}
			vsched.Settle()
			c.Count("transitions", 1)
			anyMatch := false
			// subscribers (p is one too)
			for ci := 0; ci < 3; ci++ {
				want := c01Expect(mode, table, ci, pub)
				if len(want) > 0 {
					anyMatch = true
				}
				var got []c01Copy
				var acks []*refmqtt.Packet
				for _, r := range cl[ci].Recv() {
					if r.P == nil || r.Err != nil {
						c.Violate("decodable", "subscriber-rx-undecodable", pcas(), "valid packet", fmt.Sprint(r.Err))
						continue
					}
					switch r.P.Type {
					case refmqtt.PUBLISH:
						if string(r.P.Payload) != payload || r.P.Topic != pub.topic {
							c.Violate("delivery", "foreign-message", pcas(), payload+"@"+pub.topic, r.P.String())
							continue
						}
						if r.P.Dup {
							c.Violate("delivery", "dup-on-first-transmission", pcas(), "DUP=0", r.P.String())
						}
						g := c01Copy{qos: r.P.QoS, retain: "0"}
						if r.P.Retain {
							g.retain = "1"
						}
						if r.P.Props != nil {
							g.ids = idsStr(append([]uint32{}, r.P.Props.SubIDs...))
						}
						if pub.props && ci != 1 {
							g.props = propsComplete(r.P.Props)
						} else if !propsEmpty(r.P.Props) {
							g.props = true
						}
						got = append(got, g)
						if r.P.QoS == 1 {
							acks = append(acks, &refmqtt.Packet{Type: refmqtt.PUBACK, PacketID: r.P.PacketID})
						} else if r.P.QoS == 2 {
							acks = append(acks, &refmqtt.Packet{Type: refmqtt.PUBREC, PacketID: r.P.PacketID})
						}
					case refmqtt.PUBACK, refmqtt.PUBREC, refmqtt.PUBCOMP:
						if ci != 2 {
							c.Violate("delivery", "ack-to-non-publisher", pcas(), "nothing", r.P.String())
						} else {
							cl[2].Inbox = append(cl[2].Inbox, r) // re-queue for the publisher check below
						}
					default:
						c.Violate("delivery", "unexpected-packet-type", pcas(), "PUBLISH", r.P.String())
					}
				}
				if !copiesMatch(got, want) {
					c.Violate("delivery", c01Class(got, want, mode), pcas(), fmt.Sprint(want), fmt.Sprint(got))
				}
				key := fmt.Sprint(ci, "|", pub.kind)
				if len(got) > 0 {
					if lastSeq[key] > n {
						c.Violate("order", "out-of-publication-order", pcas(), "non-decreasing", fmt.Sprint(lastSeq[key], ">", n))
					}
					lastSeq[key] = n
				}
				for _, a := range acks {
					cl[ci].Send(a)
				}
				if len(acks) > 0 {
					vsched.Settle()
					for _, r := range cl[ci].Recv() {
						if r.P != nil && r.P.Type == refmqtt.PUBREL {
							cl[ci].Send(&refmqtt.Packet{Type: refmqtt.PUBCOMP, PacketID: r.P.PacketID})
						} else if r.P != nil && ci == 2 && (r.P.Type == refmqtt.PUBACK || r.P.Type == refmqtt.PUBREC) {
							cl[2].Inbox = append(cl[2].Inbox, r)
						} else {
							c.Violate("delivery", "unexpected-packet-after-ack", pcas(), "PUBREL or nothing", fmt.Sprint(r.P))
						}
					}
					vsched.Settle()
				}
			}
			// publisher acknowledgement
			if pubc != nil {
				var acks []*refmqtt.Packet
				for _, r := range pubc.Recv() {
					if r.P != nil && (r.P.Type == refmqtt.PUBACK || r.P.Type == refmqtt.PUBREC) {
						acks = append(acks, r.P)
					} else if r.P != nil && pub.kind == 1 {
						c.Violate("delivery", "packet-to-pure-publisher", pcas(), "acks only", r.P.String())
					}
				}
				switch pub.qos {
				case 0:
					if len(acks) != 0 {
						c.Violate("publisher-ack", "ack-for-qos0", pcas(), "none", pktStrs(acks))
					}
				default:
					wantT := byte(refmqtt.PUBACK)
					if pub.qos == 2 {
						wantT = refmqtt.PUBREC
					}
					if len(acks) != 1 || acks[0].Type != wantT || acks[0].PacketID != pid {
						c.Violate("publisher-ack", fmt.Sprintf("qos%d-ack-missing-or-wrong-id", pub.qos), pcas(), fmt.Sprintf("%s(%d)", refmqtt.TypeNames[wantT], pid), pktStrs(acks))
					} else if pub.kind == 0 {
						wantCode := byte(0x10)
						if anyMatch {
							wantCode = 0
						}
						if acks[0].Code != wantCode {
							c.Violate("publisher-ack", fmt.Sprintf("reason-code-0x%02x-want-0x%02x", acks[0].Code, wantCode), pcas(), fmt.Sprintf("0x%02x", wantCode), fmt.Sprintf("0x%02x", acks[0].Code))
						}
					}
					if pub.qos == 2 && pub.alias == 0 {
						// the publisher retransmits the PUBLISH (DUP, same identifier) before PUBREL: it is
						// acknowledged again with the same identifier and reaches nobody a second time
						re := &refmqtt.Packet{Type: refmqtt.PUBLISH, Topic: pub.topic, QoS: 2, Retain: pub.retain, Dup: true, PacketID: pid, Payload: []byte(payload)}
						if pub.props {
							re.Props = allPubProps()
						}
						pubc.Send(re)
						vsched.Settle()
						n2 := 0
						for _, r := range pubc.Recv() {
							if r.P != nil && r.P.Type == refmqtt.PUBREC && r.P.PacketID == pid {
								n2++
							} else if r.P != nil && r.P.Type == refmqtt.PUBLISH && string(r.P.Payload) == payload {
								c.Violate("delivery", "retransmitted-qos2-publish-forwarded-again", pcas(), "no second copy", r.P.String())
							}
						}
						if n2 != 1 {
							c.Violate("publisher-ack", "retransmitted-qos2-publish-not-acknowledged", pcas(), fmt.Sprintf("PUBREC(%d)", pid), fmt.Sprint(n2, " PUBREC"))
						}
						for ci := 0; ci < 3; ci++ {
							if cl[ci] == pubc {
								continue
							}
							for _, r := range cl[ci].Recv() {
								if r.P != nil && r.P.Type == refmqtt.PUBLISH && string(r.P.Payload) == payload {
									c.Violate("delivery", "retransmitted-qos2-publish-forwarded-again", pcas(), "no second copy", r.P.String())
								}
							}
						}
					}
					if pub.qos == 2 {
						pubc.Send(&refmqtt.Packet{Type: refmqtt.PUBREL, PacketID: pid})
						vsched.Settle()
						ok := false
						for _, r := range pubc.Recv() {
							if r.P != nil && r.P.Type == refmqtt.PUBCOMP && r.P.PacketID == pid {
								ok = true
							}
						}
						if !ok {
							c.Violate("publisher-ack", "pubcomp-missing", pcas(), fmt.Sprintf("PUBCOMP(%d)", pid), "none")
						}
					}
				}
			}
			for i, x := range cl {
				if x.ClosedByBroker() {
					c.Violate("connection-kept", "client-disconnected:"+names[i], pcas(), "all connections stay up", fmt.Sprint(w.Closeds))
					return
				}
			}
		}
		if len(w.Drops) > 0 {
			c.Violate("no-drop", "message-dropped-without-drop-condition", cas(), "no drops", fmt.Sprint(w.Drops[0]))
		}
		swallowedPanic(c, w, cas)
	})
}

func runC01(c *explore.Ctx) {
	c.Level = "model_checking"
	c.Rule = "E2: every subscription table of 1..2 (thorough: a third from a reduced set) subscriptions over {s1(v5), s2(v3.1.1), p(v5, publishes itself)} x 6 filters x QoS x {plain, NoLocal, RAP, id1, id2, NoLocal+RAP+id1}, in both delivery modes; each table is installed on a fresh in-process broker through real SUBSCRIBE packets, then the whole publish battery (v5 client / v3 client / Publisher API x 4 topics x QoS x retain x properties, then the v5 client publishing through an inbound topic alias that is bound, used, re-bound to another topic and used again) is sent, every delivery acknowledged; after each publish every socket is compared with the expected multiset of copies (count, QoS, RETAIN, subscription ids, properties), publication order and publisher acks (every QoS 2 publish of a client is also retransmitted with DUP before its PUBREL: acknowledged again, forwarded to nobody again). states = tables installed, transitions = publishes checked."
	c.Trusted = []string{"vsched default schedule (0 deviations)", "refmqtt codec and matcher"}
	c.Assumptions = []string{"onlyonce mode with matching subscriptions that disagree on Retain-As-Published: either RETAIN value is accepted (statement silent)", "queue 1000, no packet size limit, default 2h message expiry: no documented drop condition is active"}
	cands := c01Candidates(false)
	second := c01Candidates(true, c.Quick())
	pubs := c01Pubs()
	c.Extra["candidate_subscriptions"] = len(cands)
	c.Extra["publishes_per_table"] = len(pubs)
	if rc := replayCase(c); rc != nil {
		if concReplay(c, rc, "C01") {
			return
		}
		c.Fatal("C01 replay: re-run the table from the case by hand (./run.sh C01 quick prints it)")
		return
	}
	concPubSubPhase(c, "C01")
	modes := []string{"overlap", "onlyonce"}
	c.Units("tables", len(modes)*len(cands), func(u int) {
		mode := modes[u%2]
		first := cands[u/2]
		c01World(c, mode, []c01Sub{first}, pubs, false)
		for _, s2 := range second {
			c01World(c, mode, []c01Sub{first, s2}, pubs, false)
			if first.id == 0 && !first.nl && s2.id == 0 && !s2.nl && (first.client != s2.client || first.filter != s2.filter) {
				// the first subscription is removed again before publishing
				c01World(c, mode, []c01Sub{first, s2}, pubs[:24], true)
			}
			if !c.Quick() && first.client != 1 && s2.client == first.client {
				// third overlapping subscription of the same client (onlyonce aggregation, overlap copies)
				for _, s3 := range second {
					if s3.client == first.client && s3.filter != s2.filter && s3.qos == 2 && (s3.id == 2 || s3.client == 1) {
						c01World(c, mode, []c01Sub{first, s2, s3}, pubs, false)
					}
				}
			}
		}
		if u%53 == 0 {
			c.Sample(map[string]any{"mode": mode, "first_subscription": first.String(), "second_candidates": len(second), "publishes": len(pubs)})
		}
	})
	c.Count("traces_validated_against_impl", c.Get("executions"))
}
