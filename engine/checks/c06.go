package checks

// C06 — packet codec is total, bounded and round-trips for every input.
//
// Phases (each sharded with c.Units):
//   raw3       every byte string of length <=3 under v3.1 / v3.1.1 / v5
//   raw45      length 4 (thorough: 5) over a reduced alphabet
//   length     directed remaining-length headers (5..9 length bytes, 0x80 stream)
//   alloc      large declared lengths with 0..8 body bytes supplied, allocation measured
//   corpus     generated well-formed values: cross-codec round trip + mutation closure
//   propgrid   every property id, single and doubled, in every property host
//   validators strings over a small alphabet against the topic / UTF-8 predicates

import (
	"bufio"
	"bytes"
	"encoding/hex"
	"errors"
	"fmt"
	"io"
	"os"
	"reflect"
	"runtime"
	"runtime/debug"
	"sort"
	"strings"
	"time"
	"unicode/utf8"

	gmqtt "github.com/DrmagicE/gmqtt"
	"github.com/DrmagicE/gmqtt/pkg/packets"

	"verif/explore"
	"verif/refmqtt"
)

func init() { register("C06", runC06) }

// ---------------------------------------------------------------- decode / pack harness

type c06Dec struct {
	rd   *bytes.Reader
	bufr *bufio.Reader
}

func newC06Dec() *c06Dec {
	rd := bytes.NewReader(nil)
	return &c06Dec{rd: rd, bufr: bufio.NewReaderSize(rd, 2048)}
}

type c06Res struct {
	pkt      packets.Packet
	err      error
	consumed int
	panicked string
}

func c06IsNilPacket(p packets.Packet) bool {
	if p == nil {
		return true
	}
	v := reflect.ValueOf(p)
	return v.Kind() == reflect.Ptr && v.IsNil()
}

// decode reads one packet from in with a fresh packets.Reader set to version.
func (d *c06Dec) decode(in []byte, version byte) (res c06Res) {
	d.rd.Reset(in)
	d.bufr.Reset(d.rd)
	r := packets.NewReader(d.bufr)
	r.SetVersion(version)
	defer func() {
		if x := recover(); x != nil {
			res.panicked = "panic: " + fmt.Sprint(x) + "\n" + string(debug.Stack())
			res.pkt = nil
		}
		res.consumed = len(in) - d.rd.Len() - d.bufr.Buffered()
	}()
	res.pkt, res.err = r.ReadPacket()
	if c06IsNilPacket(res.pkt) {
		res.pkt = nil
	}
	return
}

func c06Pack(p packets.Packet) (b []byte, err error, panicked string) {
	var w bytes.Buffer
	defer func() {
		if x := recover(); x != nil {
			panicked = "panic: " + fmt.Sprint(x) + "\n" + string(debug.Stack())
		}
	}()
	err = p.Pack(&w)
	return w.Bytes(), err, ""
}

func c06V(v byte) string {
	switch v {
	case 3:
		return "v3.1"
	case 4:
		return "v3.1.1"
	case 5:
		return "v5"
	}
	return fmt.Sprintf("v%d", v)
}

func c06TypeName(t byte) string {
	if t >= 1 && int(t) < len(refmqtt.TypeNames) {
		return refmqtt.TypeNames[t]
	}
	return fmt.Sprintf("TYPE%d", t)
}

// c06PktTag: "<TYPE>-<version the packet was parsed under>".
func c06PktTag(p packets.Packet, readerVersion byte) string {
	switch x := p.(type) {
	case *packets.Connect:
		return "CONNECT-" + c06V(x.Version)
	case *packets.Connack:
		return "CONNACK-" + c06V(readerVersion)
	case *packets.Publish:
		return "PUBLISH-" + c06V(readerVersion)
	case *packets.Puback:
		return "PUBACK-" + c06V(readerVersion)
	case *packets.Pubrec:
		return "PUBREC-" + c06V(readerVersion)
	case *packets.Pubrel:
		return "PUBREL-" + c06V(readerVersion)
	case *packets.Pubcomp:
		return "PUBCOMP-" + c06V(readerVersion)
	case *packets.Subscribe:
		return "SUBSCRIBE-" + c06V(readerVersion)
	case *packets.Suback:
		return "SUBACK-" + c06V(readerVersion)
	case *packets.Unsubscribe:
		return "UNSUBSCRIBE-" + c06V(readerVersion)
	case *packets.Unsuback:
		return "UNSUBACK-" + c06V(readerVersion)
	case *packets.Pingreq:
		return "PINGREQ-" + c06V(readerVersion)
	case *packets.Pingresp:
		return "PINGRESP-" + c06V(readerVersion)
	case *packets.Disconnect:
		return "DISCONNECT-" + c06V(readerVersion)
	case *packets.Auth:
		return "AUTH-" + c06V(readerVersion)
	}
	return fmt.Sprintf("%T", p)
}

// c06Diff returns the path of the first difference between a and b ("" when equal,
// reflect.DeepEqual semantics: nil and empty slices differ).
func c06Diff(a, b reflect.Value, path string) string {
	if a.IsValid() != b.IsValid() {
		return path + "(nil-vs-set)"
	}
	if !a.IsValid() {
		return ""
	}
	if a.Type() != b.Type() {
		return path + "(type)"
	}
	switch a.Kind() {
	case reflect.Ptr, reflect.Interface:
		if a.IsNil() || b.IsNil() {
			if a.IsNil() != b.IsNil() {
				return path + "(nil-vs-set)"
			}
			return ""
		}
		return c06Diff(a.Elem(), b.Elem(), path)
	case reflect.Struct:
		for i := 0; i < a.NumField(); i++ {
			n := a.Type().Field(i).Name
			p := n
			if path != "" {
				p = path + "." + n
			}
			if d := c06Diff(a.Field(i), b.Field(i), p); d != "" {
				return d
			}
		}
		return ""
	case reflect.Slice:
		if a.IsNil() != b.IsNil() {
			return path + "(nil-vs-empty)"
		}
		if a.Len() != b.Len() {
			return path + "(length)"
		}
		for i := 0; i < a.Len(); i++ {
			if d := c06Diff(a.Index(i), b.Index(i), path+"[]"); d != "" {
				if a.Type().Elem().Kind() == reflect.Uint8 {
					return path
				}
				return d
			}
		}
		return ""
	case reflect.Bool:
		if a.Bool() != b.Bool() {
			return path
		}
	case reflect.Int, reflect.Int8, reflect.Int16, reflect.Int32, reflect.Int64:
		if a.Int() != b.Int() {
			return path
		}
	case reflect.Uint, reflect.Uint8, reflect.Uint16, reflect.Uint32, reflect.Uint64:
		if a.Uint() != b.Uint() {
			return path
		}
	case reflect.String:
		if a.String() != b.String() {
			return path
		}
	default:
		if !reflect.DeepEqual(a.Interface(), b.Interface()) {
			return path
		}
	}
	return ""
}

func c06Hex(b []byte) string {
	if len(b) > 96 {
		return hex.EncodeToString(b[:96]) + fmt.Sprintf("...(%d bytes)", len(b))
	}
	return hex.EncodeToString(b)
}

// ---------------------------------------------------------------- per-process state

type c06 struct {
	c      *explore.Ctx
	d1, d2 *c06Dec
	cnt    map[string]int64
	seen   map[string]bool // rule|class already reported by this process (with a case)
	verb   bool
	// lazyExtra, when set, supplies the descriptive keys of the next violation case
	lazyExtra func() map[string]any
	// first input per class that gmqtt rejects, the reference accepts and no rule explains
	unexplained map[string]string
}

func newC06(c *explore.Ctx) *c06 {
	return &c06{c: c, d1: newC06Dec(), d2: newC06Dec(), cnt: map[string]int64{}, seen: map[string]bool{}}
}

func (k *c06) count(name string, n int64) { k.cnt[name] += n }

func (k *c06) flush() {
	for cl, ex := range k.unexplained {
		k.c.Note("gmqtt rejects / reference accepts, %s, e.g. %s", cl, ex)
	}
	k.unexplained = nil
	for n, v := range k.cnt {
		k.c.Count(n, v)
		delete(k.cnt, n)
	}
}

// violate: the case is only built for the first report of a (rule, class) per process.
func (k *c06) violate(rule, class string, cas func() any, expected, observed string) {
	// Behaviours that MQTT forbids but that the property statement does not mention
	// (it asks for totality, bounded reading/allocation, round trips, sizes, and topic
	// name/filter validity) are counted and noted, never reported as violations.
	if rule == "remaining-length-at-most-4-bytes" || (rule == "no-packet-from-incomplete-input" && strings.HasPrefix(class, "eof-inside-fixed-header")) ||
		(rule == "rejects-forbidden" && !strings.HasPrefix(class, "invalid-topic-filter-accepted") && !strings.HasPrefix(class, "publish-topic-wildcard-accepted")) {
		k.c.Count("beyond_statement:"+rule+"|"+class, 1)
		return
	}
	key := rule + "|" + class
	if k.seen[key] {
		k.c.Violate(rule, class, nil, "", "")
		return
	}
	k.seen[key] = true
	k.c.Violate(rule, class, cas(), expected, observed)
}

func c06BytesCase(phase string, in []byte, version byte, extra map[string]any) func() any {
	return func() any {
		m := map[string]any{"kind": "bytes", "phase": phase, "reader_version": version, "input_hex": hex.EncodeToString(in), "input_len": len(in)}
		if len(in) > 4096 {
			m["input_hex"] = hex.EncodeToString(in[:64])
			m["input_note"] = fmt.Sprintf("first 64 of %d bytes; the rest repeats byte 0x%02x", len(in), in[len(in)-1])
		}
		for a, b := range extra {
			m[a] = b
		}
		return m
	}
}

// ---------------------------------------------------------------- reference verdict

var c06WillOnly = map[byte]bool{0x01: true, 0x02: true, 0x03: true, 0x08: true, 0x09: true, 0x18: true}

// c06Slug strips numbers / quoted parts from a reference error so that it can be a class.
func c06Slug(err error) string {
	s := err.Error()
	s = strings.TrimPrefix(s, "refmqtt: malformed packet: ")
	s = strings.TrimPrefix(s, "refmqtt: ")
	var sb strings.Builder
	skip := false
	for i := 0; i < len(s); i++ {
		ch := s[i]
		switch {
		case ch == '"':
			skip = !skip
		case skip:
		case ch >= '0' && ch <= '9':
			// "0x1f" -> drop the whole token, "utf8"/"v3"/"qos0" keep
			if i > 0 && (s[i-1] >= 'a' && s[i-1] <= 'z') && !(s[i-1] == 'x' && i > 1 && s[i-2] == '0') {
				sb.WriteByte(ch)
			}
		case ch == 'x' && i > 0 && s[i-1] == '0':
		case ch == ' ' || ch == '/' || ch == '(' || ch == ')':
			sb.WriteByte('-')
		default:
			sb.WriteByte(ch)
		}
	}
	out := sb.String()
	for strings.Contains(out, "--") {
		out = strings.ReplaceAll(out, "--", "-")
	}
	return strings.Trim(out, "-")
}

func c06ValidShared(f string) bool {
	const pfx = "$share/"
	if !strings.HasPrefix(f, pfx) {
		return refmqtt.ValidTopicFilter(f)
	}
	rest := f[len(pfx):]
	i := strings.IndexByte(rest, '/')
	if i <= 0 {
		return false
	}
	g := rest[:i]
	if !refmqtt.ValidUTF8([]byte(g)) || strings.ContainsAny(g, "+#") {
		return false
	}
	return refmqtt.ValidTopicFilter(rest[i+1:])
}

func c06FilterDetail(f string) string {
	if f == "" {
		return "empty"
	}
	if c := c06StrCause(f); c != "" {
		return c
	}
	if strings.HasPrefix(f, "$share/") {
		rest := f[len("$share/"):]
		i := strings.IndexByte(rest, '/')
		if i <= 0 || strings.ContainsAny(rest[:i], "+#") || i == len(rest)-1 {
			return "share-syntax"
		}
		f = rest[i+1:]
	}
	if c := c06FilterCause(f); c != "" {
		return c
	}
	return "other"
}

type c06Verdict struct {
	ok     bool
	reason string // slug when !ok
	propID byte   // for duplicate / not-allowed reasons
	ptype  int    // packet type named by a not-allowed reason (0 = will properties)
	detail string // for invalid-topic-filter: the cause
	p      *refmqtt.Packet
	n      int
}

// c06Ref: the reference's opinion about the first packet of in (refmqtt.Decode plus the
// topic rules that refmqtt.Decode leaves to its callers).
func c06Ref(in []byte, version byte) c06Verdict {
	p, n, err := refmqtt.Decode(in, version)
	v := c06Verdict{p: p, n: n}
	if err != nil {
		v.reason = c06Slug(err)
		msg := err.Error()
		if i := strings.Index(msg, "duplicate property 0x"); i >= 0 {
			fmt.Sscanf(msg[i:], "duplicate property 0x%02x", &v.propID)
			v.reason = "duplicate-property"
		} else if i := strings.Index(msg, "property 0x"); i >= 0 && strings.Contains(msg, "not allowed") {
			fmt.Sscanf(msg[i:], "property 0x%02x not allowed in packet type %d", &v.propID, &v.ptype)
			v.reason = "property-not-allowed"
		} else if strings.Contains(msg, "reserved flags") {
			v.reason = "reserved-flags"
		} else if strings.Contains(msg, "invalid utf8 string") {
			v.reason = "invalid-utf8-string"
		}
		return v
	}
	switch p.Type {
	case refmqtt.PUBLISH:
		if strings.ContainsAny(p.Topic, "+#") {
			v.reason = "publish-topic-wildcard"
			return v
		}
	case refmqtt.SUBSCRIBE:
		for _, s := range p.Subs {
			if (version == 5 && !c06ValidShared(s.Filter)) || (version != 5 && !refmqtt.ValidTopicFilter(s.Filter)) {
				v.reason, v.detail = "invalid-topic-filter", c06FilterDetail(s.Filter)
				return v
			}
		}
	case refmqtt.UNSUBSCRIBE:
		for _, f := range p.Filters {
			if !refmqtt.ValidTopicFilter(f) {
				v.reason, v.detail = "invalid-topic-filter", c06FilterDetail(f)
				return v
			}
		}
	}
	v.ok = true
	return v
}

// c06ExplainReject: why gmqtt may legitimately (or for an already separately reported
// reason) reject a packet the reference's syntax check accepts.
func c06ExplainReject(p *refmqtt.Packet) string {
	ctl := func(s string) bool {
		for _, r := range s {
			if r <= 0x1f || (r >= 0x7f && r <= 0x9f) {
				return true
			}
		}
		return false
	}
	ufffd := func(s string) bool { return strings.ContainsRune(s, utf8.RuneError) }
	strs := []string{p.ClientID, p.WillTopic, p.Username, p.Topic}
	for _, s := range p.Subs {
		strs = append(strs, s.Filter)
	}
	strs = append(strs, p.Filters...)
	propErr := ""
	for _, pr := range []*refmqtt.Props{p.Props, p.WillProps} {
		if pr == nil {
			continue
		}
		for _, sp := range []*string{pr.ContentType, pr.ResponseTopic, pr.AssignedClientID, pr.AuthMethod, pr.ResponseInfo, pr.ServerReference, pr.ReasonString} {
			if sp != nil {
				strs = append(strs, *sp)
			}
		}
		for _, kv := range pr.User {
			strs = append(strs, kv.K, kv.V)
		}
		for _, bp := range []*byte{pr.PayloadFormat, pr.RequestProblemInfo, pr.RequestResponseInfo, pr.MaxQoS, pr.RetainAvailable, pr.WildcardSubAvail, pr.SubIDAvail, pr.SharedSubAvail} {
			if bp != nil && *bp > 1 {
				propErr = "property-value-protocol-error"
			}
		}
		if (pr.ReceiveMax != nil && *pr.ReceiveMax == 0) || (pr.MaxPacketSize != nil && *pr.MaxPacketSize == 0) || (pr.TopicAlias != nil && *pr.TopicAlias == 0) {
			propErr = "property-value-protocol-error"
		}
		if (pr.HasAuthData || pr.AuthData != nil) && pr.AuthMethod == nil {
			propErr = "property-value-protocol-error"
		}
		if pr.ResponseTopic != nil && strings.ContainsAny(*pr.ResponseTopic, "+#") {
			propErr = "property-value-protocol-error"
		}
		if p.Type == refmqtt.PUBLISH && len(pr.SubIDs) > 0 {
			propErr = "server-role:subscription-identifier-in-publish"
		}
		if (pr.HasAuthData || pr.AuthData != nil) && !utf8.Valid(pr.AuthData) {
			propErr = "reported-separately:auth-data-not-utf8"
		}
		if (pr.HasAuthData || pr.AuthData != nil) && ctl(string(pr.AuthData)) && propErr == "" {
			propErr = "reported-separately:auth-data-not-utf8"
		}
	}
	for _, s := range strs {
		if ctl(s) {
			return "permitted:control-character-in-string"
		}
	}
	for _, s := range strs {
		if ufffd(s) {
			return "reported-separately:U+FFFD-in-string"
		}
	}
	if propErr != "" {
		return propErr
	}
	switch p.Type {
	case refmqtt.CONNECT:
		if p.HasPassword && (!refmqtt.ValidUTF8(p.Password) || ctl(string(p.Password))) {
			return "reported-separately:password-not-utf8"
		}
		if p.Version != 5 && p.ClientID == "" && !p.CleanStart {
			return "permitted:v3-empty-client-id-without-clean-session"
		}
	case refmqtt.SUBACK:
		if len(p.Codes) == 0 {
			return "correct:suback-without-codes"
		}
	case refmqtt.UNSUBACK:
		if p.Version == 5 && len(p.Codes) == 0 {
			return "correct:unsuback-without-codes"
		}
	}
	return ""
}

// ---------------------------------------------------------------- the byte-level oracles

// checkBytes decodes in under version and applies: no panic, bounded read, no packet from
// incomplete input, TotalBytes, re-encode round trip and (compareRef) the accept/reject
// comparison with the reference.  Returns the decode result.
func (k *c06) checkBytes(phase string, in []byte, version byte, extra map[string]any, compareRef bool) c06Res {
	res := k.d1.decode(in, version)
	k.count("evaluations", 1)
	cas := c06BytesCase(phase, in, version, extra)
	if lz := k.lazyExtra; lz != nil {
		cas = func() any { return c06BytesCase(phase, append([]byte{}, in...), version, lz())() }
	}
	if k.verb {
		fmt.Printf("  decode(%s, %s) -> pkt=%v err=%v consumed=%d\n", c06Hex(in), c06V(version), res.pkt, res.err, res.consumed)
	}
	if res.panicked != "" {
		k.violate("no-panic", panicClass(res.panicked), cas, "packet or error", firstLines(res.panicked, 14))
		return res
	}
	if res.pkt == nil && res.err == nil {
		k.violate("packet-or-error", "nil-packet-and-nil-error", cas, "packet or error", "nil, nil")
		return res
	}
	total, hdr, ferr := refmqtt.Frame(in)
	switch {
	case ferr != nil && ferr != refmqtt.ErrIncomplete: // length field longer than 4 bytes
		if res.pkt != nil {
			k.violate("remaining-length-at-most-4-bytes", "more-than-4-length-bytes-accepted", cas, "error (Variable Byte Integer is at most 4 bytes)", fmt.Sprintf("accepted %s after consuming %d bytes", res.pkt, res.consumed))
		} else if res.consumed > 5 {
			k.violate("remaining-length-at-most-4-bytes", "length-bytes-consumed-past-the-4th", cas, "error after at most 5 bytes", fmt.Sprintf("consumed %d bytes, err=%v", res.consumed, res.err))
		}
		return res
	case ferr == refmqtt.ErrIncomplete && hdr == 0:
		if res.pkt != nil {
			k.violate("no-packet-from-incomplete-input", "eof-inside-fixed-header-read-as-length-zero", cas, "error (input ends inside the fixed header)", fmt.Sprintf("accepted %s", res.pkt))
		}
		return res
	case ferr == refmqtt.ErrIncomplete:
		if res.pkt != nil {
			k.violate("no-packet-from-incomplete-input", "body-shorter-than-declared:"+c06TypeName(in[0]>>4), cas, fmt.Sprintf("error (declared %d bytes, %d supplied)", total, len(in)), fmt.Sprintf("accepted %s", res.pkt))
			return res
		}
	default:
		if res.consumed > total {
			k.violate("bounded-read", "read-past-declared-length:"+c06TypeName(in[0]>>4), cas, fmt.Sprintf("at most %d bytes consumed", total), fmt.Sprintf("%d consumed", res.consumed))
			return res
		}
		if res.pkt != nil && res.consumed != total {
			k.violate("bounded-read", "packet-returned-before-declared-end:"+c06TypeName(in[0]>>4), cas, fmt.Sprintf("%d bytes consumed", total), fmt.Sprintf("%d consumed", res.consumed))
			return res
		}
	}
	if res.pkt == nil {
		if compareRef {
			if v := c06Ref(in, version); v.ok {
				why := c06ExplainReject(v.p)
				if why == "" {
					why = "unexplained:" + c06TypeName(in[0]>>4)
					if k.unexplained == nil {
						k.unexplained = map[string]string{}
					}
					if _, ok := k.unexplained[why]; !ok {
						k.unexplained[why] = fmt.Sprintf("%s under %s (%v)", hex.EncodeToString(in), c06V(version), res.err)
					}
				}
				k.count("d_rej:"+why, 1)
				k.count("disagree_gmqtt_rejects_ref_accepts", 1)
			}
		}
		return res
	}
	k.count("accepted", 1)
	tag := c06PktTag(res.pkt, version)
	if minimal := 1 + len(refmqtt.AppendVBI(nil, uint32(total-hdr))); hdr != minimal {
		// legal in 3.1.1, forbidden by [MQTT-1.5.5-1] in 5; TotalBytes assumes the minimal form
		k.count("d_acc:non-minimal-remaining-length", 1)
	} else if tb := int(packets.TotalBytes(res.pkt)); tb != res.consumed {
		k.violate("total-bytes", tag+":after-decode", cas, fmt.Sprint(res.consumed), fmt.Sprint(tb))
	}
	// reference verdict first: Pack below rewrites the FixHeader of res.pkt
	var ver c06Verdict
	if compareRef || version != 3 {
		ver = c06Ref(in, version)
	} else {
		ver.ok = true
	}
	k.selfRoundTrip(phase, in, version, res.pkt, tag, cas)
	if !ver.ok {
		k.count("disagree_gmqtt_accepts_ref_rejects", 1)
		k.count("d_acc:"+ver.reason, 1)
		tn := c06TypeName(in[0] >> 4)
		eff := version
		if x, ok := res.pkt.(*packets.Connect); ok {
			eff = x.Version
		}
		if eff == 4 || eff == 5 {
			exp := "error: " + ver.reason
			obs := "accepted " + res.pkt.String()
			switch ver.reason {
			case "invalid-utf8-string":
				k.violate("rejects-forbidden", "invalid-utf8-accepted:"+tn, cas, exp, obs)
			case "duplicate-property":
				k.violate("rejects-forbidden", fmt.Sprintf("duplicate-property-accepted:%s:0x%02x", tn, ver.propID), cas, exp, obs)
			case "property-not-allowed":
				switch {
				case ver.ptype == refmqtt.CONNECT && c06WillOnly[ver.propID]:
					k.violate("rejects-forbidden", "will-property-accepted-in-connect-properties", cas, exp, obs)
				case ver.ptype == 0:
					k.violate("rejects-forbidden", fmt.Sprintf("property-not-allowed-accepted:CONNECT-will:0x%02x", ver.propID), cas, exp, obs)
				default:
					k.violate("rejects-forbidden", fmt.Sprintf("property-not-allowed-accepted:%s:0x%02x", tn, ver.propID), cas, exp, obs)
				}
			case "reserved-flags":
				k.violate("rejects-forbidden", "reserved-flags-accepted:"+tn, cas, exp, obs)
			case "publish-topic-wildcard":
				k.violate("rejects-forbidden", "publish-topic-wildcard-accepted", cas, exp, obs)
			case "invalid-topic-filter":
				k.violate("rejects-forbidden", "invalid-topic-filter-accepted:"+tn+":"+ver.detail, cas, exp+" ("+ver.detail+")", obs)
			}
		}
	}
	return res
}

// selfRoundTrip: Pack(p) must decode (same reader version) to a DeepEqual packet and
// TotalBytes(p) must equal the packed length.
func (k *c06) selfRoundTrip(phase string, in []byte, version byte, p packets.Packet, tag string, cas func() any) {
	b, err, pan := c06Pack(p)
	if pan != "" {
		k.violate("no-panic", panicClass(pan), cas, "Pack returns", firstLines(pan, 14))
		return
	}
	if err != nil {
		k.violate("reencode-roundtrip", tag+":pack-error", cas, "accepted packet packs", err.Error())
		return
	}
	b = append([]byte{}, b...)
	if tb := int(packets.TotalBytes(p)); tb != len(b) {
		k.violate("total-bytes", tag+":after-pack", cas, fmt.Sprint(len(b)), fmt.Sprint(tb))
	}
	r2 := k.d2.decode(b, version)
	if k.verb {
		fmt.Printf("  Pack -> %s ; redecode -> pkt=%v err=%v consumed=%d\n", c06Hex(b), r2.pkt, r2.err, r2.consumed)
	}
	if r2.panicked != "" {
		k.violate("no-panic", panicClass(r2.panicked), cas, "packet or error", firstLines(r2.panicked, 14))
		return
	}
	if r2.pkt == nil {
		k.violate("reencode-roundtrip", tag+":redecode-error", cas, "Pack output "+c06Hex(b)+" decodes", fmt.Sprint(r2.err))
		return
	}
	if r2.consumed != len(b) {
		k.violate("reencode-roundtrip", tag+":redecode-consumed", cas, fmt.Sprint(len(b)), fmt.Sprint(r2.consumed))
		return
	}
	if d := c06Diff(reflect.ValueOf(p), reflect.ValueOf(r2.pkt), ""); d != "" {
		k.violate("reencode-roundtrip", tag+":"+d, cas, p.String(), r2.pkt.String()+" (from "+c06Hex(b)+")")
	}
}

// ---------------------------------------------------------------- gmqtt <-> reference values

func c06NB(b []byte) []byte {
	if len(b) == 0 {
		return nil
	}
	return append([]byte{}, b...)
}

func c06NormProps(p *refmqtt.Props) *refmqtt.Props {
	if p == nil {
		return nil
	}
	q := *p
	q.HasCorrelationData = p.HasCorrelationData || p.CorrelationData != nil
	q.CorrelationData = c06NB(p.CorrelationData)
	q.HasAuthData = p.HasAuthData || p.AuthData != nil
	q.AuthData = c06NB(p.AuthData)
	if len(q.SubIDs) == 0 {
		q.SubIDs = nil
	}
	if len(q.User) == 0 {
		q.User = nil
	}
	if reflect.DeepEqual(q, refmqtt.Props{}) {
		return nil
	}
	return &q
}

// c06Norm: canonical form of a reference packet for comparison (absent == empty for
// byte strings and property sets, protocol name/level defaults filled in).
func c06Norm(p *refmqtt.Packet) *refmqtt.Packet {
	q := *p
	q.Flags, q.RawFlags = 0, false
	if q.Type == refmqtt.CONNECT {
		if q.ProtoName == "" {
			q.ProtoName = "MQTT"
			if q.Version == 3 {
				q.ProtoName = "MQIsdp"
			}
		}
		if q.ProtoLevel == 0 {
			q.ProtoLevel = q.Version
		}
	}
	q.WillPayload = c06NB(q.WillPayload)
	q.Password = c06NB(q.Password)
	q.Payload = c06NB(q.Payload)
	q.Codes = c06NB(q.Codes)
	if len(q.Subs) == 0 {
		q.Subs = nil
	}
	if len(q.Filters) == 0 {
		q.Filters = nil
	}
	q.Props = c06NormProps(q.Props)
	q.WillProps = c06NormProps(q.WillProps)
	return &q
}

func c06DiffRef(a, b *refmqtt.Packet) string {
	return c06Diff(reflect.ValueOf(c06Norm(a)), reflect.ValueOf(c06Norm(b)), "")
}

func c06PropsFrom(p *packets.Properties) *refmqtt.Props {
	if p == nil {
		return nil
	}
	str := func(b []byte) *string {
		if b == nil {
			return nil
		}
		s := string(b)
		return &s
	}
	q := &refmqtt.Props{
		PayloadFormat: p.PayloadFormat, MessageExpiry: p.MessageExpiry, ContentType: str(p.ContentType),
		ResponseTopic: str(p.ResponseTopic), CorrelationData: p.CorrelationData, HasCorrelationData: p.CorrelationData != nil,
		SubIDs: append([]uint32(nil), p.SubscriptionIdentifier...), SessionExpiry: p.SessionExpiryInterval,
		AssignedClientID: str(p.AssignedClientID), ServerKeepAlive: p.ServerKeepAlive, AuthMethod: str(p.AuthMethod),
		AuthData: p.AuthData, HasAuthData: p.AuthData != nil, RequestProblemInfo: p.RequestProblemInfo,
		WillDelay: p.WillDelayInterval, RequestResponseInfo: p.RequestResponseInfo, ResponseInfo: str(p.ResponseInfo),
		ServerReference: str(p.ServerReference), ReasonString: str(p.ReasonString), ReceiveMax: p.ReceiveMaximum,
		TopicAliasMax: p.TopicAliasMaximum, TopicAlias: p.TopicAlias, MaxQoS: p.MaximumQoS, RetainAvailable: p.RetainAvailable,
		MaxPacketSize: p.MaximumPacketSize, WildcardSubAvail: p.WildcardSubAvailable, SubIDAvail: p.SubIDAvailable,
		SharedSubAvail: p.SharedSubAvailable,
	}
	for _, u := range p.User {
		q.User = append(q.User, refmqtt.KV{K: string(u.K), V: string(u.V)})
	}
	return q
}

func c06BS(s string) []byte { return append(make([]byte, 0, len(s)), s...) }

func c06PropsTo(p *refmqtt.Props) *packets.Properties {
	if p == nil {
		return nil
	}
	str := func(s *string) []byte {
		if s == nil {
			return nil
		}
		return c06BS(*s)
	}
	bin := func(has bool, b []byte) []byte {
		if !has && b == nil {
			return nil
		}
		return append(make([]byte, 0, len(b)), b...)
	}
	q := &packets.Properties{
		PayloadFormat: p.PayloadFormat, MessageExpiry: p.MessageExpiry, ContentType: str(p.ContentType),
		ResponseTopic: str(p.ResponseTopic), CorrelationData: bin(p.HasCorrelationData, p.CorrelationData),
		SubscriptionIdentifier: append([]uint32(nil), p.SubIDs...), SessionExpiryInterval: p.SessionExpiry,
		AssignedClientID: str(p.AssignedClientID), ServerKeepAlive: p.ServerKeepAlive, AuthMethod: str(p.AuthMethod),
		AuthData: bin(p.HasAuthData, p.AuthData), RequestProblemInfo: p.RequestProblemInfo, WillDelayInterval: p.WillDelay,
		RequestResponseInfo: p.RequestResponseInfo, ResponseInfo: str(p.ResponseInfo), ServerReference: str(p.ServerReference),
		ReasonString: str(p.ReasonString), ReceiveMaximum: p.ReceiveMax, TopicAliasMaximum: p.TopicAliasMax,
		TopicAlias: p.TopicAlias, MaximumQoS: p.MaxQoS, RetainAvailable: p.RetainAvailable, MaximumPacketSize: p.MaxPacketSize,
		WildcardSubAvailable: p.WildcardSubAvail, SubIDAvailable: p.SubIDAvail, SharedSubAvailable: p.SharedSubAvail,
	}
	for _, u := range p.User {
		q.User = append(q.User, packets.UserProperty{K: c06BS(u.K), V: c06BS(u.V)})
	}
	return q
}

// c06FromGmqtt converts a gmqtt packet to a reference value; v is the reader version
// (used for the types that carry no Version field).
func c06FromGmqtt(p packets.Packet, v byte) *refmqtt.Packet {
	switch x := p.(type) {
	case *packets.Connect:
		q := &refmqtt.Packet{Type: refmqtt.CONNECT, Version: x.Version, ProtoName: string(x.ProtocolName), ProtoLevel: x.ProtocolLevel,
			CleanStart: x.CleanStart, KeepAlive: x.KeepAlive, ClientID: string(x.ClientID), WillFlag: x.WillFlag, WillQoS: x.WillQos,
			WillRetain: x.WillRetain, WillTopic: string(x.WillTopic), WillPayload: x.WillMsg, HasUsername: x.UsernameFlag,
			HasPassword: x.PasswordFlag, Username: string(x.Username), Password: x.Password, Props: c06PropsFrom(x.Properties)}
		if x.WillFlag {
			q.WillProps = c06PropsFrom(x.WillProperties)
		}
		return q
	case *packets.Connack:
		return &refmqtt.Packet{Type: refmqtt.CONNACK, Version: x.Version, SessionPresent: x.SessionPresent, Code: x.Code, Props: c06PropsFrom(x.Properties)}
	case *packets.Publish:
		return &refmqtt.Packet{Type: refmqtt.PUBLISH, Version: x.Version, Dup: x.Dup, QoS: x.Qos, Retain: x.Retain, Topic: string(x.TopicName),
			PacketID: x.PacketID, Payload: x.Payload, Props: c06PropsFrom(x.Properties)}
	case *packets.Puback:
		return &refmqtt.Packet{Type: refmqtt.PUBACK, Version: x.Version, PacketID: x.PacketID, Code: x.Code, Props: c06PropsFrom(x.Properties)}
	case *packets.Pubrec:
		return &refmqtt.Packet{Type: refmqtt.PUBREC, Version: x.Version, PacketID: x.PacketID, Code: x.Code, Props: c06PropsFrom(x.Properties)}
	case *packets.Pubrel:
		return &refmqtt.Packet{Type: refmqtt.PUBREL, Version: v, PacketID: x.PacketID, Code: x.Code, Props: c06PropsFrom(x.Properties)}
	case *packets.Pubcomp:
		return &refmqtt.Packet{Type: refmqtt.PUBCOMP, Version: x.Version, PacketID: x.PacketID, Code: x.Code, Props: c06PropsFrom(x.Properties)}
	case *packets.Subscribe:
		q := &refmqtt.Packet{Type: refmqtt.SUBSCRIBE, Version: x.Version, PacketID: x.PacketID, Props: c06PropsFrom(x.Properties)}
		for _, t := range x.Topics {
			q.Subs = append(q.Subs, refmqtt.Sub{Filter: t.Name, QoS: t.Qos, NoLocal: t.NoLocal, RAP: t.RetainAsPublished, RH: t.RetainHandling})
		}
		return q
	case *packets.Suback:
		return &refmqtt.Packet{Type: refmqtt.SUBACK, Version: x.Version, PacketID: x.PacketID, Codes: x.Payload, Props: c06PropsFrom(x.Properties)}
	case *packets.Unsubscribe:
		return &refmqtt.Packet{Type: refmqtt.UNSUBSCRIBE, Version: x.Version, PacketID: x.PacketID, Filters: x.Topics, Props: c06PropsFrom(x.Properties)}
	case *packets.Unsuback:
		return &refmqtt.Packet{Type: refmqtt.UNSUBACK, Version: x.Version, PacketID: x.PacketID, Codes: x.Payload, Props: c06PropsFrom(x.Properties)}
	case *packets.Pingreq:
		return &refmqtt.Packet{Type: refmqtt.PINGREQ, Version: v}
	case *packets.Pingresp:
		return &refmqtt.Packet{Type: refmqtt.PINGRESP, Version: v}
	case *packets.Disconnect:
		return &refmqtt.Packet{Type: refmqtt.DISCONNECT, Version: x.Version, Code: x.Code, Props: c06PropsFrom(x.Properties)}
	case *packets.Auth:
		return &refmqtt.Packet{Type: refmqtt.AUTH, Version: v, Code: x.Code, Props: c06PropsFrom(x.Properties)}
	}
	return nil
}

// c06ToGmqtt builds the gmqtt struct for a reference value directly (no decoder involved).
func c06ToGmqtt(p *refmqtt.Packet) packets.Packet {
	n := c06Norm(p)
	v := p.Version
	v5 := v == 5
	always := func(pp *refmqtt.Props) *packets.Properties { // hosts whose property length is mandatory
		if !v5 {
			return nil
		}
		if pp == nil {
			return &packets.Properties{}
		}
		return c06PropsTo(pp)
	}
	optional := func(pp *refmqtt.Props) *packets.Properties { // ack family: nil keeps the short form
		if !v5 || pp == nil {
			return nil
		}
		return c06PropsTo(pp)
	}
	switch p.Type {
	case refmqtt.CONNECT:
		x := &packets.Connect{Version: v, ProtocolLevel: n.ProtoLevel, ProtocolName: c06BS(n.ProtoName), UsernameFlag: p.HasUsername,
			PasswordFlag: p.HasPassword, WillRetain: p.WillRetain, WillQos: p.WillQoS, WillFlag: p.WillFlag, CleanStart: p.CleanStart,
			KeepAlive: p.KeepAlive, ClientID: c06BS(p.ClientID), Properties: always(p.Props)}
		if p.WillFlag {
			x.WillTopic, x.WillMsg = c06BS(p.WillTopic), append([]byte{}, p.WillPayload...)
			x.WillProperties = always(p.WillProps)
		}
		if p.HasUsername {
			x.Username = c06BS(p.Username)
		}
		if p.HasPassword {
			x.Password = append([]byte{}, p.Password...)
		}
		return x
	case refmqtt.CONNACK:
		return &packets.Connack{Version: v, Code: p.Code, SessionPresent: p.SessionPresent, Properties: always(p.Props)}
	case refmqtt.PUBLISH:
		return &packets.Publish{Version: v, Dup: p.Dup, Qos: p.QoS, Retain: p.Retain, TopicName: c06BS(p.Topic), PacketID: p.PacketID,
			Payload: append([]byte{}, p.Payload...), Properties: always(p.Props)}
	case refmqtt.PUBACK:
		return &packets.Puback{Version: v, PacketID: p.PacketID, Code: p.Code, Properties: optional(p.Props)}
	case refmqtt.PUBREC:
		return &packets.Pubrec{Version: v, PacketID: p.PacketID, Code: p.Code, Properties: optional(p.Props)}
	case refmqtt.PUBREL:
		return &packets.Pubrel{PacketID: p.PacketID, Code: p.Code, Properties: optional(p.Props)}
	case refmqtt.PUBCOMP:
		return &packets.Pubcomp{Version: v, PacketID: p.PacketID, Code: p.Code, Properties: optional(p.Props)}
	case refmqtt.SUBSCRIBE:
		x := &packets.Subscribe{Version: v, PacketID: p.PacketID, Properties: always(p.Props)}
		for _, s := range p.Subs {
			x.Topics = append(x.Topics, packets.Topic{Name: s.Filter, SubOptions: packets.SubOptions{Qos: s.QoS, RetainHandling: s.RH, NoLocal: s.NoLocal, RetainAsPublished: s.RAP}})
		}
		return x
	case refmqtt.SUBACK:
		return &packets.Suback{Version: v, PacketID: p.PacketID, Payload: append([]byte{}, p.Codes...), Properties: always(p.Props)}
	case refmqtt.UNSUBSCRIBE:
		return &packets.Unsubscribe{Version: v, PacketID: p.PacketID, Topics: append([]string{}, p.Filters...), Properties: always(p.Props)}
	case refmqtt.UNSUBACK:
		return &packets.Unsuback{Version: v, PacketID: p.PacketID, Payload: append([]byte{}, p.Codes...), Properties: always(p.Props)}
	case refmqtt.PINGREQ:
		return &packets.Pingreq{}
	case refmqtt.PINGRESP:
		return &packets.Pingresp{}
	case refmqtt.DISCONNECT:
		return &packets.Disconnect{Version: v, Code: p.Code, Properties: optional(p.Props)}
	case refmqtt.AUTH:
		return &packets.Auth{Code: p.Code, Properties: optional(p.Props)}
	}
	return nil
}

// ---------------------------------------------------------------- corpus of well-formed values

type c06Case struct {
	P        *refmqtt.Packet
	label    string // the shape that is varied, without the version
	roleOnly bool   // server-to-client only shape that gmqtt's (server-side) decoder may reject
	big      bool   // excluded from the mutation closure
}

type c06PV struct {
	label string
	role  bool
	set   func(p *refmqtt.Props)
}

var c06Long = strings.Repeat("x", 130)

func c06StrLabel(s string) string {
	switch {
	case s == "":
		return "empty"
	case len(s) >= 100:
		return "long"
	case !utf8.ValidString(s) || strings.ContainsRune(s, 0):
		return "nonutf8"
	}
	for i := 0; i < len(s); i++ {
		if s[i] >= 0x80 {
			return "2byte-utf8"
		}
	}
	return "ascii"
}

func c06PVu32(name string, vals []uint32, set func(p *refmqtt.Props, v *uint32)) []c06PV {
	var out []c06PV
	for _, v := range vals {
		v := v
		out = append(out, c06PV{label: fmt.Sprintf("prop-%s=%d", name, v), set: func(p *refmqtt.Props) { x := v; set(p, &x) }})
	}
	return out
}
func c06PVu16(name string, vals []uint16, set func(p *refmqtt.Props, v *uint16)) []c06PV {
	var out []c06PV
	for _, v := range vals {
		v := v
		out = append(out, c06PV{label: fmt.Sprintf("prop-%s=%d", name, v), set: func(p *refmqtt.Props) { x := v; set(p, &x) }})
	}
	return out
}
func c06PVb(name string, vals []byte, set func(p *refmqtt.Props, v *byte)) []c06PV {
	var out []c06PV
	for _, v := range vals {
		v := v
		out = append(out, c06PV{label: fmt.Sprintf("prop-%s=%d", name, v), set: func(p *refmqtt.Props) { x := v; set(p, &x) }})
	}
	return out
}
func c06PVs(name string, vals []string, set func(p *refmqtt.Props, v *string)) []c06PV {
	var out []c06PV
	for _, v := range vals {
		v := v
		out = append(out, c06PV{label: fmt.Sprintf("prop-%s=%s", name, c06StrLabel(v)), set: func(p *refmqtt.Props) { x := v; set(p, &x) }})
	}
	return out
}

var c06Strs = []string{"", "a", "\xc3\xa9", c06Long}
var c06Bins = [][]byte{{}, []byte("d"), {0x00, 0xff, 0x80}, bytes.Repeat([]byte{'z'}, 130)}

func c06UserPVs() []c06PV {
	mk := func(label string, kv ...refmqtt.KV) c06PV {
		return c06PV{label: "prop-User=" + label, set: func(p *refmqtt.Props) { p.User = append(p.User, kv...) }}
	}
	return []c06PV{
		mk("empty-pair", refmqtt.KV{}),
		mk("pair", refmqtt.KV{K: "k", V: "v"}),
		mk("utf8-key-long-value", refmqtt.KV{K: "\xc3\xa9", V: c06Long}),
		mk("same-key-twice", refmqtt.KV{K: "k", V: "v"}, refmqtt.KV{K: "k", V: "w"}),
	}
}

func c06AuthPVs() []c06PV {
	out := c06PVs("AuthMethod", c06Strs, func(p *refmqtt.Props, v *string) { p.AuthMethod = v })
	for _, b := range c06Bins {
		b := b
		out = append(out, c06PV{label: "prop-AuthData=" + c06StrLabel(string(b)), set: func(p *refmqtt.Props) {
			m := "m"
			p.AuthMethod = &m
			p.AuthData, p.HasAuthData = append([]byte{}, b...), true
		}})
	}
	return out
}

func c06CorrPVs() []c06PV {
	var out []c06PV
	for _, b := range c06Bins {
		b := b
		out = append(out, c06PV{label: "prop-CorrelationData=" + c06StrLabel(string(b)), set: func(p *refmqtt.Props) {
			p.CorrelationData, p.HasCorrelationData = append([]byte{}, b...), true
		}})
	}
	return out
}

func c06Cat(l ...[]c06PV) []c06PV {
	var out []c06PV
	for _, x := range l {
		out = append(out, x...)
	}
	return out
}

const c06Max32 = 0xFFFFFFFF

func c06HostPVs(host string) []c06PV {
	sessExp := c06PVu32("SessionExpiry", []uint32{0, 10, c06Max32}, func(p *refmqtt.Props, v *uint32) { p.SessionExpiry = v })
	recvMax := c06PVu16("ReceiveMaximum", []uint16{1, 10, 65535}, func(p *refmqtt.Props, v *uint16) { p.ReceiveMax = v })
	maxPkt := c06PVu32("MaximumPacketSize", []uint32{1, 1024, c06Max32}, func(p *refmqtt.Props, v *uint32) { p.MaxPacketSize = v })
	aliasMax := c06PVu16("TopicAliasMaximum", []uint16{0, 10, 65535}, func(p *refmqtt.Props, v *uint16) { p.TopicAliasMax = v })
	reason := c06PVs("ReasonString", c06Strs, func(p *refmqtt.Props, v *string) { p.ReasonString = v })
	srvRef := c06PVs("ServerReference", c06Strs, func(p *refmqtt.Props, v *string) { p.ServerReference = v })
	payFmt := c06PVb("PayloadFormat", []byte{0, 1}, func(p *refmqtt.Props, v *byte) { p.PayloadFormat = v })
	msgExp := c06PVu32("MessageExpiry", []uint32{0, 60, c06Max32}, func(p *refmqtt.Props, v *uint32) { p.MessageExpiry = v })
	ctype := c06PVs("ContentType", c06Strs, func(p *refmqtt.Props, v *string) { p.ContentType = v })
	rtopic := c06PVs("ResponseTopic", []string{"a", "r/t", "\xc3\xa9", c06Long}, func(p *refmqtt.Props, v *string) { p.ResponseTopic = v })
	switch host {
	case "connect":
		return c06Cat(sessExp, recvMax, maxPkt, aliasMax,
			c06PVb("RequestResponseInfo", []byte{0, 1}, func(p *refmqtt.Props, v *byte) { p.RequestResponseInfo = v }),
			c06PVb("RequestProblemInfo", []byte{0, 1}, func(p *refmqtt.Props, v *byte) { p.RequestProblemInfo = v }),
			c06UserPVs(), c06AuthPVs())
	case "will":
		return c06Cat(c06PVu32("WillDelay", []uint32{0, 5, c06Max32}, func(p *refmqtt.Props, v *uint32) { p.WillDelay = v }),
			payFmt, msgExp, ctype, rtopic, c06CorrPVs(), c06UserPVs())
	case "connack":
		return c06Cat(sessExp, recvMax,
			c06PVb("MaximumQoS", []byte{0, 1}, func(p *refmqtt.Props, v *byte) { p.MaxQoS = v }),
			c06PVb("RetainAvailable", []byte{0, 1}, func(p *refmqtt.Props, v *byte) { p.RetainAvailable = v }),
			maxPkt,
			c06PVs("AssignedClientID", c06Strs, func(p *refmqtt.Props, v *string) { p.AssignedClientID = v }),
			aliasMax, reason, c06UserPVs(),
			c06PVb("WildcardSubAvailable", []byte{0, 1}, func(p *refmqtt.Props, v *byte) { p.WildcardSubAvail = v }),
			c06PVb("SubIDAvailable", []byte{0, 1}, func(p *refmqtt.Props, v *byte) { p.SubIDAvail = v }),
			c06PVb("SharedSubAvailable", []byte{0, 1}, func(p *refmqtt.Props, v *byte) { p.SharedSubAvail = v }),
			c06PVu16("ServerKeepAlive", []uint16{0, 10, 65535}, func(p *refmqtt.Props, v *uint16) { p.ServerKeepAlive = v }),
			c06PVs("ResponseInfo", c06Strs, func(p *refmqtt.Props, v *string) { p.ResponseInfo = v }),
			srvRef, c06AuthPVs())
	case "publish":
		out := c06Cat(payFmt, msgExp,
			c06PVu16("TopicAlias", []uint16{1, 10, 65535}, func(p *refmqtt.Props, v *uint16) { p.TopicAlias = v }),
			rtopic, c06CorrPVs(), c06UserPVs(), ctype)
		for _, ids := range [][]uint32{{1}, {127}, {128}, {268435455}, {1, 2}} {
			ids := ids
			out = append(out, c06PV{label: fmt.Sprintf("prop-SubscriptionIdentifier=%v", ids), role: true, set: func(p *refmqtt.Props) { p.SubIDs = append([]uint32{}, ids...) }})
		}
		return out
	case "ack":
		return c06Cat(reason, c06UserPVs())
	case "subscribe":
		var out []c06PV
		for _, id := range []uint32{1, 127, 128, 16383, 16384, 2097151, 2097152, 268435455} {
			id := id
			out = append(out, c06PV{label: fmt.Sprintf("prop-SubscriptionIdentifier=%d", id), set: func(p *refmqtt.Props) { p.SubIDs = []uint32{id} }})
		}
		return c06Cat(out, c06UserPVs())
	case "unsubscribe":
		return c06UserPVs()
	case "disconnect":
		return c06Cat(sessExp, reason, c06UserPVs(), srvRef)
	case "auth":
		return c06Cat(c06AuthPVs(), reason, c06UserPVs())
	}
	return nil
}

// c06AllProps applies one variant of every distinct property of the host (the second
// value of each where there is one), skipping server-role-only ones.
func c06AllProps(pvs []c06PV, withRole bool) *refmqtt.Props {
	p := &refmqtt.Props{}
	byName := map[string][]c06PV{}
	var order []string
	for _, pv := range pvs {
		n := pv.label[:strings.IndexByte(pv.label, '=')]
		if _, ok := byName[n]; !ok {
			order = append(order, n)
		}
		byName[n] = append(byName[n], pv)
	}
	for _, n := range order {
		l := byName[n]
		pv := l[0]
		if len(l) > 1 {
			pv = l[1]
		}
		if pv.role && !withRole {
			continue
		}
		if n == "prop-AuthMethod" {
			continue // AuthData variants set the method as well
		}
		pv.set(p)
	}
	return p
}

func c06Corpus(thorough bool) []c06Case {
	var out []c06Case
	seen := map[string]bool{}
	add := func(label string, role, big bool, p *refmqtt.Packet) {
		key := string(refmqtt.Encode(p)) + string([]byte{p.Version})
		if seen[key] {
			return
		}
		seen[key] = true
		out = append(out, c06Case{P: p, label: label, roleOnly: role, big: big})
	}
	withProps := func(host string, base func() *refmqtt.Packet, slot func(p *refmqtt.Packet) **refmqtt.Props) {
		pvs := c06HostPVs(host)
		for _, pv := range pvs {
			p := base()
			pr := &refmqtt.Props{}
			pv.set(pr)
			*slot(p) = pr
			add(pv.label, pv.role, false, p)
		}
		p := base()
		*slot(p) = c06AllProps(pvs, false)
		add("all-properties", false, false, p)
		hasRole := false
		for _, pv := range pvs {
			hasRole = hasRole || pv.role
		}
		if hasRole {
			p := base()
			*slot(p) = c06AllProps(pvs, true)
			add("all-properties-with-subscription-identifier", true, false, p)
		}
		p = base()
		*slot(p) = &refmqtt.Props{}
		add("explicit-empty-properties", false, false, p)
	}
	mainProps := func(p *refmqtt.Packet) **refmqtt.Props { return &p.Props }

	for _, v := range []byte{3, 4, 5} {
		v := v
		v5 := v == 5
		// ---- CONNECT
		conn := func() *refmqtt.Packet {
			return &refmqtt.Packet{Type: refmqtt.CONNECT, Version: v, CleanStart: true, KeepAlive: 60, ClientID: "c"}
		}
		add("base", false, false, conn())
		for _, s := range c06Strs {
			p := conn()
			p.ClientID = s
			add("client-id="+c06StrLabel(s), false, false, p)
		}
		p := conn()
		p.CleanStart = false
		add("clean-start=0", false, false, p)
		for _, ka := range []uint16{0, 1, 65535} {
			p := conn()
			p.KeepAlive = ka
			add(fmt.Sprintf("keep-alive=%d", ka), false, false, p)
		}
		for _, s := range c06Strs {
			p := conn()
			p.HasUsername, p.Username = true, s
			add("username="+c06StrLabel(s), false, false, p)
		}
		for _, b := range c06Bins {
			p := conn()
			p.HasUsername, p.Username, p.HasPassword, p.Password = true, "u", true, append([]byte{}, b...)
			add("password="+c06StrLabel(string(b)), false, false, p)
			if v5 {
				p := conn()
				p.HasPassword, p.Password = true, append([]byte{}, b...)
				add("password-without-username="+c06StrLabel(string(b)), false, false, p)
			}
		}
		will := func() *refmqtt.Packet {
			p := conn()
			p.WillFlag, p.WillTopic, p.WillPayload = true, "w/t", []byte("bye")
			return p
		}
		for q := byte(0); q <= 2; q++ {
			for _, r := range []bool{false, true} {
				p := will()
				p.WillQoS, p.WillRetain = q, r
				add(fmt.Sprintf("will-qos=%d-retain=%v", q, r), false, false, p)
			}
		}
		for _, s := range []string{"t", "\xc3\xa9", c06Long} {
			p := will()
			p.WillTopic = s
			add("will-topic="+c06StrLabel(s), false, false, p)
		}
		for _, b := range c06Bins {
			p := will()
			p.WillPayload = append([]byte{}, b...)
			add("will-payload="+c06StrLabel(string(b)), false, false, p)
		}
		every := func() *refmqtt.Packet {
			p := will()
			p.WillQoS, p.WillRetain, p.HasUsername, p.Username, p.HasPassword, p.Password = 2, true, true, "user", true, []byte("pass")
			return p
		}
		add("will+username+password", false, false, every())
		if v5 {
			withProps("connect", conn, mainProps)
			withProps("will", will, func(p *refmqtt.Packet) **refmqtt.Props { return &p.WillProps })
			p := every()
			p.Props = c06AllProps(c06HostPVs("connect"), false)
			p.WillProps = c06AllProps(c06HostPVs("will"), false)
			add("everything-set", false, false, p)
		}
		// ---- CONNACK
		codes := []byte{0, 1, 5}
		if v5 {
			codes = []byte{0, 0x80, 0x87}
		}
		for _, sp := range []bool{false, true} {
			for _, code := range codes {
				add(fmt.Sprintf("session-present=%v-code=0x%02x", sp, code), false, false, &refmqtt.Packet{Type: refmqtt.CONNACK, Version: v, SessionPresent: sp, Code: code})
			}
		}
		if v5 {
			withProps("connack", func() *refmqtt.Packet { return &refmqtt.Packet{Type: refmqtt.CONNACK, Version: v} }, mainProps)
		}
		// ---- PUBLISH
		pub := func() *refmqtt.Packet {
			return &refmqtt.Packet{Type: refmqtt.PUBLISH, Version: v, Topic: "t", Payload: []byte("p")}
		}
		for q := byte(0); q <= 2; q++ {
			for _, dup := range []bool{false, true} {
				if dup && q == 0 {
					continue
				}
				for _, ret := range []bool{false, true} {
					p := pub()
					p.QoS, p.Dup, p.Retain = q, dup, ret
					if q > 0 {
						p.PacketID = 7
					}
					add(fmt.Sprintf("qos=%d-dup=%v-retain=%v", q, dup, ret), false, false, p)
				}
			}
		}
		for _, t := range []string{"a/b", "\xc3\xa9", "$SYS/x", "/", "a//b", c06Long} {
			p := pub()
			p.Topic = t
			add("topic="+c06StrLabel(t)+":"+c06Shape(t), false, false, p)
		}
		for _, id := range []uint16{1, 0x100, 65535} {
			p := pub()
			p.QoS, p.PacketID = 1, id
			add(fmt.Sprintf("packet-id=%d", id), false, false, p)
		}
		for _, b := range c06Bins {
			p := pub()
			p.Payload = append([]byte{}, b...)
			add("payload="+c06StrLabel(string(b)), false, false, p)
		}
		sizes := []int{127, 128, 16383, 16384}
		if thorough {
			sizes = append(sizes, 2097151, 2097152)
		}
		for _, rl := range sizes { // remaining length exactly at the VBI boundaries
			p := pub()
			over := 3
			if v5 {
				over = 4
			}
			p.Payload = bytes.Repeat([]byte{0x55}, rl-over)
			add(fmt.Sprintf("remaining-length=%d", rl), false, true, p)
		}
		if v5 {
			withProps("publish", pub, mainProps)
			p := pub()
			p.Topic = ""
			a := uint16(3)
			p.Props = &refmqtt.Props{TopicAlias: &a}
			add("empty-topic-with-alias", false, false, p)
			p = pub()
			p.QoS, p.PacketID, p.Dup, p.Retain = 2, 65535, true, true
			p.Props = c06AllProps(c06HostPVs("publish"), false)
			add("everything-set", false, false, p)
		}
		// ---- PUBACK / PUBREC / PUBREL / PUBCOMP
		for _, t := range []byte{refmqtt.PUBACK, refmqtt.PUBREC, refmqtt.PUBREL, refmqtt.PUBCOMP} {
			t := t
			for _, id := range []uint16{1, 65535} {
				add(fmt.Sprintf("packet-id=%d", id), false, false, &refmqtt.Packet{Type: t, Version: v, PacketID: id})
			}
			if v5 {
				fail := byte(0x80)
				if t == refmqtt.PUBREL || t == refmqtt.PUBCOMP {
					fail = 0x92
				}
				for _, code := range []byte{fail, 0x10} {
					if code == 0x10 && (t == refmqtt.PUBREL || t == refmqtt.PUBCOMP) {
						continue
					}
					code := code
					add(fmt.Sprintf("code=0x%02x-no-property-length", code), false, false, &refmqtt.Packet{Type: t, Version: v, PacketID: 9, Code: code})
					withProps("ack", func() *refmqtt.Packet { return &refmqtt.Packet{Type: t, Version: v, PacketID: 9, Code: code} }, mainProps)
				}
				withProps("ack", func() *refmqtt.Packet { return &refmqtt.Packet{Type: t, Version: v, PacketID: 9} }, mainProps)
			}
		}
		// ---- SUBSCRIBE
		sub := func(subs ...refmqtt.Sub) *refmqtt.Packet {
			return &refmqtt.Packet{Type: refmqtt.SUBSCRIBE, Version: v, PacketID: 5, Subs: subs}
		}
		filters := []string{"a", "a/b", "+", "#", "a/+/b", "a/#", "+/+", "/", "\xc3\xa9", "$SYS/#", c06Long}
		if v5 {
			filters = append(filters, "$share/g/a", "$share/g/+/b", "$share/\xc3\xa9/#")
		}
		for _, f := range filters {
			add("filter="+c06StrLabel(f)+":"+c06Shape(f), false, false, sub(refmqtt.Sub{Filter: f, QoS: 1}))
		}
		for q := byte(0); q <= 2; q++ {
			if !v5 {
				add(fmt.Sprintf("options-qos=%d", q), false, false, sub(refmqtt.Sub{Filter: "a", QoS: q}))
				continue
			}
			for _, nl := range []bool{false, true} {
				for _, rap := range []bool{false, true} {
					for rh := byte(0); rh <= 2; rh++ {
						add(fmt.Sprintf("options-qos=%d-nl=%v-rap=%v-rh=%d", q, nl, rap, rh), false, false, sub(refmqtt.Sub{Filter: "a", QoS: q, NoLocal: nl, RAP: rap, RH: rh}))
					}
				}
			}
		}
		add("two-filters", false, false, sub(refmqtt.Sub{Filter: "a", QoS: 0}, refmqtt.Sub{Filter: "b/#", QoS: 2}))
		add("three-filters", false, false, sub(refmqtt.Sub{Filter: "a", QoS: 2}, refmqtt.Sub{Filter: "+", QoS: 1}, refmqtt.Sub{Filter: "c/d", QoS: 0}))
		p = sub(refmqtt.Sub{Filter: "a", QoS: 1})
		p.PacketID = 65535
		add("packet-id=65535", false, false, p)
		if v5 {
			withProps("subscribe", func() *refmqtt.Packet { return sub(refmqtt.Sub{Filter: "a", QoS: 1}) }, mainProps)
		}
		// ---- SUBACK
		sa := [][]byte{{0}, {1}, {2}, {0x80}, {0, 1, 2, 0x80}}
		if v5 {
			sa = append(sa, []byte{0x83}, []byte{0x87, 0x9e, 0xa2})
		}
		for _, cs := range sa {
			add(fmt.Sprintf("codes=%x", cs), false, false, &refmqtt.Packet{Type: refmqtt.SUBACK, Version: v, PacketID: 5, Codes: append([]byte{}, cs...)})
		}
		add("packet-id=65535", false, false, &refmqtt.Packet{Type: refmqtt.SUBACK, Version: v, PacketID: 65535, Codes: []byte{0}})
		if v5 {
			withProps("ack", func() *refmqtt.Packet {
				return &refmqtt.Packet{Type: refmqtt.SUBACK, Version: v, PacketID: 5, Codes: []byte{1}}
			}, mainProps)
		}
		// ---- UNSUBSCRIBE
		for _, fs := range [][]string{{"a"}, {"a/#", "+"}, {"a", "b", "c/+/d"}, {"\xc3\xa9"}, {c06Long}, {"/"}} {
			add(fmt.Sprintf("filters=%d:%s", len(fs), c06StrLabel(fs[0])), false, false, &refmqtt.Packet{Type: refmqtt.UNSUBSCRIBE, Version: v, PacketID: 6, Filters: append([]string{}, fs...)})
		}
		if v5 {
			withProps("unsubscribe", func() *refmqtt.Packet {
				return &refmqtt.Packet{Type: refmqtt.UNSUBSCRIBE, Version: v, PacketID: 6, Filters: []string{"a"}}
			}, mainProps)
		}
		// ---- UNSUBACK
		if v5 {
			for _, cs := range [][]byte{{0}, {0x11}, {0, 0x11, 0x80}} {
				add(fmt.Sprintf("codes=%x", cs), false, false, &refmqtt.Packet{Type: refmqtt.UNSUBACK, Version: v, PacketID: 6, Codes: append([]byte{}, cs...)})
			}
			withProps("ack", func() *refmqtt.Packet {
				return &refmqtt.Packet{Type: refmqtt.UNSUBACK, Version: v, PacketID: 6, Codes: []byte{0}}
			}, mainProps)
		} else {
			for _, id := range []uint16{1, 65535} {
				add(fmt.Sprintf("packet-id=%d", id), false, false, &refmqtt.Packet{Type: refmqtt.UNSUBACK, Version: v, PacketID: id})
			}
		}
		// ---- PINGREQ / PINGRESP / DISCONNECT / AUTH
		add("base", false, false, &refmqtt.Packet{Type: refmqtt.PINGREQ, Version: v})
		add("base", false, false, &refmqtt.Packet{Type: refmqtt.PINGRESP, Version: v})
		add("base", false, false, &refmqtt.Packet{Type: refmqtt.DISCONNECT, Version: v})
		if v5 {
			for _, code := range []byte{0x04, 0x81, 0x8e} {
				code := code
				add(fmt.Sprintf("code=0x%02x-no-property-length", code), false, false, &refmqtt.Packet{Type: refmqtt.DISCONNECT, Version: v, Code: code})
				if code == 0x04 {
					withProps("disconnect", func() *refmqtt.Packet { return &refmqtt.Packet{Type: refmqtt.DISCONNECT, Version: v, Code: code} }, mainProps)
				}
			}
			withProps("disconnect", func() *refmqtt.Packet { return &refmqtt.Packet{Type: refmqtt.DISCONNECT, Version: v} }, mainProps)
			add("base", false, false, &refmqtt.Packet{Type: refmqtt.AUTH, Version: v})
			for _, code := range []byte{0, 0x18, 0x19} {
				code := code
				withProps("auth", func() *refmqtt.Packet { return &refmqtt.Packet{Type: refmqtt.AUTH, Version: v, Code: code} }, mainProps)
			}
		}
	}
	return out
}

// c06Shape maps a topic string to its wildcard / separator skeleton ("a/+/a").
func c06Shape(s string) string {
	var sb strings.Builder
	prevA := false
	for i := 0; i < len(s); i++ {
		switch s[i] {
		case '/', '+', '#', '$':
			sb.WriteByte(s[i])
			prevA = false
		default:
			if !prevA {
				sb.WriteByte('a')
			}
			prevA = true
		}
	}
	return sb.String()
}

// ---------------------------------------------------------------- cross-codec round trip

// c06RejectClass: property-valued shapes are named by the property alone (the property
// decoder is shared by all packet types), everything else by type and shape.
func c06RejectClass(typeName, label string) string {
	if strings.HasPrefix(label, "prop-") {
		return label
	}
	label = strings.Replace(label, "password-without-username=", "password=", 1)
	return typeName + ":" + label
}

func c06AllocDelta(fn func()) uint64 {
	var m0, m1 runtime.MemStats
	runtime.ReadMemStats(&m0)
	fn()
	runtime.ReadMemStats(&m1)
	return m1.TotalAlloc - m0.TotalAlloc
}

func (k *c06) checkValue(idx int, cs c06Case) (b1 []byte) {
	P := cs.P
	v := P.Version
	tn := c06TypeName(P.Type)
	tag := tn + "-" + c06V(v)
	b1 = refmqtt.Encode(P)
	cas := func() any {
		return map[string]any{"kind": "value", "corpus_index": idx, "type": tn, "version": v, "label": cs.label, "reference_encoding_hex": c06Hex(b1), "value": P.String()}
	}
	// the reference must agree with itself, otherwise the generator or the reference is wrong
	if R, n, err := refmqtt.Decode(b1, v); err != nil || n != len(b1) {
		k.c.Fatal("C06: reference cannot decode its own encoding of %s %s (%s): %v", tag, cs.label, c06Hex(b1), err)
		return
	} else if d := c06DiffRef(R, P); d != "" {
		k.c.Fatal("C06: reference round trip of %s %s differs at %s", tag, cs.label, d)
		return
	}
	k.count("values", 1)
	k.count("distinct_nontrivial", 1)
	// A: gmqtt decodes the reference encoding (byte-level oracles included)
	var res c06Res
	alloc := c06AllocDelta(func() { res = k.d1.decode(b1, v) })
	if bound := uint64(64<<10 + 16*len(b1)); alloc > bound {
		k.violate("alloc-bounded", "well-formed-packet:"+tn, cas, fmt.Sprintf("<= %d bytes allocated for a %d-byte packet", bound, len(b1)), fmt.Sprint(alloc))
	}
	res = k.checkBytes("corpus", b1, v, map[string]any{"label": cs.label, "corpus_index": idx}, false)
	okA := false
	if res.panicked != "" {
		return
	}
	if res.pkt == nil {
		if cs.roleOnly {
			k.count("role_rejected", 1)
		} else {
			k.violate("decode-accepts-valid", c06RejectClass(tn, cs.label), cas, "packet decoded", fmt.Sprintf("error %v", res.err))
		}
	} else {
		// res.pkt has been through Pack (selfRoundTrip); decode again for a pristine struct
		res = k.d1.decode(b1, v)
		Q := c06FromGmqtt(res.pkt, v)
		if Q == nil {
			k.c.Fatal("C06: no conversion for %T", res.pkt)
			return
		}
		if d := c06DiffRef(Q, P); d != "" {
			k.violate("cross-decode", tag+":"+d, cas, P.String(), res.pkt.String())
		} else {
			okA = true
		}
	}
	// B: gmqtt encodes a directly built struct, the reference decodes it
	g := c06ToGmqtt(P)
	b2, err, pan := c06Pack(g)
	okB := false
	switch {
	case pan != "":
		k.violate("no-panic", panicClass(pan), cas, "Pack returns", firstLines(pan, 14))
	case err != nil:
		k.violate("cross-encode", tag+":pack-error", cas, "bytes", err.Error())
	default:
		b2 = append([]byte{}, b2...)
		if tb := int(packets.TotalBytes(g)); tb != len(b2) {
			k.violate("total-bytes", tag+":after-pack-of-built-struct", cas, fmt.Sprint(len(b2)), fmt.Sprint(tb))
		}
		R2, n2, err := refmqtt.Decode(b2, v)
		switch {
		case err != nil:
			k.violate("cross-encode", tag+":reference-rejects:"+c06Slug(err), cas, "Pack output decodable, expected "+c06Hex(b1), c06Hex(b2)+": "+err.Error())
		case n2 != len(b2):
			k.violate("cross-encode", tag+":length", cas, fmt.Sprint(len(b2)), fmt.Sprint(n2))
		default:
			if d := c06DiffRef(R2, P); d != "" {
				k.violate("cross-encode", tag+":"+d, cas, P.String()+" "+c06Hex(b1), R2.String()+" "+c06Hex(b2))
			} else {
				okB = true
			}
		}
	}
	// C: decoded struct -> Pack -> reference decodes the same value
	if okA && okB {
		b3, err, pan := c06Pack(res.pkt)
		if pan == "" && err == nil {
			R3, n3, err := refmqtt.Decode(b3, v)
			if err != nil || n3 != len(b3) {
				k.violate("cross-reencode", tag+":reference-rejects", cas, "decodable", fmt.Sprintf("%s: %v", c06Hex(b3), err))
			} else if d := c06DiffRef(R3, P); d != "" {
				k.violate("cross-reencode", tag+":"+d, cas, P.String(), R3.String()+" "+c06Hex(b3))
			}
		}
	}
	// D: Message sizes
	if P.Type == refmqtt.PUBLISH {
		var pub *packets.Publish
		if okA {
			pub = k.d1.decode(b1, v).pkt.(*packets.Publish)
		} else {
			pub = g.(*packets.Publish)
		}
		k.checkMessage(pub, cas)
	}
	return
}

func (k *c06) checkMessage(pub *packets.Publish, cas func() any) {
	defer func() {
		if x := recover(); x != nil {
			pan := "panic: " + fmt.Sprint(x) + "\n" + string(debug.Stack())
			k.violate("no-panic", panicClass(pan), cas, "Message conversion returns", firstLines(pan, 14))
		}
	}()
	for _, ids := range [][]uint32{nil, {1}, {128, 16384}, {2097152, 268435455}} {
		msg := gmqtt.MessageFromPublish(pub)
		msg.SubscriptionIdentifier = ids
		for _, mv := range []byte{3, 4, 5} {
			k.count("message_sizes", 1)
			want := msg.TotalBytes(mv)
			pk := gmqtt.MessageToPublish(msg, mv)
			b, err, pan := c06Pack(pk)
			if pan != "" {
				k.violate("no-panic", panicClass(pan), cas, "Pack returns", firstLines(pan, 14))
				return
			}
			if err != nil {
				k.violate("message-total-bytes", "pack-error", cas, "bytes", err.Error())
				return
			}
			if int(want) != len(b) {
				cls := fmt.Sprintf("%s:subids=%d", c06V(mv), len(ids))
				if len(b) > 2097152+4 || len(b) < 1 {
					cls += ":huge"
				}
				k.violate("message-total-bytes", cls, cas, fmt.Sprintf("%d (length of Pack(MessageToPublish))", len(b)), fmt.Sprint(want))
			}
			if int(packets.TotalBytes(pk)) != len(b) {
				k.violate("total-bytes", "PUBLISH-"+c06V(mv)+":after-pack-of-message", cas, fmt.Sprint(len(b)), fmt.Sprint(packets.TotalBytes(pk)))
			}
		}
	}
}

// ---------------------------------------------------------------- mutation closure

func (k *c06) mutate(idx int, cs c06Case, b1 []byte, maxSubst, maxPair int) {
	v := cs.P.Version
	n := len(b1)
	seen := map[string]struct{}{string(b1): {}}
	extra := func(m string) map[string]any {
		return map[string]any{"origin": c06TypeName(cs.P.Type) + " " + cs.label, "origin_hex": c06Hex(b1), "mutation": m, "corpus_index": idx}
	}
	try := func(in []byte, m func() string) {
		if _, dup := seen[string(in)]; dup {
			return
		}
		seen[string(in)] = struct{}{}
		k.count("mutants", 1)
		k.checkBytesLazy("mutation", in, v, extra, m)
	}
	buf := make([]byte, 0, n+1)
	for i := 0; i < n; i++ {
		i := i
		try(b1[:i], func() string { return fmt.Sprintf("truncate to %d", i) })
	}
	if n <= maxSubst {
		for i := 0; i < n; i++ {
			for x := 0; x < 256; x++ {
				if byte(x) == b1[i] {
					continue
				}
				buf = append(buf[:0], b1...)
				buf[i] = byte(x)
				i, x := i, x
				try(buf, func() string { return fmt.Sprintf("byte %d := 0x%02x", i, x) })
			}
		}
	}
	if n <= maxPair {
		// pairs of substitutions over the reduced alphabet: distinct from each other and from
		// every other mutant by construction (same length, two positions changed)
		for i := 0; i < n; i++ {
			for j := i + 1; j < n; j++ {
				for _, x := range c06Reduced {
					if x == b1[i] {
						continue
					}
					for _, y := range c06Reduced {
						if y == b1[j] {
							continue
						}
						buf = append(buf[:0], b1...)
						buf[i], buf[j] = x, y
						i, j, x, y := i, j, x, y
						k.count("mutants", 1)
						k.count("pair_mutants", 1)
						k.checkBytesLazy("mutation", buf, v, extra, func() string { return fmt.Sprintf("byte %d := 0x%02x, byte %d := 0x%02x", i, x, j, y) })
					}
				}
			}
		}
	}
	for i := 0; i < n; i++ {
		buf = append(buf[:0], b1[:i]...)
		buf = append(buf, b1[i+1:]...)
		i := i
		try(buf, func() string { return fmt.Sprintf("delete byte %d", i) })
	}
	for i := 0; i <= n; i++ {
		for _, x := range []byte{0x00, 0x80, 0xff} {
			buf = append(buf[:0], b1[:i]...)
			buf = append(buf, x)
			buf = append(buf, b1[i:]...)
			i, x := i, x
			try(buf, func() string { return fmt.Sprintf("insert 0x%02x at %d", x, i) })
		}
	}
}

// checkBytesLazy: checkBytes with the descriptive part of the case built only on demand.
func (k *c06) checkBytesLazy(phase string, in []byte, v byte, extra func(string) map[string]any, m func() string) {
	k.lazyExtra = func() map[string]any { return extra(m()) }
	k.checkBytes(phase, in, v, nil, true)
	k.lazyExtra = nil
}

// ---------------------------------------------------------------- allocation bound

func c06LegalFlags(t byte) byte {
	switch t {
	case refmqtt.PUBREL, refmqtt.SUBSCRIBE, refmqtt.UNSUBSCRIBE:
		return 2
	}
	return 0
}

// c06BodyPrefix: the first bytes of a plausible body for the type.
func c06BodyPrefix(t byte, n int) []byte {
	var b []byte
	switch t {
	case refmqtt.CONNECT:
		b = []byte{0, 4, 'M', 'Q', 'T', 'T', 4, 2}
	case refmqtt.PUBLISH:
		b = []byte{0, 1, 't', 'p', 'a', 'y', 'l', 'o'}
	case refmqtt.SUBSCRIBE, refmqtt.UNSUBSCRIBE:
		b = []byte{0, 1, 0, 0, 1, 'a', 0, 0}
	default:
		b = []byte{0, 1, 0, 0, 0, 0, 0, 0}
	}
	return b[:n]
}

func (k *c06) allocCase(t byte, declared int, supplied int, version byte) {
	in := []byte{t<<4 | c06LegalFlags(t)}
	in = refmqtt.AppendVBI(in, uint32(declared))
	in = append(in, c06BodyPrefix(t, supplied)...)
	cas := func() any {
		return map[string]any{"kind": "alloc", "type": c06TypeName(t), "packet_type": t, "declared_remaining_length": declared, "body_bytes_supplied": supplied, "reader_version": version, "input_hex": hex.EncodeToString(in)}
	}
	k.count("evaluations", 1)
	k.count("alloc_cases", 1)
	var res c06Res
	delta := c06AllocDelta(func() { res = k.d1.decode(in, version) })
	if k.verb {
		fmt.Printf("  decode(%s, %s) allocated %d bytes; pkt=%v err=%v\n", c06Hex(in), c06V(version), delta, res.pkt, res.err)
	}
	if res.panicked != "" {
		k.violate("no-panic", panicClass(res.panicked), cas, "packet or error", firstLines(res.panicked, 14))
	}
	if res.pkt != nil && declared > supplied {
		k.violate("no-packet-from-incomplete-input", "body-shorter-than-declared:"+c06TypeName(t), cas, "error", "accepted "+res.pkt.String())
	}
	bound := uint64(64<<10 + 16*len(in))
	if delta > bound {
		k.count("alloc_over_bound", 1)
		k.count("alloc_over_bound:"+c06TypeName(t), 1)
		cls := "declared-length-allocated-before-read"
		if delta < uint64(declared) {
			cls = "allocation-out-of-proportion-to-input"
		}
		k.violate("alloc-bounded", cls, cas, fmt.Sprintf("<= %d bytes allocated while decoding %d supplied bytes", bound, len(in)), fmt.Sprintf("%d bytes allocated (declared remaining length %d)", delta, declared))
	}
	res.pkt = nil
	if declared >= 1<<20 {
		runtime.GC()
		if declared >= 1<<27 {
			debug.FreeOSMemory()
		}
	}
}

func (k *c06) allocPhase(thorough bool) {
	for _, declared := range []int{127, 128, 16383, 16384, 2097151, 2097152, 268435455} {
		for t := byte(1); t <= 15; t++ {
			for _, version := range []byte{3, 4, 5} {
				for supplied := 0; supplied <= 8; supplied++ {
					if declared == 268435455 {
						// a handful of 256 MiB declarations only
						if supplied != 0 && supplied != 8 {
							continue
						}
						if !thorough && (version != 4 || !(t == refmqtt.CONNECT || t == refmqtt.PUBLISH || t == refmqtt.SUBSCRIBE)) {
							continue
						}
						if thorough && version == 3 {
							continue
						}
					} else if declared >= 1<<20 && !thorough && !(supplied == 0 || supplied == 1 || supplied == 8) {
						continue
					}
					k.allocCase(t, declared, supplied, version)
				}
			}
		}
	}
}

// ---------------------------------------------------------------- directed length headers

func (k *c06) lengthPhase() {
	for _, first := range []byte{0x10, 0x30, 0x82, 0xc0, 0xe0, 0xf0} {
		for _, version := range []byte{3, 4, 5} {
			for n := 5; n <= 9; n++ { // n length bytes: n-1 continuation bytes and a terminator
				for _, cont := range []byte{0x80, 0x81} { // 0xff x4 would declare 256 MiB: covered by the alloc phase
					for _, last := range []byte{0x00, 0x01, 0x7f} {
						in := []byte{first}
						in = append(in, bytes.Repeat([]byte{cont}, n-1)...)
						in = append(in, last)
						k.checkBytes("length", in, version, map[string]any{"shape": fmt.Sprintf("%d length bytes", n)}, false)
						in = append(in, 0, 0, 0, 0)
						k.checkBytes("length", in, version, map[string]any{"shape": fmt.Sprintf("%d length bytes then 4 zero bytes", n)}, false)
					}
				}
			}
			// a bounded "endless" stream of continuation bytes
			in := append([]byte{first}, bytes.Repeat([]byte{0x80}, 1<<16)...)
			k.checkBytes("length", in, version, map[string]any{"shape": "65536 continuation bytes 0x80"}, false)
		}
	}
}

// ---------------------------------------------------------------- property grid

var c06PropIDs = []byte{0x01, 0x02, 0x03, 0x08, 0x09, 0x0B, 0x11, 0x12, 0x13, 0x15, 0x16, 0x17, 0x18, 0x19, 0x1A, 0x1C, 0x1F, 0x21, 0x22, 0x23, 0x24, 0x25, 0x26, 0x27, 0x28, 0x29, 0x2A}

func c06PropBytes(id byte) []byte {
	switch id {
	case 0x01, 0x17, 0x19, 0x24, 0x25, 0x28, 0x29, 0x2A:
		return []byte{id, 1}
	case 0x13, 0x21, 0x22, 0x23:
		return []byte{id, 0, 10}
	case 0x02, 0x11, 0x18, 0x27:
		return []byte{id, 0, 0, 0, 10}
	case 0x0B:
		return []byte{id, 10}
	case 0x26:
		return []byte{id, 0, 1, 'k', 0, 1, 'v'}
	}
	return []byte{id, 0, 1, 'a'} // strings and binary data
}

var c06Hosts = []string{"CONNECT", "CONNECT-will", "CONNACK", "PUBLISH", "PUBACK", "PUBREC", "PUBREL", "PUBCOMP", "SUBSCRIBE", "SUBACK", "UNSUBSCRIBE", "UNSUBACK", "DISCONNECT", "AUTH"}

func c06HostPacket(host string, props []byte) []byte {
	pl := append(refmqtt.AppendVBI(nil, uint32(len(props))), props...)
	var first byte
	var body []byte
	switch host {
	case "CONNECT":
		first = 0x10
		body = append([]byte{0, 4, 'M', 'Q', 'T', 'T', 5, 2, 0, 60}, pl...)
		body = append(body, 0, 1, 'c')
	case "CONNECT-will":
		first = 0x10
		body = append([]byte{0, 4, 'M', 'Q', 'T', 'T', 5, 6, 0, 60, 0, 0, 1, 'c'}, pl...)
		body = append(body, 0, 1, 't', 0, 1, 'm')
	case "CONNACK":
		first, body = 0x20, append([]byte{0, 0}, pl...)
	case "PUBLISH":
		first, body = 0x30, append(append([]byte{0, 1, 't'}, pl...), 'p')
	case "PUBACK":
		first, body = 0x40, append([]byte{0, 1, 0}, pl...)
	case "PUBREC":
		first, body = 0x50, append([]byte{0, 1, 0}, pl...)
	case "PUBREL":
		first, body = 0x62, append([]byte{0, 1, 0}, pl...)
	case "PUBCOMP":
		first, body = 0x70, append([]byte{0, 1, 0}, pl...)
	case "SUBSCRIBE":
		first, body = 0x82, append(append([]byte{0, 1}, pl...), 0, 1, 'a', 0)
	case "SUBACK":
		first, body = 0x90, append(append([]byte{0, 1}, pl...), 0)
	case "UNSUBSCRIBE":
		first, body = 0xa2, append(append([]byte{0, 1}, pl...), 0, 1, 'a')
	case "UNSUBACK":
		first, body = 0xb0, append(append([]byte{0, 1}, pl...), 0)
	case "DISCONNECT":
		first, body = 0xe0, append([]byte{0}, pl...)
	case "AUTH":
		first, body = 0xf0, append([]byte{0x18}, pl...)
	}
	return append(refmqtt.AppendVBI([]byte{first}, uint32(len(body))), body...)
}

func (k *c06) propGrid(host string) {
	try := func(ids ...byte) {
		var props []byte
		for _, id := range ids {
			props = append(props, c06PropBytes(id)...)
		}
		in := c06HostPacket(host, props)
		k.count("propgrid_cases", 1)
		k.count("distinct_nontrivial", 1)
		k.checkBytes("propgrid", in, 5, map[string]any{"host": host, "property_ids": fmt.Sprintf("%x", ids)}, true)
	}
	for _, id := range c06PropIDs {
		try(id)
		try(id, id)
		if id != 0x15 {
			try(0x15, id)
			try(0x15, id, id)
		}
		if id != 0x26 {
			try(id, 0x26, id)
		}
	}
}

// ---------------------------------------------------------------- validators

var c06Alpha = []byte{'a', '/', '+', '#', '$', 0x00, 0xC3, 0xA9, 0xFF, 0xEF, 0xBF, 0xBD}

// c06StrCause names why the reference and gmqtt may differ on s, most basic cause first.
func c06StrCause(s string) string {
	switch {
	case strings.IndexByte(s, 0) >= 0:
		return "contains-nul"
	case !utf8.ValidString(s):
		return "ill-formed-utf8"
	case strings.ContainsRune(s, utf8.RuneError):
		return "contains-U+FFFD"
	}
	return ""
}

// c06FilterCause: the first wildcard misuse in f by MQTT 4.7.1 ("" when none).
func c06FilterCause(f string) string {
	levels := strings.Split(f, "/")
	pos := 0
	for i, l := range levels {
		for j := 0; j < len(l); j++ {
			at := "inside-filter"
			if pos+j == 0 {
				at = "at-filter-start"
			}
			if l[j] == '#' {
				if len(l) != 1 {
					return "hash-shares-level:" + at
				}
				if i != len(levels)-1 {
					return "hash-not-last-level:" + at
				}
			}
			if l[j] == '+' && len(l) != 1 {
				if j == 0 {
					return "plus-followed-by-character:" + at
				}
				return "plus-preceded-by-character:" + at
			}
		}
		pos += len(l) + 1
	}
	return ""
}

func c06Dir(got bool) string {
	if got {
		return "accepts-invalid:"
	}
	return "rejects-valid:"
}

func (k *c06) validatorCase(s string) {
	b := []byte(s)
	cas := func() any {
		return map[string]any{"kind": "validator", "string_hex": hex.EncodeToString(b), "string": fmt.Sprintf("%q", s)}
	}
	k.count("evaluations", 1)
	k.count("validator_strings", 1)
	cause := c06StrCause(s)
	refU := refmqtt.ValidUTF8(b)
	refN := refmqtt.ValidTopicName(s)
	refF := refmqtt.ValidTopicFilter(s)
	if refU && s != "" {
		k.count("distinct_nontrivial", 1)
	}
	var gU, gN, gF, gV bool
	func() {
		defer func() {
			if x := recover(); x != nil {
				pan := "panic: " + fmt.Sprint(x) + "\n" + string(debug.Stack())
				k.violate("no-panic", panicClass(pan), cas, "bool", firstLines(pan, 14))
			}
		}()
		gU = packets.ValidUTF8(b)
		gN = packets.ValidTopicName(true, b)
		gF = packets.ValidTopicFilter(true, b)
		gV = packets.ValidV5Topic(b)
	}()
	if gU != refU {
		c := cause
		if c == "" {
			c = "other"
		}
		k.violate("validator:ValidUTF8", c06Dir(gU)+c, cas, fmt.Sprint(refU), fmt.Sprint(gU))
	}
	if gN != refN {
		switch {
		case s == "":
			k.count("exempt_empty_topic_name_accepted", 1) // legitimate for a v5 PUBLISH with a topic alias
		default:
			c := cause
			if c == "" {
				c = "wildcard:" + c06Shape(s)
			}
			k.violate("validator:ValidTopicName", c06Dir(gN)+c, cas, fmt.Sprint(refN), fmt.Sprint(gN))
		}
	}
	if gF != refF {
		c := cause
		if c == "" {
			c = c06FilterCause(s)
		}
		if c == "" {
			c = "shape:" + c06Shape(s)
		}
		k.violate("validator:ValidTopicFilter", c06Dir(gF)+c, cas, fmt.Sprint(refF), fmt.Sprint(gF))
	}
	if !strings.HasPrefix(s, "$share/") {
		if gV != gF {
			k.violate("validator:ValidV5Topic", "non-shared-filter-differs-from-ValidTopicFilter", cas, fmt.Sprint(gF), fmt.Sprint(gV))
		}
		return
	}
	// $share/<group>/<filter>: the filter part is judged by gmqtt's own ValidTopicFilter
	// (its deviations are reported under that validator), the group part by MQTT 4.8.2.
	k.count("validator_shared_strings", 1)
	rest := s[len("$share/"):]
	i := strings.IndexByte(rest, '/')
	want, c := false, ""
	if i < 0 {
		c = "share-without-filter"
	} else {
		g, f := rest[:i], rest[i+1:]
		gOK := g != "" && refmqtt.ValidUTF8([]byte(g)) && !strings.ContainsAny(g, "+#")
		fOK := f != "" && packets.ValidTopicFilter(true, []byte(f))
		want = gOK && fOK
		switch {
		case g == "":
			c = "share-group:empty"
		case c06StrCause(g) != "":
			c = "share-group:" + c06StrCause(g)
		case !gOK:
			c = "share-group:wildcard"
		default:
			c = "share-filter:" + c06Shape(f)
		}
	}
	if gV != want {
		k.violate("validator:ValidV5Topic", c06Dir(gV)+c, cas, fmt.Sprint(want), fmt.Sprint(gV))
	}
}

func c06Strings(prefix string, more int, fn func(s string)) {
	fn(prefix)
	if more == 0 {
		return
	}
	for _, ch := range c06Alpha {
		c06Strings(prefix+string([]byte{ch}), more-1, fn)
	}
}

// ---------------------------------------------------------------- raw enumeration

var c06Reduced = func() []byte {
	set := map[byte]bool{}
	for _, b := range []byte{0x00, 0x01, 0x02, 0x04, 0x7f, 0x80, 0xff} {
		set[b] = true
	}
	for _, b := range c06PropIDs {
		set[b] = true
	}
	var out []byte
	for b := range set {
		out = append(out, b)
	}
	sort.Slice(out, func(i, j int) bool { return out[i] < out[j] })
	return out
}()

// c06Huge: the header declares more than 4 MiB (gmqtt allocates the declared length, see
// the alloc phase; enumerating thousands of such inputs only measures memclr).
func c06Huge(in []byte) bool {
	total, _, _ := refmqtt.Frame(in)
	return total > 4<<20
}

func (k *c06) rawAccepted(res c06Res) {
	if res.pkt != nil {
		k.count("distinct_nontrivial", 1)
		k.count("raw_accepted", 1)
	}
}

func (k *c06) raw3(first byte) {
	in := make([]byte, 3)
	in[0] = first
	for _, v := range []byte{3, 4, 5} {
		if first == 0 {
			k.checkBytes("raw3", nil, v, nil, false)
		}
		k.rawAccepted(k.checkBytes("raw3", in[:1], v, nil, false))
		for a := 0; a < 256; a++ {
			in[1] = byte(a)
			k.rawAccepted(k.checkBytes("raw3", in[:2], v, nil, false))
			for b := 0; b < 256; b++ {
				in[2] = byte(b)
				k.rawAccepted(k.checkBytes("raw3", in[:3], v, nil, false))
			}
		}
	}
}

func (k *c06) raw45(first, second byte, maxLen int) {
	in := make([]byte, 5)
	in[0], in[1] = first, second
	for _, v := range []byte{3, 4, 5} {
		for _, a := range c06Reduced {
			in[2] = a
			for _, b := range c06Reduced {
				in[3] = b
				k.rawAccepted(k.checkBytes("raw45", in[:4], v, nil, false))
				if maxLen >= 5 {
					for _, c := range c06Reduced {
						in[4] = c
						if c06Huge(in[:5]) {
							k.count("raw_skipped_declared_over_4MiB", 1)
							continue
						}
						k.rawAccepted(k.checkBytes("raw45", in[:5], v, nil, false))
					}
				}
			}
		}
	}
}

// ---------------------------------------------------------------- driver

// ---- an encode that follows a failed encode

type c06FailWriter struct{ left int }

func (w *c06FailWriter) Write(b []byte) (int, error) {
	if w.left <= 0 {
		return 0, errors.New("verif: broken pipe")
	}
	if len(b) > w.left {
		n := w.left
		w.left = 0
		return n, errors.New("verif: broken pipe")
	}
	w.left -= len(b)
	return len(b), nil
}

// c06FailedPacks are encodes that end with an error after Pack has started working.
func c06FailedPacks() []func() string {
	big := strings.Repeat("S", 3000)
	return []func() string{
		func() string {
			// a field longer than 65535 bytes aborts the encode
			p := &packets.Connect{Version: packets.Version311, ProtocolName: []byte("MQTT"), ProtocolLevel: 4, ClientID: []byte("c"), UsernameFlag: true, PasswordFlag: true, Username: []byte("u"), Password: []byte(strings.Repeat("P", 65536))}
			defer func() { recover() }()
			if err := p.Pack(io.Discard); err != nil {
				return "CONNECT with a 65536-byte password: " + err.Error()
			}
			return ""
		},
		func() string {
			// the connection breaks while a large packet is being written
			p := &packets.Publish{Version: packets.Version311, TopicName: []byte("t"), Payload: []byte(big)}
			defer func() { recover() }()
			if err := p.Pack(&c06FailWriter{left: 1000}); err != nil {
				return "3000-byte PUBLISH into a writer that breaks after 1000 bytes: " + err.Error()
			}
			return ""
		},
		func() string {
			p := &packets.Publish{Version: packets.Version5, TopicName: []byte("t"), Payload: []byte("xyz"), Properties: &packets.Properties{ContentType: []byte("ct")}}
			defer func() { recover() }()
			if err := p.Pack(&c06FailWriter{left: 0}); err != nil {
				return "v5 PUBLISH into a writer that is already broken: " + err.Error()
			}
			return ""
		},
	}
}

// packAfterFailure: a well-formed value encodes to the same bytes whatever encode
// failed just before it (the encoders share pooled buffers).
func (k *c06) packAfterFailure(idx int, cs c06Case) {
	g := c06ToGmqtt(cs.P)
	if g == nil {
		return
	}
	want, err, pan := c06Pack(g)
	if err != nil || pan != "" {
		return
	}
	want = append([]byte{}, want...)
	for fi, fail := range c06FailedPacks() {
		what := fail()
		if what == "" {
			k.count("failed_pack_did_not_fail", 1)
			continue
		}
		got, err2, pan2 := c06Pack(g)
		k.count("pack_after_failed_pack", 1)
		if pan2 != "" || err2 != nil || !bytes.Equal(got, want) {
			tn := c06TypeName(cs.P.Type)
			cas := func() any {
				return map[string]any{"kind": "pack-after-failed-pack", "corpus_index": idx, "type": tn, "version": cs.P.Version, "label": cs.label, "failed_encode": what, "failed_encode_index": fi}
			}
			obs := fmt.Sprintf("%d bytes: %s err=%v %s", len(got), c06Hex(got), err2, firstLines(pan2, 3))
			k.violate("encode-independent-of-history", fmt.Sprintf("encoding-differs-after-failed-encode-%d", fi), cas, c06Hex(want), obs)
			// drain whatever the pool still holds so that later cases start clean
			for i := 0; i < 4; i++ {
				c06Pack(g)
			}
		}
	}
}

func c06Replay(c *explore.Ctx, rc map[string]any) {
	k := newC06(c)
	k.verb = true
	defer k.flush()
	num := func(key string) int {
		f, _ := rc[key].(float64)
		return int(f)
	}
	kind, _ := rc["kind"].(string)
	switch kind {
	case "bytes":
		in, err := hex.DecodeString(fmt.Sprint(rc["input_hex"]))
		if err != nil {
			c.Fatal("replay: bad input_hex: %v", err)
			return
		}
		if n := num("input_len"); n > len(in) && len(in) > 0 {
			in = append(in, bytes.Repeat([]byte{in[len(in)-1]}, n-len(in))...)
		}
		v := byte(num("reader_version"))
		rv := c06Ref(in, v)
		fmt.Printf("  reference: ok=%v reason=%q packet=%v\n", rv.ok, rv.reason, rv.p)
		k.checkBytes(fmt.Sprint(rc["phase"]), in, v, nil, true)
	case "value":
		var corpus []c06Case
		idx := -1
		for _, th := range []bool{false, true} {
			corpus = c06Corpus(th)
			for i, cs := range corpus {
				if cs.label == rc["label"] && int(cs.P.Version) == num("version") && c06TypeName(cs.P.Type) == rc["type"] &&
					(idx < 0 || i == num("corpus_index")) {
					idx = i
				}
			}
			if idx >= 0 {
				break
			}
		}
		if idx < 0 {
			c.Fatal("replay: no corpus value %v %v %v", rc["type"], rc["version"], rc["label"])
			return
		}
		fmt.Printf("  value: %s %s %s\n", c06TypeName(corpus[idx].P.Type), c06V(corpus[idx].P.Version), corpus[idx].label)
		k.checkValue(idx, corpus[idx])
	case "alloc":
		k.allocCase(byte(num("packet_type")), num("declared_remaining_length"), num("body_bytes_supplied"), byte(num("reader_version")))
	case "validator":
		b, _ := hex.DecodeString(fmt.Sprint(rc["string_hex"]))
		fmt.Printf("  string %q: gmqtt ValidUTF8=%v ValidTopicName=%v ValidTopicFilter=%v ValidV5Topic=%v; reference utf8=%v name=%v filter=%v\n", b,
			packets.ValidUTF8(b), packets.ValidTopicName(true, b), packets.ValidTopicFilter(true, b), packets.ValidV5Topic(b),
			refmqtt.ValidUTF8(b), refmqtt.ValidTopicName(string(b)), refmqtt.ValidTopicFilter(string(b)))
		k.validatorCase(string(b))
	default:
		c.Fatal("replay: unknown case kind %q", kind)
	}
	k.count("evaluations", 2)
	k.count("distinct_nontrivial", 2)
	c.Sample(rc)
}

func runC06(c *explore.Ctx) {
	c.Level = "exploration"
	c.Rule = "E5 small-scope inputs through gmqtt's pkg/packets with refmqtt as independent codec. (raw) every byte string of length <=3 and every string of length 4 (thorough: 4-5) over {16 type nibbles x flags 0,2,3,F} x {00,01,02,04,7f,80,ff + every property id}, each under reader versions 3.1/3.1.1/5 (5-byte inputs declaring more than 4 MiB are skipped, that shape is the alloc phase); (length) 5-9 byte remaining-length fields and a 64 KiB run of 0x80; (alloc) declared lengths 127..268435455 with 0-8 body bytes, allocation measured with runtime.MemStats.TotalAlloc; (corpus) generated well-formed values of all 15 packet types x 3 versions, every legal property alone at min/typical/boundary values plus all-properties packets: reference-encode -> gmqtt decode -> field equality, gmqtt struct -> Pack -> reference decode, TotalBytes, Message.TotalBytes; every corpus value is also packed right after each of three failing encodes (over-long field, writer that breaks mid-packet, writer already broken) and must give the same bytes; (mutation) for corpus packets <=200 bytes all truncations, single deletions, insertions of 00/80/ff and, for packets <= 40 bytes (thorough: 64), all 255 substitutions of every byte, deduplicated per origin; thorough adds all pairs of substitutions over the reduced alphabet for packets <= 20 bytes; (propgrid) every property id single/doubled in each of 14 property hosts; (validators) all strings of length <=5 over {a / + # $ NUL C3 A9 FF EF BF BD} and '$share/'+strings of length <=4. Oracles: no panic; bytes consumed <= declared packet length and == it on success; no packet from incomplete input; remaining length <= 4 bytes; allocation <= 64 KiB + 16 x bytes supplied; accepted => Pack output re-decodes DeepEqual and TotalBytes == length; accept/reject vs reference counted per class (d_acc:/d_rej:) and flagged only for invalid UTF-8, duplicate/misplaced property, reserved flags, wildcard in PUBLISH topic under 3.1.1/5. distinct_nontrivial counts, distinct by construction: raw inputs (bytes,version) the decoder accepted + corpus values (deduplicated by encoding) + property-grid packets + validator strings that are non-empty valid UTF-8; mutants are NOT included (distinct only per origin)."
	c.Trusted = []string{"refmqtt reference codec (written from the OASIS texts, checked against itself on every corpus value)", "runtime.MemStats.TotalAlloc", "reflect.DeepEqual"}
	c.Assumptions = []string{
		"an empty topic name accepted by ValidTopicName is not flagged (needed for MQTT 5 topic aliases)",
		"gmqtt rejecting control characters U+0001..U+001F / U+007F..U+009F is permitted (MQTT-1.5.4 MAY); the corpus avoids them",
		"server-to-client-only shapes that the server-side decoder rejects (PUBLISH carrying a Subscription Identifier) are built as structs instead of decoded",
		"accept/reject disagreements outside the explicitly flagged classes are reported as counters only",
	}
	// many short-lived allocations (gmqtt allocates the declared length): a small heap that
	// is collected often is much cheaper than vx's default of collecting at 768 MiB
	debug.SetGCPercent(200)
	if rc := replayCase(c); rc != nil {
		c06Replay(c, rc)
		return
	}
	thorough := !c.Quick()
	corpus := c06Corpus(thorough)
	c.Extra["corpus_values"] = len(corpus)
	walls := map[string]float64{}
	c.Extra["phase_wall_s"] = walls
	last := time.Now()
	only := os.Getenv("C06_PHASES") // debugging aid: comma separated phase names
	units := func(phase string, n int, fn func(u int)) {
		if only == "" || strings.Contains(","+only+",", ","+phase+",") {
			c.Units(phase, n, fn)
		}
	}
	lap := func(phase string) {
		walls[phase] = float64(time.Since(last).Milliseconds()) / 1000
		last = time.Now()
	}

	units("length", 1, func(u int) {
		k := newC06(c)
		k.lengthPhase()
		k.flush()
	})
	lap("length")
	units("raw3", 256, func(u int) {
		k := newC06(c)
		k.raw3(byte(u))
		k.flush()
		if u == 0x30 {
			c.Sample(map[string]any{"phase": "raw3", "first_byte": "0x30", "inputs": "30, 30 00 .. 30 ff, 30 00 00 .. 30 ff ff under v3.1, v3.1.1, v5"})
		}
	})
	lap("raw3")
	maxLen := 4
	if thorough {
		maxLen = 5
	}
	flagsSet := []byte{0, 2, 3, 0xF}
	units("raw45", 64*len(c06Reduced), func(u int) {
		k := newC06(c)
		f := u / len(c06Reduced)
		first := byte(f/4)<<4 | flagsSet[f%4]
		k.raw45(first, c06Reduced[u%len(c06Reduced)], maxLen)
		k.flush()
	})
	lap("raw45")
	units("alloc", 1, func(u int) {
		k := newC06(c)
		k.allocPhase(thorough)
		k.flush()
		c.Sample(map[string]any{"phase": "alloc", "example_input_hex": "30ffffff7f0001", "meaning": "PUBLISH declaring 268435455 bytes, 2 body bytes supplied"})
	})
	lap("alloc")
	maxSubst, maxPair := 40, 0
	if thorough {
		maxSubst, maxPair = 64, 20
	}
	units("corpus", len(corpus), func(u int) {
		k := newC06(c)
		cs := corpus[u]
		b1 := k.checkValue(u, cs)
		if b1 != nil && !cs.big && len(b1) <= 200 {
			k.count("mutation_origins", 1)
			k.mutate(u, cs, b1, maxSubst, maxPair)
		}
		k.flush()
		if u%211 == 5 {
			c.Sample(map[string]any{"phase": "corpus", "type": c06TypeName(cs.P.Type), "version": cs.P.Version, "label": cs.label, "reference_encoding_hex": c06Hex(b1)})
		}
	})
	lap("corpus")
	units("pack-after-failure", len(corpus), func(u int) {
		k := newC06(c)
		if !corpus[u].big {
			k.packAfterFailure(u, corpus[u])
		}
		k.flush()
	})
	lap("pack-after-failure")
	units("propgrid", len(c06Hosts), func(u int) {
		k := newC06(c)
		k.propGrid(c06Hosts[u])
		k.flush()
	})
	lap("propgrid")
	na := len(c06Alpha)
	units("validators", na*na+1+na, func(u int) {
		k := newC06(c)
		switch {
		case u < na*na:
			c06Strings(string([]byte{c06Alpha[u/na], c06Alpha[u%na]}), 3, k.validatorCase)
		case u == na*na:
			c06Strings("", 1, k.validatorCase)
			c.Sample(map[string]any{"phase": "validators", "strings": []string{"+a", "a/#", "$share/a/+", "a\x00"}})
		default:
			ch := c06Alpha[u-na*na-1]
			c06Strings("$share/"+string([]byte{ch}), 3, k.validatorCase)
			if ch == 'a' {
				k.validatorCase("$share/")
			}
		}
		k.flush()
	})
	lap("validators")
	if !c.IsWorker() {
		if a, r := c.Get("disagree_gmqtt_accepts_ref_rejects"), c.Get("disagree_gmqtt_rejects_ref_accepts"); a+r > 0 {
			c.Note("accept/reject disagreements with the reference (first packet of the input): gmqtt accepts / reference rejects = %d (classes d_acc:*), gmqtt rejects / reference accepts = %d (d_rej:* by packet type); only the explicitly forbidden classes are violations", a, r)
		}
	}
}
