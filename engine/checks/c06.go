package checks

// C06 — packet codec is total, bounded and round-trips for every input.
//
// Phases (each sharded with c.Units):
//   raw3       every byte string of length <=3 under v3.1 / v3.1.1 / v5
//   raw45      length 4 (thorough: 5) over a reduced alphabet
//   length     directed remaining-length headers (5..9 length bytes, 0x80 stream)
//   alloc      large declared lengths with 0..8 body bytes supplied, allocation measured
//   corpus     generated well-formed values: cross-codec round trip + mutation closure
//   propgrid   every property id, single and doubled, in every property host
//   validators strings over a small alphabet against the topic / UTF-8 predicates

import (
	"bufio"
	"bytes"
	"encoding/hex"
	"fmt"
	"reflect"
	"runtime"
	"runtime/debug"
	"sort"
	"strings"
	"unicode/utf8"

	gmqtt "github.com/DrmagicE/gmqtt"
	"github.com/DrmagicE/gmqtt/pkg/packets"

	"verif/explore"
	"verif/refmqtt"
)

func init() { register("C06", runC06) }

// ---------------------------------------------------------------- decode / pack harness

type c06Dec struct {
	rd   *bytes.Reader
	bufr *bufio.Reader
}

func newC06Dec() *c06Dec {
	rd := bytes.NewReader(nil)
	return &c06Dec{rd: rd, bufr: bufio.NewReaderSize(rd, 2048)}
}

type c06Res struct {
	pkt      packets.Packet
	err      error
	consumed int
	panicked string
}

func c06IsNilPacket(p packets.Packet) bool {
	if p == nil {
		return true
	}
	v := reflect.ValueOf(p)
	return v.Kind() == reflect.Ptr && v.IsNil()
}

// decode reads one packet from in with a fresh packets.Reader set to version.
func (d *c06Dec) decode(in []byte, version byte) (res c06Res) {
	d.rd.Reset(in)
	d.bufr.Reset(d.rd)
	r := packets.NewReader(d.bufr)
	r.SetVersion(version)
	defer func() {
		if x := recover(); x != nil {
			res.panicked = "panic: " + fmt.Sprint(x) + "\n" + string(debug.Stack())
			res.pkt = nil
		}
		res.consumed = len(in) - d.rd.Len() - d.bufr.Buffered()
	}()
	res.pkt, res.err = r.ReadPacket()
	if c06IsNilPacket(res.pkt) {
		res.pkt = nil
	}
	return
}

func c06Pack(p packets.Packet) (b []byte, err error, panicked string) {
	var w bytes.Buffer
	defer func() {
		if x := recover(); x != nil {
			panicked = "panic: " + fmt.Sprint(x) + "\n" + string(debug.Stack())
		}
	}()
	err = p.Pack(&w)
	return w.Bytes(), err, ""
}

func c06V(v byte) string {
	switch v {
	case 3:
		return "v3.1"
	case 4:
		return "v3.1.1"
	case 5:
		return "v5"
	}
	return fmt.Sprintf("v%d", v)
}

func c06TypeName(t byte) string {
	if t >= 1 && int(t) < len(refmqtt.TypeNames) {
		return refmqtt.TypeNames[t]
	}
	return fmt.Sprintf("TYPE%d", t)
}

// c06PktTag: "<TYPE>-<version the packet was parsed under>".
func c06PktTag(p packets.Packet, readerVersion byte) string {
	switch x := p.(type) {
	case *packets.Connect:
		return "CONNECT-" + c06V(x.Version)
	case *packets.Connack:
		return "CONNACK-" + c06V(readerVersion)
	case *packets.Publish:
		return "PUBLISH-" + c06V(readerVersion)
	case *packets.Puback:
		return "PUBACK-" + c06V(readerVersion)
	case *packets.Pubrec:
		return "PUBREC-" + c06V(readerVersion)
	case *packets.Pubrel:
		return "PUBREL-" + c06V(readerVersion)
	case *packets.Pubcomp:
		return "PUBCOMP-" + c06V(readerVersion)
	case *packets.Subscribe:
		return "SUBSCRIBE-" + c06V(readerVersion)
	case *packets.Suback:
		return "SUBACK-" + c06V(readerVersion)
	case *packets.Unsubscribe:
		return "UNSUBSCRIBE-" + c06V(readerVersion)
	case *packets.Unsuback:
		return "UNSUBACK-" + c06V(readerVersion)
	case *packets.Pingreq:
		return "PINGREQ-" + c06V(readerVersion)
	case *packets.Pingresp:
		return "PINGRESP-" + c06V(readerVersion)
	case *packets.Disconnect:
		return "DISCONNECT-" + c06V(readerVersion)
	case *packets.Auth:
		return "AUTH-" + c06V(readerVersion)
	}
	return fmt.Sprintf("%T", p)
}

// c06Diff returns the path of the first difference between a and b ("" when equal,
// reflect.DeepEqual semantics: nil and empty slices differ).
func c06Diff(a, b reflect.Value, path string) string {
	if a.IsValid() != b.IsValid() {
		return path + "(nil-vs-set)"
	}
	if !a.IsValid() {
		return ""
	}
	if a.Type() != b.Type() {
		return path + "(type)"
	}
	switch a.Kind() {
	case reflect.Ptr, reflect.Interface:
		if a.IsNil() || b.IsNil() {
			if a.IsNil() != b.IsNil() {
				return path + "(nil-vs-set)"
			}
			return ""
		}
		return c06Diff(a.Elem(), b.Elem(), path)
	case reflect.Struct:
		for i := 0; i < a.NumField(); i++ {
			n := a.Type().Field(i).Name
			p := n
			if path != "" {
				p = path + "." + n
			}
			if d := c06Diff(a.Field(i), b.Field(i), p); d != "" {
				return d
			}
		}
		return ""
	case reflect.Slice:
		if a.IsNil() != b.IsNil() {
			return path + "(nil-vs-empty)"
		}
		if a.Len() != b.Len() {
			return path + "(length)"
		}
		for i := 0; i < a.Len(); i++ {
			if d := c06Diff(a.Index(i), b.Index(i), path+"[]"); d != "" {
				if a.Type().Elem().Kind() == reflect.Uint8 {
					return path
				}
				return d
			}
		}
		return ""
	case reflect.Bool:
		if a.Bool() != b.Bool() {
			return path
		}
	case reflect.Int, reflect.Int8, reflect.Int16, reflect.Int32, reflect.Int64:
		if a.Int() != b.Int() {
			return path
		}
	case reflect.Uint, reflect.Uint8, reflect.Uint16, reflect.Uint32, reflect.Uint64:
		if a.Uint() != b.Uint() {
			return path
		}
	case reflect.String:
		if a.String() != b.String() {
			return path
		}
	default:
		if !reflect.DeepEqual(a.Interface(), b.Interface()) {
			return path
		}
	}
	return ""
}

func c06Hex(b []byte) string {
	if len(b) > 96 {
		return hex.EncodeToString(b[:96]) + fmt.Sprintf("...(%d bytes)", len(b))
	}
	return hex.EncodeToString(b)
}

// ---------------------------------------------------------------- per-process state

type c06 struct {
	c      *explore.Ctx
	d1, d2 *c06Dec
	cnt    map[string]int64
	seen   map[string]bool // rule|class already reported by this process (with a case)
	verb   bool
}

func newC06(c *explore.Ctx) *c06 {
	return &c06{c: c, d1: newC06Dec(), d2: newC06Dec(), cnt: map[string]int64{}, seen: map[string]bool{}}
}

func (k *c06) count(name string, n int64) { k.cnt[name] += n }

func (k *c06) flush() {
	for n, v := range k.cnt {
		k.c.Count(n, v)
		delete(k.cnt, n)
	}
}

// violate: the case is only built for the first report of a (rule, class) per process.
func (k *c06) violate(rule, class string, cas func() any, expected, observed string) {
	key := rule + "|" + class
	if k.seen[key] {
		k.c.Violate(rule, class, nil, "", "")
		return
	}
	k.seen[key] = true
	k.c.Violate(rule, class, cas(), expected, observed)
}

func c06BytesCase(phase string, in []byte, version byte, extra map[string]any) func() any {
	return func() any {
		m := map[string]any{"kind": "bytes", "phase": phase, "reader_version": version, "input_hex": hex.EncodeToString(in), "input_len": len(in)}
		if len(in) > 4096 {
			m["input_hex"] = hex.EncodeToString(in[:64])
			m["input_note"] = fmt.Sprintf("first 64 of %d bytes; the rest repeats byte 0x%02x", len(in), in[len(in)-1])
		}
		for a, b := range extra {
			m[a] = b
		}
		return m
	}
}

// ---------------------------------------------------------------- reference verdict

var c06WillOnly = map[byte]bool{0x01: true, 0x02: true, 0x03: true, 0x08: true, 0x09: true, 0x18: true}

// c06Slug strips numbers / quoted parts from a reference error so that it can be a class.
func c06Slug(err error) string {
	s := err.Error()
	s = strings.TrimPrefix(s, "refmqtt: malformed packet: ")
	s = strings.TrimPrefix(s, "refmqtt: ")
	var sb strings.Builder
	skip := false
	for i := 0; i < len(s); i++ {
		ch := s[i]
		switch {
		case ch == '"':
			skip = !skip
		case skip:
		case ch >= '0' && ch <= '9':
			// "0x1f" -> drop the whole token, "utf8"/"v3"/"qos0" keep
			if i > 0 && (s[i-1] >= 'a' && s[i-1] <= 'z') && !(s[i-1] == 'x' && i > 1 && s[i-2] == '0') {
				sb.WriteByte(ch)
			}
		case ch == 'x' && i > 0 && s[i-1] == '0':
		case ch == ' ' || ch == '/' || ch == '(' || ch == ')':
			sb.WriteByte('-')
		default:
			sb.WriteByte(ch)
		}
	}
	out := sb.String()
	for strings.Contains(out, "--") {
		out = strings.ReplaceAll(out, "--", "-")
	}
	return strings.Trim(out, "-")
}

func c06ValidShared(f string) bool {
	const pfx = "$share/"
	if !strings.HasPrefix(f, pfx) {
		return refmqtt.ValidTopicFilter(f)
	}
	rest := f[len(pfx):]
	i := strings.IndexByte(rest, '/')
	if i <= 0 {
		return false
	}
	g := rest[:i]
	if !refmqtt.ValidUTF8([]byte(g)) || strings.ContainsAny(g, "+#") {
		return false
	}
	return refmqtt.ValidTopicFilter(rest[i+1:])
}

type c06Verdict struct {
	ok     bool
	reason string // slug when !ok
	propID byte   // for duplicate / not-allowed reasons
	ptype  int    // packet type named by a not-allowed reason (0 = will properties)
	p      *refmqtt.Packet
	n      int
}

// c06Ref: the reference's opinion about the first packet of in (refmqtt.Decode plus the
// topic rules that refmqtt.Decode leaves to its callers).
func c06Ref(in []byte, version byte) c06Verdict {
	p, n, err := refmqtt.Decode(in, version)
	v := c06Verdict{p: p, n: n}
	if err != nil {
		v.reason = c06Slug(err)
		msg := err.Error()
		if i := strings.Index(msg, "duplicate property 0x"); i >= 0 {
			fmt.Sscanf(msg[i:], "duplicate property 0x%02x", &v.propID)
			v.reason = "duplicate-property"
		} else if i := strings.Index(msg, "property 0x"); i >= 0 && strings.Contains(msg, "not allowed") {
			fmt.Sscanf(msg[i:], "property 0x%02x not allowed in packet type %d", &v.propID, &v.ptype)
			v.reason = "property-not-allowed"
		} else if strings.Contains(msg, "reserved flags") {
			v.reason = "reserved-flags"
		} else if strings.Contains(msg, "invalid utf8 string") {
			v.reason = "invalid-utf8-string"
		}
		return v
	}
	switch p.Type {
	case refmqtt.PUBLISH:
		if strings.ContainsAny(p.Topic, "+#") {
			v.reason = "publish-topic-wildcard"
			return v
		}
	case refmqtt.SUBSCRIBE:
		for _, s := range p.Subs {
			if (version == 5 && !c06ValidShared(s.Filter)) || (version != 5 && !refmqtt.ValidTopicFilter(s.Filter)) {
				v.reason = "invalid-topic-filter"
				return v
			}
		}
	case refmqtt.UNSUBSCRIBE:
		for _, f := range p.Filters {
			if !refmqtt.ValidTopicFilter(f) {
				v.reason = "invalid-topic-filter"
				return v
			}
		}
	}
	v.ok = true
	return v
}

// ---------------------------------------------------------------- the byte-level oracles

// checkBytes decodes in under version and applies: no panic, bounded read, no packet from
// incomplete input, TotalBytes, re-encode round trip and (compareRef) the accept/reject
// comparison with the reference.  Returns the decode result.
func (k *c06) checkBytes(phase string, in []byte, version byte, extra map[string]any, compareRef bool) c06Res {
	res := k.d1.decode(in, version)
	k.count("evaluations", 1)
	cas := c06BytesCase(phase, in, version, extra)
	if k.verb {
		fmt.Printf("  decode(%s, %s) -> pkt=%v err=%v consumed=%d\n", c06Hex(in), c06V(version), res.pkt, res.err, res.consumed)
	}
	if res.panicked != "" {
		k.violate("no-panic", panicClass(res.panicked), cas, "packet or error", firstLines(res.panicked, 14))
		return res
	}
	if res.pkt == nil && res.err == nil {
		k.violate("packet-or-error", "nil-packet-and-nil-error", cas, "packet or error", "nil, nil")
		return res
	}
	total, hdr, ferr := refmqtt.Frame(in)
	switch {
	case ferr != nil && ferr != refmqtt.ErrIncomplete: // length field longer than 4 bytes
		if res.pkt != nil {
			k.violate("remaining-length-at-most-4-bytes", "more-than-4-length-bytes-accepted", cas, "error (Variable Byte Integer is at most 4 bytes)", fmt.Sprintf("accepted %s after consuming %d bytes", res.pkt, res.consumed))
		} else if res.consumed > 5 {
			k.violate("remaining-length-at-most-4-bytes", "length-bytes-consumed-past-the-4th", cas, "error after at most 5 bytes", fmt.Sprintf("consumed %d bytes, err=%v", res.consumed, res.err))
		}
		return res
	case ferr == refmqtt.ErrIncomplete && hdr == 0:
		if res.pkt != nil {
			k.violate("no-packet-from-incomplete-input", "eof-inside-fixed-header-read-as-length-zero", cas, "error (input ends inside the fixed header)", fmt.Sprintf("accepted %s", res.pkt))
		}
		return res
	case ferr == refmqtt.ErrIncomplete:
		if res.pkt != nil {
			k.violate("no-packet-from-incomplete-input", "body-shorter-than-declared:"+c06TypeName(in[0]>>4), cas, fmt.Sprintf("error (declared %d bytes, %d supplied)", total, len(in)), fmt.Sprintf("accepted %s", res.pkt))
			return res
		}
	default:
		if res.consumed > total {
			k.violate("bounded-read", "read-past-declared-length:"+c06TypeName(in[0]>>4), cas, fmt.Sprintf("at most %d bytes consumed", total), fmt.Sprintf("%d consumed", res.consumed))
			return res
		}
		if res.pkt != nil && res.consumed != total {
			k.violate("bounded-read", "packet-returned-before-declared-end:"+c06TypeName(in[0]>>4), cas, fmt.Sprintf("%d bytes consumed", total), fmt.Sprintf("%d consumed", res.consumed))
			return res
		}
	}
	if res.pkt == nil {
		if compareRef {
			if v := c06Ref(in, version); v.ok {
				k.count("d_rej:"+c06TypeName(in[0]>>4), 1)
				k.count("disagree_gmqtt_rejects_ref_accepts", 1)
			}
		}
		return res
	}
	k.count("accepted", 1)
	tag := c06PktTag(res.pkt, version)
	if tb := int(packets.TotalBytes(res.pkt)); tb != res.consumed {
		k.violate("total-bytes", tag+":after-decode", cas, fmt.Sprint(res.consumed), fmt.Sprint(tb))
	}
	desc := ""
	if compareRef || k.verb {
		desc = res.pkt.String()
	}
	// reference verdict first: Pack below rewrites the FixHeader of res.pkt
	var ver c06Verdict
	if compareRef || version != 3 {
		ver = c06Ref(in, version)
	} else {
		ver.ok = true
	}
	k.selfRoundTrip(phase, in, version, res.pkt, tag, cas)
	if !ver.ok {
		k.count("disagree_gmqtt_accepts_ref_rejects", 1)
		k.count("d_acc:"+ver.reason, 1)
		tn := c06TypeName(in[0] >> 4)
		if version == 4 || version == 5 || in[0]>>4 == refmqtt.CONNECT {
			exp := "error: " + ver.reason
			obs := "accepted " + desc
			switch ver.reason {
			case "invalid-utf8-string":
				k.violate("rejects-forbidden", "invalid-utf8-accepted:"+tn, cas, exp, obs)
			case "duplicate-property":
				k.violate("rejects-forbidden", fmt.Sprintf("duplicate-property-accepted:%s:0x%02x", tn, ver.propID), cas, exp, obs)
			case "property-not-allowed":
				switch {
				case ver.ptype == refmqtt.CONNECT && c06WillOnly[ver.propID]:
					k.violate("rejects-forbidden", "will-property-accepted-in-connect-properties", cas, exp, obs)
				case ver.ptype == 0:
					k.violate("rejects-forbidden", fmt.Sprintf("property-not-allowed-accepted:CONNECT-will:0x%02x", ver.propID), cas, exp, obs)
				default:
					k.violate("rejects-forbidden", fmt.Sprintf("property-not-allowed-accepted:%s:0x%02x", tn, ver.propID), cas, exp, obs)
				}
			case "reserved-flags":
				k.violate("rejects-forbidden", "reserved-flags-accepted:"+tn, cas, exp, obs)
			case "publish-topic-wildcard":
				k.violate("rejects-forbidden", "publish-topic-wildcard-accepted", cas, exp, obs)
			}
		}
	}
	return res
}

// selfRoundTrip: Pack(p) must decode (same reader version) to a DeepEqual packet and
// TotalBytes(p) must equal the packed length.
func (k *c06) selfRoundTrip(phase string, in []byte, version byte, p packets.Packet, tag string, cas func() any) {
	b, err, pan := c06Pack(p)
	if pan != "" {
		k.violate("no-panic", panicClass(pan), cas, "Pack returns", firstLines(pan, 14))
		return
	}
	if err != nil {
		k.violate("reencode-roundtrip", tag+":pack-error", cas, "accepted packet packs", err.Error())
		return
	}
	b = append([]byte{}, b...)
	if tb := int(packets.TotalBytes(p)); tb != len(b) {
		k.violate("total-bytes", tag+":after-pack", cas, fmt.Sprint(len(b)), fmt.Sprint(tb))
	}
	r2 := k.d2.decode(b, version)
	if k.verb {
		fmt.Printf("  Pack -> %s ; redecode -> pkt=%v err=%v consumed=%d\n", c06Hex(b), r2.pkt, r2.err, r2.consumed)
	}
	if r2.panicked != "" {
		k.violate("no-panic", panicClass(r2.panicked), cas, "packet or error", firstLines(r2.panicked, 14))
		return
	}
	if r2.pkt == nil {
		k.violate("reencode-roundtrip", tag+":redecode-error", cas, "Pack output "+c06Hex(b)+" decodes", fmt.Sprint(r2.err))
		return
	}
	if r2.consumed != len(b) {
		k.violate("reencode-roundtrip", tag+":redecode-consumed", cas, fmt.Sprint(len(b)), fmt.Sprint(r2.consumed))
		return
	}
	if d := c06Diff(reflect.ValueOf(p), reflect.ValueOf(r2.pkt), ""); d != "" {
		k.violate("reencode-roundtrip", tag+":"+d, cas, p.String(), r2.pkt.String()+" (from "+c06Hex(b)+")")
	}
}
