package checks

import (
	"fmt"
	"time"

	"github.com/DrmagicE/gmqtt/server"
	"github.com/DrmagicE/gmqtt/zzverif/vsched"

	"verif/explore"
	"verif/harness"
	"verif/refmqtt"
)

// c20Sweeper: two sessions have expired and the sweeper's tick is due while the owner of
// the second reconnects.  Whichever wins, the connection / session counters and gauges
// equal what happened: the first session expired; the second either was resumed (Session
// Present 1) or expired and a new one was created (Session Present 0); one client is
// online, nobody is offline, and no gauge has wrapped below zero.
type c20SweepObs struct {
	problems [][3]string
	outcome  string
}

func c20SweeperBody(obs *c20SweepObs, clockFirst bool) func() {
	return func() {
		*obs = c20SweepObs{}
		bad := func(rule, class, detail string) { obs.problems = append(obs.problems, [3]string{rule, class, detail}) }
		w := harness.NewWorld(harness.DefaultConfig(), server.Hooks{})
		if w.InitErr != nil {
			bad("init", "failed", w.InitErr.Error())
			return
		}
		for _, id := range []string{"x1", "x2"} {
			x := w.Dial("X-" + id)
			x.Connect(harness.ConnectOpts{ClientID: id, Clean: true, Version: refmqtt.V5, Props: &refmqtt.Props{SessionExpiry: harness.U32(10)}})
			x.Close()
			vsched.Settle()
		}
		vsched.Advance(19 * time.Second)
		y := w.Dial("Y")
		y.Version = refmqtt.V5
		reconnect := func() {
			y.Send(harness.ConnectPacket(harness.ConnectOpts{ClientID: "x2", Clean: false, Version: refmqtt.V5, Props: &refmqtt.Props{SessionExpiry: harness.U32(10)}}))
		}
		if clockFirst {
			vsched.Go("clock", func() { vsched.FireNext(-1) })
			vsched.Go("reconnect", reconnect)
		} else {
			vsched.Go("reconnect", reconnect)
			vsched.Go("clock", func() { vsched.FireNext(-1) })
		}
		vsched.Settle()
		y.Pump()
		var ack *refmqtt.Packet
		for _, r := range y.Inbox {
			if r.P != nil && r.P.Type == refmqtt.CONNACK {
				ack = r.P
			}
		}
		if ack == nil || ack.Code != 0 || y.ClosedByBroker() {
			bad("connect", "reconnect-not-acknowledged", fmt.Sprint(ack))
			return
		}
		g := w.Srv.StatsManager().GetGlobalStats().ConnectionStats
		want := map[string]uint64{"ActiveCurrent": 1, "InactiveCurrent": 0, "ConnectedTotal": 3, "DisconnectedTotal": 2, "SessionCreatedTotal": 2, "SessionTerminated(all reasons)": 1}
		if !ack.SessionPresent {
			want["SessionCreatedTotal"], want["SessionTerminated(all reasons)"] = 3, 2
		}
		got := map[string]uint64{"ActiveCurrent": g.ActiveCurrent, "InactiveCurrent": g.InactiveCurrent, "ConnectedTotal": g.ConnectedTotal, "DisconnectedTotal": g.DisconnectedTotal,
			"SessionCreatedTotal": g.SessionCreatedTotal, "SessionTerminated(all reasons)": g.SessionTerminated.Expired + g.SessionTerminated.TakenOver + g.SessionTerminated.Normal}
		for k, v := range want {
			if got[k] != v {
				cl := "global.ConnectionStats." + k
				switch {
				case got[k] > 1<<62:
					cl += ":wrapped-below-zero"
				case got[k] > v:
					cl += ":too-high"
				default:
					cl += ":too-low"
				}
				bad("counter", cl+"-after-sweeper-vs-reconnect", fmt.Sprintf("%s = %d, want %d (session present %v)", k, got[k], v, ack.SessionPresent))
			}
		}
		// (an expired session that the reconnect finds before the sweeper is booked as taken over,
		// not as expired: the statement says nothing about the reasons, only the sum is compared)
		obs.outcome = fmt.Sprint(ack.SessionPresent)
	}
}

func c20Sweeper(c *explore.Ctx) {
	bound := 1
	if !c.Quick() {
		bound = 2
	}
	for i, name := range []string{"sweeper-vs-reconnect-of-an-expired-session", "reconnect-vs-sweeper-of-an-expired-session"} {
		obs := &c20SweepObs{}
		schedScenario(c, name, bound, func() [][3]string { return obs.problems }, func() string { return obs.outcome }, c20SweeperBody(obs, i == 0), map[string]any{"clock_first": i == 0})
	}
}
