package checks

import (
	"fmt"
	"sort"
	"strings"

	"github.com/DrmagicE/gmqtt"
	"github.com/DrmagicE/gmqtt/persistence/subscription"
	submem "github.com/DrmagicE/gmqtt/persistence/subscription/mem"
	"github.com/DrmagicE/gmqtt/pkg/packets"

	"verif/explore"
	"verif/refmqtt"
	"verif/statekey"
)

func init() { register("C02", runC02) }

// ---- reference model of a subscription table

type refSub struct {
	Client string
	Full   string // full filter incl. $share/<group>/
	Sub    gmqtt.Subscription
}

type refTable struct {
	m map[string]refSub // key client|full
}

func newRefTable() *refTable { return &refTable{m: map[string]refSub{}} }

func (t *refTable) key(c, full string) string { return c + "|" + full }

func mkSub(full string, opt int) *gmqtt.Subscription {
	g, f, _ := refmqtt.SplitShared(full)
	s := &gmqtt.Subscription{ShareName: g, TopicFilter: f}
	switch opt {
	case 0:
		s.QoS = 0
	case 1:
		s.QoS, s.NoLocal, s.RetainAsPublished, s.RetainHandling, s.ID = 1, true, true, 1, 7
	case 2:
		s.QoS, s.ID = 2, 3
	}
	return s
}

func subStr(c string, s *gmqtt.Subscription) string {
	if s == nil {
		return c + ":<nil>"
	}
	return fmt.Sprintf("%s:%s q%d nl%v rap%v rh%d id%d", c, s.GetFullTopicName(), s.QoS, s.NoLocal, s.RetainAsPublished, s.RetainHandling, s.ID)
}

func filterClass(full string) subscription.IterationType {
	if strings.HasPrefix(full, "$share/") {
		return subscription.TypeShared
	}
	if strings.HasPrefix(full, "$") {
		return subscription.TypeSYS
	}
	return subscription.TypeNonShared
}

// expectMatch: stored subscriptions of the classes in mask whose filter matches topic.
func (t *refTable) expectMatch(topic string, mask subscription.IterationType) []string {
	var out []string
	for _, r := range t.m {
		cl := filterClass(r.Full)
		if cl&mask == 0 {
			continue
		}
		s := r.Sub
		if refmqtt.Match(topic, r.Sub.TopicFilter) {
			out = append(out, subStr(r.Client, &s))
		}
	}
	sort.Strings(out)
	return out
}

func (t *refTable) expectName(full string, mask subscription.IterationType) []string {
	var out []string
	for _, r := range t.m {
		if r.Full == full && filterClass(r.Full)&mask != 0 {
			s := r.Sub
			out = append(out, subStr(r.Client, &s))
		}
	}
	sort.Strings(out)
	return out
}

func (t *refTable) expectClient(c string, mask subscription.IterationType) []string {
	var out []string
	for _, r := range t.m {
		if r.Client == c && filterClass(r.Full)&mask != 0 {
			s := r.Sub
			out = append(out, subStr(r.Client, &s))
		}
	}
	sort.Strings(out)
	return out
}

func (t *refTable) count(c string) int {
	n := 0
	for _, r := range t.m {
		if c == "" || r.Client == c {
			n++
		}
	}
	return n
}

func collect(st subscription.Store, o subscription.IterationOptions) []string {
	var out []string
	st.Iterate(func(c string, s *gmqtt.Subscription) bool {
		out = append(out, subStr(c, s))
		return true
	}, o)
	sort.Strings(out)
	return out
}

// ---- alphabet

type subOp struct {
	kind   int // 0 subscribe, 1 unsubscribe, 2 unsubscribeAll, 3 unsubscribe of several filters in one call, 4 subscribe of several filters in one call
	client string
	full   string
	opt    int
	fulls  []string
}

func (o subOp) String() string {
	switch o.kind {
	case 0:
		return fmt.Sprintf("Subscribe(%s,%s,opt%d)", o.client, o.full, o.opt)
	case 1:
		return fmt.Sprintf("Unsubscribe(%s,%s)", o.client, o.full)
	case 3:
		return fmt.Sprintf("Unsubscribe(%s,%s)", o.client, strings.Join(o.fulls, ","))
	case 4:
		return fmt.Sprintf("Subscribe(%s,[%s],opt%d)", o.client, strings.Join(o.fulls, ","), o.opt)
	}
	return fmt.Sprintf("UnsubscribeAll(%s)", o.client)
}

func subAlphabet(clients, filters []string, opts []int) []subOp {
	var ops []subOp
	for _, c := range clients {
		for _, f := range filters {
			for _, o := range opts {
				ops = append(ops, subOp{kind: 0, client: c, full: f, opt: o})
			}
		}
	}
	for _, c := range clients {
		for _, f := range filters {
			ops = append(ops, subOp{kind: 1, client: c, full: f})
		}
	}
	for _, c := range clients {
		ops = append(ops, subOp{kind: 2, client: c})
	}
	// one Unsubscribe call naming two filters, in both orders (pair and shared alphabets)
	if len(filters) == 2 || strings.HasPrefix(filters[len(filters)-1], "$share/") {
		for _, c := range clients {
			for i, f := range filters {
				for j, g := range filters {
					if i != j {
						ops = append(ops, subOp{kind: 3, client: c, fulls: []string{f, g}})
						// one Subscribe call carrying two subscriptions, in both orders
						ops = append(ops, subOp{kind: 4, client: c, fulls: []string{f, g}, opt: opts[0]})
					}
				}
			}
		}
	}
	return ops
}

func opsString(ops []subOp, path []int) []string {
	out := make([]string, len(path))
	for i, p := range path {
		out[i] = ops[p].String()
	}
	return out
}

func levelCombos(nonLast, last []string, n int) []string {
	var out []string
	var rec func(prefix []string)
	rec = func(prefix []string) {
		if len(prefix) == n-1 {
			for _, l := range last {
				out = append(out, strings.Join(append(append([]string{}, prefix...), l), "/"))
			}
			return
		}
		for _, l := range nonLast {
			rec(append(append([]string{}, prefix...), l))
		}
	}
	rec(nil)
	return out
}

func c02Universe(big bool) (filters, topics []string) {
	nl := []string{"a", "b", "", "+"}
	la := []string{"a", "b", "", "+", "#"}
	filters = append(filters, levelCombos(nl, la, 1)...)
	filters = append(filters, levelCombos(nl, la, 2)...)
	if big {
		filters = append(filters, levelCombos([]string{"a", "", "+"}, []string{"a", "", "+", "#"}, 3)...)
	} else {
		filters = append(filters, "a/b/#", "a/+/a", "a/a/a", "+/+/#", "a//a", "a/a/", "+/a/#", "a/+/", "//")
	}
	filters = append(filters, "$SYS", "$SYS/a", "$SYS/+", "$SYS/#", "$SYS/a/#")
	// drop the empty filter (invalid)
	var fs []string
	for _, f := range filters {
		if refmqtt.ValidTopicFilter(f) {
			fs = append(fs, f)
		}
	}
	tl := []string{"a", "b", ""}
	for n := 1; n <= 3; n++ {
		for _, t := range levelCombos(tl, tl, n) {
			if refmqtt.ValidTopicName(t) {
				topics = append(topics, t)
			}
		}
	}
	topics = append(topics, "$SYS", "$SYS/a", "$SYS/a/b", "$SYS/b", "$SYS/")
	// '$' only matters at the start of the topic NAME: inner levels that begin with '$' are ordinary levels
	topics = append(topics, "a/$b", "a/$SYS", "a/b/$c", "/$a", "$SYS/$a", "a/$")
	return fs, topics
}

var allMasks = []subscription.IterationType{subscription.TypeAll, subscription.TypeNonShared | subscription.TypeSYS, subscription.TypeNonShared, subscription.TypeSYS}

// checkSubStore evaluates the whole query battery of st against ref and reports
// mismatches.  newStore tells which store flavour is under test (for the case text).
func checkSubStore(c *explore.Ctx, st subscription.Store, ref *refTable, clients, filters, topics []string, hist func() any, flavour string, shared bool) {
	dropShared := dropSharedFn
	keep := subscription.TypeNonShared | subscription.TypeSYS
	masks := allMasks
	if shared {
		dropShared = func(in []string) []string { return in }
		keep = subscription.TypeAll
		masks = append(append([]subscription.IterationType{}, allMasks...), subscription.TypeShared, subscription.TypeShared|subscription.TypeNonShared)
	}
	for _, topic := range topics {
		for _, mask := range masks {
			got := collect(st, subscription.IterationOptions{Type: mask, TopicName: topic, MatchType: subscription.MatchFilter})
			// shared subscriptions are C11's business: drop them from TypeAll results
			got = dropShared(got)
			want := ref.expectMatch(topic, mask&keep)
			if !eqStrings(got, want) {
				c.Violate("match-filter", classifyDiff(got, want), map[string]any{"store": flavour, "history": hist(), "topic": topic, "mask": mask}, strings.Join(want, "; "), strings.Join(got, "; "))
			}
		}
		// per-client variant
		for _, cl := range clients {
			got := dropShared(collect(st, subscription.IterationOptions{Type: subscription.TypeAll, TopicName: topic, MatchType: subscription.MatchFilter, ClientID: cl}))
			var want []string
			for _, w := range ref.expectMatch(topic, keep) {
				if strings.HasPrefix(w, cl+":") {
					want = append(want, w)
				}
			}
			if !eqStrings(got, want) {
				c.Violate("match-filter-client", classifyDiff(got, want), map[string]any{"store": flavour, "history": hist(), "topic": topic, "client": cl}, strings.Join(want, "; "), strings.Join(got, "; "))
			}
		}
		got := subscription.GetTopicMatched(st, topic, keep)
		var gl []string
		for cl, subs := range got {
			for _, s := range subs {
				gl = append(gl, subStr(cl, s))
			}
		}
		sort.Strings(gl)
		if want := ref.expectMatch(topic, keep); !eqStrings(gl, want) {
			c.Violate("get-topic-matched", classifyDiff(gl, want), map[string]any{"store": flavour, "history": hist(), "topic": topic}, strings.Join(want, "; "), strings.Join(gl, "; "))
		}
	}
	for _, f := range filters {
		if strings.HasPrefix(f, "$share/") && !shared {
			continue
		}
		for _, mask := range []subscription.IterationType{subscription.TypeAll, subscription.TypeNonShared | subscription.TypeSYS} {
			got := dropShared(collect(st, subscription.IterationOptions{Type: mask, TopicName: f, MatchType: subscription.MatchName}))
			want := ref.expectName(f, mask&keep)
			if !eqStrings(got, want) {
				c.Violate("match-name", classifyDiff(got, want), map[string]any{"store": flavour, "history": hist(), "filter": f, "mask": mask}, strings.Join(want, "; "), strings.Join(got, "; "))
			}
		}
		for _, cl := range clients {
			got := dropShared(collect(st, subscription.IterationOptions{Type: subscription.TypeAll, TopicName: f, MatchType: subscription.MatchName, ClientID: cl}))
			var want []string
			for _, w := range ref.expectName(f, keep) {
				if strings.HasPrefix(w, cl+":") {
					want = append(want, w)
				}
			}
			if !eqStrings(got, want) {
				c.Violate("match-name-client", classifyDiff(got, want), map[string]any{"store": flavour, "history": hist(), "filter": f, "client": cl}, strings.Join(want, "; "), strings.Join(got, "; "))
			}
		}
	}
	for _, cl := range clients {
		got := dropShared(collect(st, subscription.IterationOptions{Type: subscription.TypeAll, ClientID: cl}))
		want := ref.expectClient(cl, keep)
		if !eqStrings(got, want) {
			c.Violate("by-client", classifyDiff(got, want), map[string]any{"store": flavour, "history": hist(), "client": cl}, strings.Join(want, "; "), strings.Join(got, "; "))
		}
		if cs, err := st.GetClientStats(cl); err == nil {
			if int(cs.SubscriptionsCurrent) != ref.count(cl) {
				c.Violate("client-count", countClass(int64(cs.SubscriptionsCurrent), int64(ref.count(cl))), map[string]any{"store": flavour, "history": hist(), "client": cl}, fmt.Sprint(ref.count(cl)), fmt.Sprint(cs.SubscriptionsCurrent))
			}
		} else if ref.count(cl) > 0 {
			c.Violate("client-count", "error-for-subscribed-client", map[string]any{"store": flavour, "history": hist(), "client": cl}, fmt.Sprint(ref.count(cl)), err.Error())
		}
	}
	// full traversal
	got := dropShared(collect(st, subscription.IterationOptions{Type: subscription.TypeAll}))
	var want []string
	for _, r := range ref.m {
		if filterClass(r.Full)&keep != 0 {
			s := r.Sub
			want = append(want, subStr(r.Client, &s))
		}
	}
	sort.Strings(want)
	if !eqStrings(got, want) {
		c.Violate("iterate-all", classifyDiff(got, want), map[string]any{"store": flavour, "history": hist()}, strings.Join(want, "; "), strings.Join(got, "; "))
	}
	if g := st.GetStats(); int(g.SubscriptionsCurrent) != ref.count("") {
		c.Violate("global-count", countClass(int64(g.SubscriptionsCurrent), int64(ref.count(""))), map[string]any{"store": flavour, "history": hist()}, fmt.Sprint(ref.count("")), fmt.Sprint(g.SubscriptionsCurrent))
	}
}

func countClass(got, want int64) string {
	switch {
	case got > 1<<62:
		return "wrapped-below-zero"
	case got > want:
		return "too-high"
	default:
		return "too-low"
	}
}

func dropSharedFn(in []string) []string {
	var out []string
	for _, s := range in {
		if i := strings.Index(s, ":"); i >= 0 && strings.HasPrefix(s[i+1:], "$share/") {
			continue
		}
		out = append(out, s)
	}
	return out
}

func eqStrings(a, b []string) bool {
	if len(a) != len(b) {
		return false
	}
	for i := range a {
		if a[i] != b[i] {
			return false
		}
	}
	return true
}

// classifyDiff names the shape of a set mismatch.
func classifyDiff(got, want []string) string {
	gs, ws := map[string]int{}, map[string]int{}
	for _, g := range got {
		gs[g]++
	}
	for _, w := range want {
		ws[w]++
	}
	missing, extra, dup := 0, 0, 0
	for w := range ws {
		if gs[w] == 0 {
			missing++
		}
	}
	for g, n := range gs {
		if ws[g] == 0 {
			extra++
		} else if n > ws[g] {
			dup++
		}
	}
	switch {
	case missing > 0 && extra > 0:
		// same (client, filter) but different options?
		return "wrong-entries"
	case missing > 0:
		return "missing"
	case extra > 0:
		return "extra"
	case dup > 0:
		return "duplicate"
	}
	return "order"
}

// applySubOp applies op to both implementation and reference; it checks the
// per-transition oracles (AlreadyExisted, Total delta).
func applySubOp(c *explore.Ctx, st subscription.Store, ref *refTable, op subOp, check bool, hist func() any, flavour string) {
	before := st.GetStats()
	switch op.kind {
	case 0:
		s := mkSub(op.full, op.opt)
		_, existed := ref.m[ref.key(op.client, op.full)]
		rs, err := st.Subscribe(op.client, s)
		ref.m[ref.key(op.client, op.full)] = refSub{Client: op.client, Full: op.full, Sub: *mkSub(op.full, op.opt)}
		if !check {
			return
		}
		if err != nil || len(rs) != 1 {
			c.Violate("subscribe-result", "error", map[string]any{"store": flavour, "history": hist()}, "1 result, nil error", fmt.Sprint(len(rs), err))
			return
		}
		if rs[0].AlreadyExisted != existed {
			cl := "existing-reported-new"
			if !existed {
				cl = "new-reported-existing"
			}
			if filterClass(op.full) == subscription.TypeShared {
				cl += "-shared"
			}
			c.Violate("already-existed", cl, map[string]any{"store": flavour, "history": hist()}, fmt.Sprint(existed), fmt.Sprint(rs[0].AlreadyExisted))
		}
		after := st.GetStats()
		wantDelta := uint64(1)
		if existed {
			wantDelta = 0
		}
		if after.SubscriptionsTotal-before.SubscriptionsTotal != wantDelta {
			c.Violate("total-delta", fmt.Sprintf("delta-%d-want-%d", after.SubscriptionsTotal-before.SubscriptionsTotal, wantDelta), map[string]any{"store": flavour, "history": hist()}, fmt.Sprint(wantDelta), fmt.Sprint(after.SubscriptionsTotal-before.SubscriptionsTotal))
		}
	case 4:
		var subs []*gmqtt.Subscription
		var existed []bool
		for _, f := range op.fulls {
			subs = append(subs, mkSub(f, op.opt))
			_, ex := ref.m[ref.key(op.client, f)]
			existed = append(existed, ex)
		}
		rs, err := st.Subscribe(op.client, subs...)
		news := uint64(0)
		for i, f := range op.fulls {
			ref.m[ref.key(op.client, f)] = refSub{Client: op.client, Full: f, Sub: *mkSub(f, op.opt)}
			if !existed[i] {
				news++
			}
		}
		if !check {
			return
		}
		if err != nil || len(rs) != len(subs) {
			c.Violate("subscribe-result", "error-multi", map[string]any{"store": flavour, "history": hist()}, fmt.Sprint(len(subs), " results, nil error"), fmt.Sprint(len(rs), err))
			return
		}
		for i := range rs {
			if rs[i].AlreadyExisted != existed[i] {
				c.Violate("already-existed", "multi-subscribe-wrong-flag", map[string]any{"store": flavour, "history": hist()}, fmt.Sprint(existed), fmt.Sprint(rs[0].AlreadyExisted, rs[1].AlreadyExisted))
				break
			}
		}
		if after := st.GetStats(); after.SubscriptionsTotal-before.SubscriptionsTotal != news {
			c.Violate("total-delta", "multi-subscribe-delta", map[string]any{"store": flavour, "history": hist()}, fmt.Sprint(news), fmt.Sprint(after.SubscriptionsTotal-before.SubscriptionsTotal))
		}
		return
	case 1:
		err := st.Unsubscribe(op.client, op.full)
		delete(ref.m, ref.key(op.client, op.full))
		if check && err != nil {
			c.Violate("unsubscribe-result", "error", map[string]any{"store": flavour, "history": hist()}, "nil", err.Error())
		}
	case 3:
		err := st.Unsubscribe(op.client, op.fulls...)
		for _, f := range op.fulls {
			delete(ref.m, ref.key(op.client, f))
		}
		if check && err != nil {
			c.Violate("unsubscribe-result", "error", map[string]any{"store": flavour, "history": hist()}, "nil", err.Error())
		}
	case 2:
		err := st.UnsubscribeAll(op.client)
		for k, r := range ref.m {
			if r.Client == op.client {
				delete(ref.m, k)
			}
		}
		if check && err != nil {
			c.Violate("unsubscribe-all-result", "error", map[string]any{"store": flavour, "history": hist()}, "nil", err.Error())
		}
	}
	if check && op.kind != 0 {
		if after := st.GetStats(); after.SubscriptionsTotal != before.SubscriptionsTotal {
			c.Violate("total-delta", "changed-by-unsubscribe", map[string]any{"store": flavour, "history": hist()}, "0", fmt.Sprint(after.SubscriptionsTotal-before.SubscriptionsTotal))
		}
	}
}

// subBFS explores one alphabet to closure on mem.NewStore().
func subBFS(c *explore.Ctx, clients, filters []string, opts []int, topics []string, battery func(st subscription.Store, ref *refTable, hist func() any)) explore.BFSResult {
	ops := subAlphabet(clients, filters, opts)
	seenState := map[string]bool{}
	return explore.BFS(c, explore.BFSConfig{
		Name:   "submem",
		NumOps: len(ops),
		Replay: func(path []int) (string, bool) {
			st := submem.NewStore()
			ref := newRefTable()
			hist := func() any { return opsString(ops, path) }
			for i, p := range path {
				applySubOp(c, st, ref, ops[p], i == len(path)-1, hist, "mem")
			}
			key := statekey.Dump(st, "Stats.SubscriptionsTotal")
			// the battery runs for every new (implementation state, reference table) pair: an
			// operation that wrongly leaves the store unchanged reaches a known store state
			// with a different reference
			var rk []string
			for k, r := range ref.m {
				rk = append(rk, k+"="+subStr(r.Client, &r.Sub))
			}
			sort.Strings(rk)
			bk := key + "|" + strings.Join(rk, ";")
			if !seenState[bk] {
				seenState[bk] = true
				battery(st, ref, hist)
			}
			return key, true
		},
	})
}

func runC02(c *explore.Ctx) {
	c.Level = "model_checking"
	c.Rule = "E1: explicit-state BFS to closure over Subscribe and Unsubscribe (one filter, and two filters in one call in both orders) / UnsubscribeAll alphabets on the real mem subscription store (states = canonical dumps of the store's private state; every new state gets the full query battery vs an independent MQTT 4.7 matcher). One BFS per alphabet: all pairs (and, thorough, all triples) of filters from the universe x 2 clients. E5: TopicMatch on every (valid topic, valid filter) pair of bounded strings."
	c.Trusted = []string{"refmqtt.Match / ValidTopicFilter / ValidTopicName (independent reference written from MQTT 4.7)", "statekey.Dump (reflection dump of private state)"}
	c.Assumptions = []string{"shared subscriptions in lookups are decided by C11; C02 only requires that they do not disturb non-shared answers and counts"}
	filters, topics := c02Universe(!c.Quick())
	clients := []string{"c1", "c2"}
	c.Extra["universe_filters"] = len(filters)
	c.Extra["battery_topics"] = len(topics)

	// pairs of filters, 2 option variants
	type alpha struct {
		fs   []string
		opts []int
	}
	var alphas []alpha
	for i := 0; i < len(filters); i++ {
		for j := i + 1; j < len(filters); j++ {
			alphas = append(alphas, alpha{[]string{filters[i], filters[j]}, []int{0, 1}})
		}
	}
	// triples, single option variant
	tf := filters
	if c.Quick() {
		tf = nil
		for _, f := range []string{"a", "a/b", "a/", "a/a", "a/#", "a/+", "+", "#", "+/a", "+/+", "+/", "a//a", "/", "a/a/", "a/b/#", "+/+/#", "$SYS/a", "$SYS/#"} {
			tf = append(tf, f)
		}
	}
	for i := 0; i < len(tf); i++ {
		for j := i + 1; j < len(tf); j++ {
			for k := j + 1; k < len(tf); k++ {
				alphas = append(alphas, alpha{[]string{tf[i], tf[j], tf[k]}, []int{2}})
			}
		}
	}
	// shared filters next to non-shared ones: counts and non-shared lookups must stay right
	for _, f := range []string{"a", "a/#", "+"} {
		alphas = append(alphas, alpha{[]string{f, "$share/g/a", "$share/h/a"}, []int{0}})
		alphas = append(alphas, alpha{[]string{f, "$share/g/a", "$share/g/+"}, []int{0}})
	}
	// E5: TopicMatch
	maxLen := 5
	if !c.Quick() {
		maxLen = 6
	}
	var tnames, tfilters []string
	var gen func(s string)
	alpha5 := "a/+#$"
	gen = func(s string) {
		if len(s) > 0 {
			if refmqtt.ValidTopicName(s) {
				tnames = append(tnames, s)
			}
			if refmqtt.ValidTopicFilter(s) {
				tfilters = append(tfilters, s)
			}
		}
		if len(s) == maxLen {
			return
		}
		for i := 0; i < len(alpha5); i++ {
			gen(s + string(alpha5[i]))
		}
	}
	gen("")
	c.Units("topicmatch", len(tnames), func(u int) {
		t := tnames[u]
		for _, f := range tfilters {
			want := refmqtt.Match(t, f)
			got := packets.TopicMatch([]byte(t), []byte(f))
			c.Count("topicmatch_pairs", 1)
			if want {
				c.Count("topicmatch_matching_pairs", 1)
			}
			if got != want {
				c.Violate("topic-match", topicMatchClass(t, f, got), map[string]any{"topic": t, "filter": f}, fmt.Sprint(want), fmt.Sprint(got))
			}
		}
	})
	c.Extra["alphabets"] = len(alphas)
	c.Units("bfs", len(alphas), func(u int) {
		a := alphas[u]
		res := subBFS(c, clients, a.fs, a.opts, topics, func(st subscription.Store, ref *refTable, hist func() any) {
			checkSubStore(c, st, ref, clients, a.fs, topics, hist, "mem", false)
		})
		c.Count("states", int64(res.States))
		c.Count("transitions", int64(res.Transitions))
		c.Count("traces_validated_against_impl", int64(res.Transitions))
		c.Count("alphabets_closed", b2i(res.Closed))
		if u%997 == 0 {
			c.Sample(map[string]any{"alphabet_filters": a.fs, "clients": clients, "states": res.States, "transitions": res.Transitions, "depth": res.Depth, "closed": res.Closed})
		}
	})

	c.Extra["topicmatch_topics"] = len(tnames)
	c.Extra["topicmatch_filters"] = len(tfilters)
}

func topicMatchClass(t, f string, got bool) string {
	dir := "false-negative"
	if got {
		dir = "false-positive"
	}
	shape := "other"
	switch {
	case strings.HasPrefix(t, "$") || strings.HasPrefix(f, "$"):
		shape = "dollar"
	case strings.HasSuffix(f, "/#") || f == "#":
		shape = "multi-level"
	case strings.Contains(f, "+"):
		shape = "single-level"
	}
	if strings.Contains(t, "//") || strings.HasPrefix(t, "/") || strings.HasSuffix(t, "/") {
		shape += "-empty-level"
	}
	return dir + "-" + shape
}

func b2i(b bool) int64 {
	if b {
		return 1
	}
	return 0
}
