package checks

import (
	"fmt"
	"sort"
	"strings"

	"github.com/DrmagicE/gmqtt"
	"github.com/DrmagicE/gmqtt/plugin/federation"
	"github.com/DrmagicE/gmqtt/zzverif/vsched"

	"verif/explore"
)

func init() { register("C16", runC16) }

var c16Ops = []string{
	"A:c1 subscribes t1", "A:c1 unsubscribes t1", "A:c2 subscribes $share/g/t2", "A:session c2 terminated", "A:message on m/x",
	"cut stream A>B", "cut A>B after next event reaches B", "cut A>B after next ack reaches A", "lose next Hello reply + cut", "link A>B down", "link A>B up",
	"B loses A (fail+rejoin)", "C joins", "A:c3 subscribes t3", "hold acks B->A", "release acks B->A",
	"A sees B fail (B keeps its session for A)", "A sees B join again (new peer object and session id)",
	"B sees A fail (A keeps its peer object and retries)", "B sees A join again",
	"A:message on m/x, the stream breaks for A while the event is in the pipe, B's handler of the old stream gets it only after A's next handshake was answered",
	"A:message on m/x is written to the stream and lost with it (the stream breaks before B reads it)",
	"A:message on m/x is written to the stream and lost with it, and the link A>B stays down",
}

// c16LateAlpha: the tree about events that the receiver gets late from an old stream.
var c16LateAlpha = []int{20, 21, 4, 6, 7, 0, 1, 22, 10}

// c16MainN: the main tree uses the first c16MainN operations; the last two only occur in
// the tree about a node that loses and re-creates its peer object.
const c16MainN = 16

var c16PeerLossAlpha = []int{0, 1, 2, 4, 13, 16, 17, 11, 5, 18, 19}

type c16State struct {
	nw       *federation.VerifNet
	a, b, c  *federation.VerifNode
	cJoined  bool
	emitted  []string // messages A forwarded towards B, in order
	emittedC []string
	lostSess bool
	down     bool
	held     bool
	aLostB   bool
	bLostA   bool
	subs     map[string]map[string]bool // reference: topic -> clients of A subscribed to it
	nmsg     int
}

func c16Setup() *c16State {
	nw := federation.NewVerifNet()
	st := &c16State{nw: nw}
	st.a = nw.AddNode("A", nil, nil, nil)
	st.b = nw.AddNode("B", nil, nil, nil)
	st.c = nw.AddNode("C", nil, nil, nil)
	st.a.Join("B")
	st.b.Join("A")
	vsched.Settle()
	// B (and C) have a local subscriber for m/#, so A forwards messages on m/x to them
	st.b.Subscribed("bc", "m/#")
	st.c.Subscribed("cc", "m/#")
	vsched.Settle()
	return st
}

func (st *c16State) refSub(client, topic string, on bool) {
	if st.subs == nil {
		st.subs = map[string]map[string]bool{}
	}
	if on {
		if st.subs[topic] == nil {
			st.subs[topic] = map[string]bool{}
		}
		st.subs[topic][client] = true
		return
	}
	delete(st.subs[topic], client)
	if len(st.subs[topic]) == 0 {
		delete(st.subs, topic)
	}
}

func (st *c16State) refTopics() string {
	var out []string
	for t := range st.subs {
		out = append(out, t)
	}
	sort.Strings(out)
	return strings.Join(out, ",")
}

func c16Apply(st *c16State, op int) bool {
	switch op {
	case 0:
		st.a.Subscribed("c1", "t1")
		st.refSub("c1", "t1", true)
	case 1:
		st.a.Unsubscribed("c1", "t1")
		st.refSub("c1", "t1", false)
	case 2:
		st.a.Subscribed("c2", "$share/g/t2")
		st.refSub("c2", "$share/g/t2", true)
	case 3:
		st.a.SessionTerminated("c2")
		st.refSub("c2", "$share/g/t2", false)
	case 4:
		st.nmsg++
		pl := fmt.Sprintf("p%d", st.nmsg)
		st.a.MsgArrived(&gmqtt.Message{Topic: "m/x", Payload: []byte(pl)})
		st.emitted = append(st.emitted, "m/x="+pl)
		if st.cJoined {
			st.emittedC = append(st.emittedC, "m/x="+pl)
		}
	case 5:
		return st.nw.Cut("A", "B")
	case 6:
		return st.nw.CutAfter("A", "B", true, 1)
	case 7:
		return st.nw.CutAfter("A", "B", false, 1)
	case 8:
		if st.down {
			return false
		}
		st.nw.DropHelloReply["A>B"] = 1
		return st.nw.Cut("A", "B")
	case 9:
		if st.down {
			return false
		}
		st.down = true
		st.nw.Down["A>B"] = true
		st.nw.Cut("A", "B")
	case 10:
		if !st.down {
			return false
		}
		st.down = false
		st.nw.Down["A>B"] = false
	case 11:
		st.b.Fail("A")
		st.b.Join("A")
		st.lostSess = true
	case 12:
		if st.cJoined {
			return false
		}
		st.cJoined = true
		st.a.Join("C")
		st.c.Join("A")
	case 13:
		st.a.Subscribed("c3", "t3")
		st.refSub("c3", "t3", true)
	case 14:
		if st.held {
			return false
		}
		st.held = true
		st.nw.HoldAcks["A>B"] = true
	case 15:
		if !st.held {
			return false
		}
		st.held = false
		st.nw.HoldAcks["A>B"] = false
	case 16:
		if st.aLostB || st.bLostA || st.down || st.held {
			return false
		}
		st.aLostB = true
		st.a.Fail("B")
	case 17:
		if !st.aLostB {
			return false
		}
		st.aLostB = false
		st.lostSess = true
		st.a.Join("B")
	case 18:
		// B drops its session for A (which ends A's stream); A's handshakes are refused until
		// B sees A join again
		if st.bLostA || st.aLostB || st.down || st.held {
			return false
		}
		st.bLostA = true
		st.b.Fail("A")
	case 20, 21, 22:
		if st.down || st.held || st.aLostB || st.bLostA || !st.nw.HoldReceiver("A", "B") {
			return false
		}
		st.nmsg++
		pl := fmt.Sprintf("p%d", st.nmsg)
		st.a.MsgArrived(&gmqtt.Message{Topic: "m/x", Payload: []byte(pl)})
		st.emitted = append(st.emitted, "m/x="+pl)
		if st.cJoined {
			st.emittedC = append(st.emittedC, "m/x="+pl)
		}
		vsched.Settle() // the event is in the pipe, B cannot read it yet
		if op == 22 {
			// an outage: events emitted from now on wait in the queue behind the lost one
			st.down = true
			st.nw.Down["A>B"] = true
			st.nw.CutLosing("A", "B")
		} else if op == 21 {
			st.nw.CutLosing("A", "B")
		} else {
			st.nw.CutLate("A", "B")
		}
	case 19:
		if !st.bLostA {
			return false
		}
		st.bLostA = false
		st.lostSess = true
		st.b.Join("A")
	}
	return true
}

// c16Check: at quiescence with the link up, B's (and C's) view of A equals A's local
// subscription set, every event has been acknowledged, and messages were applied
// exactly once in order while the peer session lasted.
func c16Check(st *c16State, bad func(rule, class, want, got string)) {
	if st.down || st.held || st.aLostB || st.bLostA {
		return
	}
	local := strings.Join(st.a.LocalTopics(), ",")
	peers := []struct {
		n       string
		node    *federation.VerifNode
		emitted []string
		on      bool
	}{{"B", st.b, st.emitted, true}, {"C", st.c, st.emittedC, st.cJoined}}
	for _, p := range peers {
		if !p.on {
			continue
		}
		if !st.nw.StreamUp("A", p.n) {
			bad("stream", "stream-not-re-established:"+p.n, "live stream A>"+p.n, "none; queue="+fmt.Sprint(st.a.QueuedEvents(p.n))+" parked="+strings.Join(vsched.ThreadsParked(), ","))
			return
		}
		if view := strings.Join(p.node.ViewOf("A"), ","); view != local {
			cl := "peer-view-differs-from-local-subscriptions:" + p.n
			if st.lostSess && p.n == "B" {
				cl += ":after-resync"
			}
			bad("view-equals-local", cl, local, view+" queue="+fmt.Sprint(st.a.QueuedEvents(p.n)))
			return
		}
		if ref := st.refTopics(); strings.Join(p.node.ViewOf("A"), ",") != ref {
			bad("view-equals-local", "peer-view-differs-from-the-subscriptions-made:"+p.n, ref, strings.Join(p.node.ViewOf("A"), ","))
			return
		}
		// (an event whose ack was lost legitimately stays queued until a later ack; what
		// matters is that it was applied, which the view / publish log comparisons decide)
		got := p.node.Published
		seen := map[string]int{}
		for _, g := range got {
			seen[g]++
			if seen[g] > 1 {
				bad("applied-once", "message-applied-twice:"+p.n, "each message once", fmt.Sprint(got))
				return
			}
		}
		if !(st.lostSess && p.n == "B") {
			if strings.Join(got, ",") != strings.Join(p.emitted, ",") {
				cl := "message-lost:" + p.n
				if len(got) == len(p.emitted) {
					cl = "messages-out-of-order:" + p.n
				}
				bad("applied-in-order", cl, strings.Join(p.emitted, ","), strings.Join(got, ","))
				return
			}
		}
	}
}

func c16Run(c *explore.Ctx, seq []int) int {
	names := func() []string {
		out := make([]string, len(seq))
		for i, e := range seq {
			out[i] = c16Ops[e]
		}
		return out
	}
	cas := func() any { return map[string]any{"seq": append([]int{}, seq...), "ops": names()} }
	applied := 0
	execBody(c, "C16", cas, func() {
		st := c16Setup()
		failed := false
		bad := func(rule, class, want, got string) {
			failed = true
			c.Violate(rule, class, cas(), want, got)
		}
		c16Check(st, bad)
		if failed {
			return
		}
		for i, op := range seq {
			if !c16Apply(st, op) {
				return
			}
			vsched.Settle()
			applied = i + 1
			c16Check(st, bad)
			if failed {
				return
			}
			if verbose {
				fmt.Printf("  %-40s local=%v viewB=%v pubB=%v queue=%v\n", c16Ops[op], st.a.LocalTopics(), st.b.ViewOf("A"), st.b.Published, st.a.QueuedEvents("B"))
			}
		}
		st.a.Stop()
		st.b.Stop()
		st.c.Stop()
		vsched.Settle()
	})
	return applied
}

// ---- E3: events emitted concurrently with cuts, all schedules up to a deviation bound

type c16Obs struct {
	problems [][3]string
	outcome  string
}

func c16Concurrent(obs *c16Obs, cuts int) func() {
	return func() {
		*obs = c16Obs{}
		st := c16Setup()
		bad := func(rule, class, want, got string) {
			obs.problems = append(obs.problems, [3]string{rule, class, "want " + want + " got " + got})
		}
		vsched.Go("emit-subs", func() {
			st.a.Subscribed("c1", "t1")
			st.a.Subscribed("c2", "$share/g/t2")
			st.a.Unsubscribed("c1", "t1")
		})
		vsched.Go("emit-msgs", func() {
			for i := 1; i <= 2; i++ {
				pl := fmt.Sprintf("p%d", i)
				st.a.MsgArrived(&gmqtt.Message{Topic: "m/x", Payload: []byte(pl)})
			}
		})
		st.emitted = []string{"m/x=p1", "m/x=p2"}
		st.refSub("c2", "$share/g/t2", true) // what remains once the emitter threads have finished
		vsched.Go("faults", func() {
			for i := 0; i < cuts; i++ {
				vsched.Point("fault")
				st.nw.Cut("A", "B")
			}
		})
		vsched.Settle()
		c16Check(st, bad)
		obs.outcome = fmt.Sprint(st.nw.Dials, len(st.b.Published))
		st.a.Stop()
		st.b.Stop()
		st.c.Stop()
		vsched.Settle()
	}
}

// c16ResyncConcurrent: a full resynchronisation (the peer lost the session / the node
// re-created its peer object) runs while subscriptions of the node change.
func c16ResyncConcurrent(obs *c16Obs, variant int) func() {
	return func() {
		*obs = c16Obs{}
		st := c16Setup()
		bad := func(rule, class, want, got string) {
			obs.problems = append(obs.problems, [3]string{rule, class, "want " + want + " got " + got})
		}
		st.a.Subscribed("c1", "t1")
		st.a.Subscribed("c3", "t3")
		st.a.Subscribed("c4", "t1")
		st.a.Unsubscribed("c4", "t1")
		vsched.Settle()
		vsched.Go("lose-session", func() {
			if variant%2 == 0 {
				st.b.Fail("A")
				st.b.Join("A")
			} else {
				st.a.Fail("B")
				st.a.Join("B")
			}
		})
		hellos := st.nw.Hellos
		vsched.Go("emit-subs", func() {
			if variant >= 2 {
				// the changes start once the new handshake has been answered, i.e. while the
				// node decides about / performs the resynchronisation
				vsched.WaitUntil("handshake-answered", func() bool { return st.nw.Hellos > hellos })
			}
			st.a.Unsubscribed("c1", "t1")
			st.a.Subscribed("c2", "$share/g/t2")
			st.a.SessionTerminated("c3")
		})
		st.lostSess = true
		st.refSub("c2", "$share/g/t2", true)
		vsched.Settle()
		c16Check(st, bad)
		obs.outcome = fmt.Sprint(st.nw.Dials, strings.Join(st.b.ViewOf("A"), ","))
		st.a.Stop()
		st.b.Stop()
		st.c.Stop()
		vsched.Settle()
	}
}

func runC16(c *explore.Ctx) {
	c.Level = "model_checking"
	c.Rule = "E2 on the real federation code in-package (eventQueue, peer.initStream, stream read/send loops, Hello, sessionMgr, EventStream server loop, eventStreamHandler, fedSubStore, localSubStore, nodeJoin/nodeFail, hook wrappers) with serf and gRPC replaced by a fault-injectable in-memory transport under the cooperative scheduler: every sequence of 14 operations (emit subscribe / unsubscribe / shared subscribe / session end / message; cut now, cut between delivery and ack, cut after ack, lost Hello reply, link down/up, peer loses the session, third node joins) up to the depth, plus directed prefixes, plus a tree over an 11-operation alphabet in which the node itself sees the peer fail and join again (new peer object and session id while the peer still holds the old session), or the peer sees the node fail and join again as two separate steps (the node's handshakes are refused in between); subscriptions change in between; plus a tree (depth+1) in which an event is still in the pipe when the sender sees the stream break and the receiver's old handler gets it only after the sender's next handshake was answered (the event then arrives twice), or is lost with the stream; after every operation at quiescence: the peer's view equals the node's local subscriptions, the queue is fully acknowledged, messages were applied exactly once and in order. E3: concurrent emitters and a fault thread, and a full resynchronisation (peer lost the session / node re-created its peer object) racing subscription changes of the node, under every schedule with <=k deviations."
	c.Trusted = []string{"fake transport: whole messages are delivered or an error is returned (gRPC's observable granularity); serf replaced by direct nodeJoin/nodeFail calls; the reconnect loop's back-off timers are not modelled", "vsched"}
	c.Assumptions = []string{"after the peer lost the session (fail + rejoin) only the resynchronised subscription view and 'no message applied twice' are required"}
	if rc := replayCase(c); rc != nil {
		c16Run(c, intsOf(rc["seq"]))
		return
	}
	depth := 4
	if !c.Quick() {
		depth = 5
	}
	c.Extra["depth"] = depth
	treeUnits(c, "tree-peer-loss", len(c16PeerLossAlpha), depth, func(seq []int) int {
		full := make([]int, len(seq))
		for i, e := range seq {
			full[i] = c16PeerLossAlpha[e]
		}
		return c16Run(c, full)
	})
	treeUnits(c, "tree-late-delivery", len(c16LateAlpha), depth+1, func(seq []int) int {
		full := make([]int, len(seq))
		for i, e := range seq {
			full[i] = c16LateAlpha[e]
		}
		return c16Run(c, full)
	})
	treeUnits(c, "tree", c16MainN, depth, func(seq []int) int {
		n := c16Run(c, seq)
		if n == len(seq) && c.Get("executions")%4000 == 0 {
			names := make([]string, len(seq))
			for i, e := range seq {
				names[i] = c16Ops[e]
			}
			c.Sample(map[string]any{"ops": names})
		}
		return n
	})
	for pi, prefix := range [][]int{{0, 9, 11}, {4, 12, 0}, {4, 6, 4}, {14, 4, 4}} {
		prefix := prefix
		treeUnits(c, fmt.Sprintf("directed%d", pi), c16MainN, depth-1, func(seq []int) int {
			full := append(append([]int{}, prefix...), seq...)
			n := c16Run(c, full) - len(prefix)
			if n < 0 {
				return 0
			}
			return n
		})
	}
	bound := 1
	if !c.Quick() {
		bound = 2
	}
	for _, cuts := range []int{1, 2} {
		obs := &c16Obs{}
		schedScenario(c, fmt.Sprintf("concurrent-emit-%d-cuts", cuts), bound, func() [][3]string { return obs.problems }, func() string { return obs.outcome }, c16Concurrent(obs, cuts), map[string]any{"cuts": cuts})
	}
	for v, name := range []string{"resync-after-the-peer-lost-the-session-vs-subscription-changes", "resync-after-the-node-re-created-its-peer-vs-subscription-changes",
		"resync-after-the-peer-lost-the-session-vs-subscription-changes-starting-at-the-handshake", "resync-after-the-node-re-created-its-peer-vs-subscription-changes-starting-at-the-handshake"} {
		obs := &c16Obs{}
		schedScenario(c, name, bound, func() [][3]string { return obs.problems }, func() string { return obs.outcome }, c16ResyncConcurrent(obs, v), map[string]any{"variant": v})
	}
}
