package checks

import (
	"fmt"
	"strings"

	"github.com/DrmagicE/gmqtt/server"
	"github.com/DrmagicE/gmqtt/zzverif/vsched"

	"verif/explore"
	"verif/harness"
	"verif/refmqtt"
)

func init() { register("C04", runC04) }

var c04Events = []string{"PUB2(id1)", "PUB2(id1,dup)", "PUB2(id2)", "PUBREL(1)", "PUBREL(2)", "PUB1(id1)", "cut+reconnect(clean0)", "cut+reconnect(clean1)", "takeover(clean0)", "PUB2(id2) and the connection is lost before the PUBREC can be written, reconnect(clean0)"}

// c04MainN: the main trees use the first c04MainN events.
const c04MainN = 9

func c04Names(seq []int) []string {
	out := make([]string, len(seq))
	for i, e := range seq {
		out[i] = c04Events[e]
	}
	return out
}

// c04Run executes one event sequence; returns the number of events applied.
func c04Run(c *explore.Ctx, version byte, seq []int, pubRecvMax ...uint16) int {
	rm := uint16(0) // Receive Maximum the publisher itself announces in CONNECT (limits broker->publisher only)
	if len(pubRecvMax) > 0 {
		rm = pubRecvMax[0]
	}
	cas := func() any {
		return map[string]any{"version": version, "seq": seq, "events": c04Names(seq), "publisher_receive_maximum": rm}
	}
	applied := 0
	execBody(c, "C04", cas, func() {
		w := harness.NewWorld(harness.DefaultConfig(), server.Hooks{})
		if w.InitErr != nil {
			c.Fatal("init: %v", w.InitErr)
			return
		}
		s := w.Dial("S")
		s.Connect(harness.ConnectOpts{ClientID: "sub", Clean: true, Version: refmqtt.V5})
		if ack, _ := s.Subscribe(0, refmqtt.Sub{Filter: "t", QoS: 0}); ack == nil {
			c.Fatal("C04: subscriber got no SUBACK")
			return
		}
		connect := func(p *harness.Client, clean bool) *refmqtt.Packet {
			o := harness.ConnectOpts{ClientID: "pub", Clean: clean, Version: version}
			if version == refmqtt.V5 {
				o.Props = &refmqtt.Props{SessionExpiry: harness.U32(3600)}
				if rm != 0 {
					o.Props.ReceiveMax = harness.U16(rm)
				}
			}
			return p.Connect(o)
		}
		p := w.Dial("P0")
		if ack := connect(p, true); ack == nil || ack.Code != 0 {
			c.Fatal("C04: publisher connect failed: %v", ack)
			return
		}
		awaiting := map[uint16]bool{}
		lastClean := true
		npub := 0
		for i, e := range seq {
			var wantAcks []string
			var wantFwd []string
			pub := func(qos byte, id uint16, dup bool) {
				npub++
				payload := fmt.Sprintf("m%d", npub)
				p.Send(&refmqtt.Packet{Type: refmqtt.PUBLISH, Topic: "t", QoS: qos, PacketID: id, Dup: dup, Payload: []byte(payload)})
				if qos == 2 {
					wantAcks = append(wantAcks, fmt.Sprintf("PUBREC(%d)", id))
					if !awaiting[id] {
						wantFwd = append(wantFwd, payload)
					}
					awaiting[id] = true
				} else {
					wantAcks = append(wantAcks, fmt.Sprintf("PUBACK(%d)", id))
					wantFwd = append(wantFwd, payload)
				}
			}
			reconnected := false
			switch e {
			case 0:
				pub(2, 1, false)
			case 1:
				pub(2, 1, true)
			case 2:
				pub(2, 2, false)
			case 3, 4:
				id := uint16(e - 2)
				p.Send(&refmqtt.Packet{Type: refmqtt.PUBREL, PacketID: id})
				wantAcks = append(wantAcks, fmt.Sprintf("PUBCOMP(%d)", id))
				delete(awaiting, id)
			case 5:
				pub(1, 1, false)
			case 6, 7, 8, 9:
				clean := e == 7
				if e == 9 {
					// the PUBLISH is in the broker's socket buffer when the connection dies: it is read,
					// forwarded (unless a retransmission) and recorded, its PUBREC cannot be written
					npub++
					payload := fmt.Sprintf("m%d", npub)
					p.Send(&refmqtt.Packet{Type: refmqtt.PUBLISH, Topic: "t", QoS: 2, PacketID: 2, Payload: []byte(payload)})
					if !awaiting[2] {
						wantFwd = append(wantFwd, payload)
					}
					awaiting[2] = true
				}
				if e != 8 {
					p.Close()
					vsched.Settle()
				}
				if version != refmqtt.V5 && lastClean {
					awaiting = map[uint16]bool{} // v3 clean session ends with its connection
				}
				old := p
				p = w.Dial(fmt.Sprintf("P%d", i+1))
				ack := connect(p, clean)
				if ack == nil || ack.Code != 0 {
					c.Violate("reconnect", "connect-refused", cas(), "CONNACK success", fmt.Sprint(ack))
					return
				}
				wantSP := !clean && !(version != refmqtt.V5 && lastClean)
				if ack.SessionPresent != wantSP {
					c.Violate("session-present", fmt.Sprintf("got-%v-v%d", ack.SessionPresent, version), cas(), fmt.Sprint(wantSP), fmt.Sprint(ack.SessionPresent))
				}
				if clean {
					awaiting = map[uint16]bool{}
				}
				lastClean = clean
				reconnected = true
				_ = old
			}
			vsched.Settle()
			applied = i + 1
			// publisher side: acks in request order, same ids
			var gotAcks []string
			for _, r := range p.Recv() {
				if r.P == nil || r.Err != nil {
					c.Violate("decodable", "publisher-rx-undecodable", cas(), "valid packet", fmt.Sprint(r.Err))
					continue
				}
				switch r.P.Type {
				case refmqtt.PUBREC, refmqtt.PUBACK, refmqtt.PUBCOMP:
					if r.P.Code >= 0x80 {
						c.Violate("ack-code", fmt.Sprintf("%s-code-0x%02x", refmqtt.TypeNames[r.P.Type], r.P.Code), cas(), "success code", r.P.String())
					}
					gotAcks = append(gotAcks, fmt.Sprintf("%s(%d)", refmqtt.TypeNames[r.P.Type], r.P.PacketID))
				default:
					gotAcks = append(gotAcks, r.P.String())
				}
			}
			if !reconnected && strings.Join(gotAcks, ",") != strings.Join(wantAcks, ",") {
				c.Violate("acks", ackClass(gotAcks, wantAcks), cas(), strings.Join(wantAcks, ","), strings.Join(gotAcks, ","))
			}
			if p.ClosedByBroker() {
				c.Violate("connection-kept", "publisher-disconnected-after-"+c04Events[e], cas(), "connection stays up", "broker closed the publisher connection")
				return
			}
			// subscriber side: exactly the expected forwards
			var gotFwd []string
			for _, r := range s.Recv() {
				if r.P != nil && r.P.Type == refmqtt.PUBLISH {
					gotFwd = append(gotFwd, string(r.P.Payload))
				} else if r.P != nil {
					gotFwd = append(gotFwd, r.P.String())
				}
			}
			if strings.Join(gotFwd, ",") != strings.Join(wantFwd, ",") {
				cl := "missing-forward"
				if len(gotFwd) > len(wantFwd) {
					cl = "duplicate-forward"
					if reconnectedBefore(seq[:i+1]) {
						cl += "-after-resume"
					}
				}
				c.Violate("exactly-once", cl, cas(), strings.Join(wantFwd, ","), strings.Join(gotFwd, ","))
			}
			if verbose {
				fmt.Printf("  event %-24s acks=%v fwd=%v awaiting=%v\n", c04Events[e], gotAcks, gotFwd, awaiting)
			}
		}
		swallowedPanic(c, w, cas)
	})
	return applied
}

func reconnectedBefore(seq []int) bool {
	for _, e := range seq {
		if e >= 6 {
			return true
		}
	}
	return false
}

func ackClass(got, want []string) string {
	switch {
	case len(got) < len(want):
		return "missing-ack"
	case len(got) > len(want):
		return "extra-packet"
	}
	return "wrong-ack"
}

// c04Burst: n QoS 2 flows are opened in lock step, then all PUBRELs (or QoS 1 publishes)
// arrive in one burst while the client does not read: the acknowledgements pile up behind
// a full socket and a full outbound channel; once the client reads again every PUBREL
// must have its PUBCOMP (every QoS 1 PUBLISH its PUBACK), each exactly once.
func c04Burst(c *explore.Ctx, version byte, n int, kind string) {
	cas := func() any { return map[string]any{"part": "burst", "version": version, "flows": n, "kind": kind} }
	c.Count("executions", 1)
	execBody(c, "C04", cas, func() {
		w := harness.NewWorld(harness.DefaultConfig(), server.Hooks{})
		if w.InitErr != nil {
			c.Fatal("init: %v", w.InitErr)
			return
		}
		p := w.DialCap("P", 64)
		if ack := p.Connect(harness.ConnectOpts{ClientID: "p", Clean: true, Version: version}); ack == nil || ack.Code != 0 {
			c.Fatal("C04 burst: connect failed")
			return
		}
		var burst []byte
		wantT := byte(refmqtt.PUBCOMP)
		for i := 1; i <= n; i++ {
			if kind == "pubrel" {
				p.Send(&refmqtt.Packet{Type: refmqtt.PUBLISH, Topic: "t", QoS: 2, PacketID: uint16(i), Payload: []byte("x")})
				vsched.Settle()
				if stampOf(p, refmqtt.PUBREC, uint16(i)) == 0 {
					c.Violate("acks", "missing-pubrec-in-lock-step", cas(), fmt.Sprintf("PUBREC(%d)", i), "none")
					return
				}
				pk := &refmqtt.Packet{Type: refmqtt.PUBREL, PacketID: uint16(i), Version: version}
				burst = append(burst, refmqtt.Encode(pk)...)
			} else {
				wantT = refmqtt.PUBACK
				pk := &refmqtt.Packet{Type: refmqtt.PUBLISH, Topic: "t", QoS: 1, PacketID: uint16(i), Payload: []byte("x"), Version: version}
				burst = append(burst, refmqtt.Encode(pk)...)
			}
		}
		p.Recv() // everything so far has been looked at
		// the client writes the whole burst without reading (its writes block once the broker,
		// whose replies it does not take, stops reading), and only then reads again
		written := false
		vsched.Go("client-burst", func() { p.SendRaw(burst); written = true })
		vsched.Settle()
		got := map[uint16]int{}
		for round := 0; round < 8*n+20; round++ {
			rs := p.Recv()
			if len(rs) == 0 && written {
				break
			}
			for _, r := range rs {
				if r.P != nil && r.P.Type == wantT {
					got[r.P.PacketID]++
				}
			}
			vsched.Settle()
		}
		for i := 1; i <= n; i++ {
			if got[uint16(i)] != 1 {
				cl := fmt.Sprintf("burst-%s-answered-%d-times", kind, got[uint16(i)])
				c.Violate("acks", cl, cas(), fmt.Sprintf("one %s per id 1..%d", refmqtt.TypeNames[wantT], n), fmt.Sprint(got, " closed=", p.ClosedByBroker(), w.Closeds))
				return
			}
		}
		swallowedPanic(c, w, cas)
	})
}

// c04LostAck: the publisher's connection dies right after it sent a QoS 2 PUBLISH (the
// broker may or may not get to read it, to forward it, to write the PUBREC); the publisher
// resumes its session and retransmits.  In every schedule the message reaches the
// subscriber exactly once and the flow completes.
type c04LostObs struct {
	problems [][3]string
	outcome  string
}

func c04LostAckBody(obs *c04LostObs, version byte) func() {
	return func() {
		*obs = c04LostObs{}
		bad := func(rule, class, detail string) { obs.problems = append(obs.problems, [3]string{rule, class, detail}) }
		w := harness.NewWorld(harness.DefaultConfig(), server.Hooks{})
		if w.InitErr != nil {
			bad("init", "failed", w.InitErr.Error())
			return
		}
		s := w.Dial("S")
		s.Connect(harness.ConnectOpts{ClientID: "sub", Clean: true, Version: refmqtt.V5})
		s.Subscribe(0, refmqtt.Sub{Filter: "t", QoS: 0})
		opts := harness.ConnectOpts{ClientID: "pub", Clean: false, Version: version}
		if version == refmqtt.V5 {
			opts.Props = &refmqtt.Props{SessionExpiry: harness.U32(3600)}
		}
		p := w.Dial("P0")
		p.Connect(opts)
		vsched.Go("publisher-dies", func() {
			p.Send(&refmqtt.Packet{Type: refmqtt.PUBLISH, Topic: "t", QoS: 2, PacketID: 2, Payload: []byte("once")})
			p.Close()
		})
		vsched.Settle()
		p2 := w.Dial("P1")
		if ack := p2.Connect(opts); ack == nil || ack.Code != 0 || !ack.SessionPresent {
			bad("reconnect", "session-not-resumed", fmt.Sprint(ack))
			return
		}
		p2.Send(&refmqtt.Packet{Type: refmqtt.PUBLISH, Topic: "t", QoS: 2, PacketID: 2, Dup: true, Payload: []byte("once")})
		vsched.Settle()
		if stampOf(p2, refmqtt.PUBREC, 2) == 0 {
			bad("acks", "retransmission-after-a-lost-connection-not-acknowledged", "no PUBREC(2)")
		}
		p2.Send(&refmqtt.Packet{Type: refmqtt.PUBREL, PacketID: 2})
		vsched.Settle()
		if stampOf(p2, refmqtt.PUBCOMP, 2) == 0 {
			bad("acks", "pubrel-after-a-lost-connection-not-answered", "no PUBCOMP(2)")
		}
		n := 0
		for _, r := range s.Recv() {
			if r.P != nil && r.P.Type == refmqtt.PUBLISH && string(r.P.Payload) == "once" {
				n++
			}
		}
		if n != 1 {
			cl := "duplicate-forward-after-the-connection-died-around-the-pubrec"
			if n == 0 {
				cl = "message-never-forwarded-after-the-connection-died"
			}
			bad("exactly-once", cl, fmt.Sprintf("subscriber received %d copies", n))
		}
		if pn := w.SwallowedPanic(); pn != "" {
			bad("no-panic", "recovered: "+trimTo(pn, 80), pn)
		}
		obs.outcome = fmt.Sprint(n)
	}
}

func runC04(c *explore.Ctx) {
	c.Level = "model_checking"
	c.Rule = "E2: every sequence of publisher events (QoS2 publish id1/id2, DUP retransmission, PUBREL, QoS1 publish, cut+reconnect clean 0/1, take-over) up to the depth, for a v5 and a v3.1.1 publisher (and, one level shallower, a v5 publisher announcing Receive Maximum 1 itself), executed on a fresh in-process broker under the cooperative scheduler; after every event the acks on the publisher socket and the payloads forwarded to an independent QoS0 subscriber are compared with a reference 'awaiting PUBREL' set; a smaller tree adds the event 'QoS 2 PUBLISH read by the broker, connection lost before the PUBREC can be written, session resumed'. E3: the publisher's connection dies right after a QoS 2 PUBLISH was sent, under every schedule with <=k deviations (the broker may or may not read it, forward it, write the PUBREC); after resume and retransmission the subscriber has exactly one copy. Burst part: 12/30/45 QoS 2 flows opened in lock step, then all PUBRELs (or as many QoS 1 publishes) sent in one burst to a broker whose replies pile up behind a full socket and outbound channel (the client does not read): afterwards every PUBREL has exactly one PUBCOMP, every QoS 1 PUBLISH one PUBACK. states = distinct valid event prefixes, transitions = events applied."
	c.Trusted = []string{"vsched scheduler semantics (default schedule, 0 deviations)", "refmqtt codec"}
	if rc := replayCase(c); rc != nil {
		prm, _ := rc["publisher_receive_maximum"].(float64)
		c04Run(c, byte(rc["version"].(float64)), intsOf(rc["seq"]), uint16(prm))
		return
	}
	depth := 5
	if !c.Quick() {
		depth = 7
	}
	c.Extra["depth"] = depth
	c.Extra["alphabet"] = c04Events
	// a v5 publisher that announces a small Receive Maximum of its own: that value limits
	// what the broker sends to it and must not limit what it may send
	if !c.IsWorker() {
		for _, v := range []byte{refmqtt.V5, refmqtt.V311} {
			for _, n := range []int{12, 30, 45} {
				c04Burst(c, v, n, "pubrel")
				c04Burst(c, v, n, "qos1")
			}
		}
	}
	{
		bound := 1
		if !c.Quick() {
			bound = 2
		}
		for _, v := range []byte{refmqtt.V5, refmqtt.V311} {
			obs := &c04LostObs{}
			schedScenario(c, fmt.Sprintf("publisher-dies-after-sending-a-qos2-publish-v%d", v), bound, func() [][3]string { return obs.problems }, func() string { return obs.outcome }, c04LostAckBody(obs, v), map[string]any{"version": v})
		}
	}
	// the connection dies between the broker reading a QoS 2 PUBLISH and writing its PUBREC
	lostAlpha := []int{9, 2, 4, 0, 6, 1}
	for _, v := range []byte{refmqtt.V5, refmqtt.V311} {
		v := v
		treeUnits(c, fmt.Sprintf("tree-lost-pubrec-v%d", v), len(lostAlpha), depth-1, func(seq []int) int {
			full := make([]int, len(seq))
			for i, e := range seq {
				full[i] = lostAlpha[e]
			}
			return c04Run(c, v, full)
		})
	}
	treeUnits(c, "tree-v5-publisher-recvmax1", c04MainN, depth-1, func(seq []int) int {
		return c04Run(c, refmqtt.V5, seq, 1)
	})
	for _, v := range []byte{refmqtt.V5, refmqtt.V311} {
		v := v
		d := depth
		if v == refmqtt.V311 && c.Quick() {
			d = depth - 1 // the v3.1.1 path differs only in the acknowledgement encoding
		}
		treeUnits(c, fmt.Sprintf("tree-v%d", v), c04MainN, d, func(seq []int) int {
			n := c04Run(c, v, seq)
			if n == len(seq) && c.Get("executions")%5000 == 0 {
				c.Sample(map[string]any{"version": v, "events": c04Names(seq)})
			}
			return n
		})
	}
}
