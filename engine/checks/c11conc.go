package checks

import (
	"fmt"

	"github.com/DrmagicE/gmqtt/server"
	"github.com/DrmagicE/gmqtt/zzverif/vsched"

	"verif/explore"
	"verif/harness"
	"verif/refmqtt"
)

// c11Race: members of one share group leave (UNSUBSCRIBE / connection ends with its
// session / TerminateSession) or join while two messages are published.  Whatever the
// interleaving and whichever member the broker picks, every message is received by exactly
// one client that was a member at some time (the leaver may still get a message that was
// published before its leave took effect, then nobody else does), a client that never was a
// member gets nothing, and a non-shared subscriber gets every message.
type c11RaceObs struct {
	problems [][3]string
	outcome  string
}

func c11RaceBody(obs *c11RaceObs, how int) func() {
	return func() {
		*obs = c11RaceObs{}
		bad := func(rule, class, detail string) { obs.problems = append(obs.problems, [3]string{rule, class, detail}) }
		w := harness.NewWorld(harness.DefaultConfig(), server.Hooks{})
		if w.InitErr != nil {
			bad("init", "failed", w.InitErr.Error())
			return
		}
		p := w.Dial("P")
		p.Connect(harness.ConnectOpts{ClientID: "pub", Clean: true, Version: refmqtt.V5})
		mk := func(name string) *harness.Client {
			cl := w.Dial(name)
			cl.Connect(harness.ConnectOpts{ClientID: name, Clean: true, Version: refmqtt.V5})
			return cl
		}
		m1, m2, late, plain := mk("m1"), mk("m2"), mk("late"), mk("plain")
		m1.Subscribe(11, refmqtt.Sub{Filter: "$share/g/a", QoS: 0})
		m2.Subscribe(22, refmqtt.Sub{Filter: "$share/g/a", QoS: 0})
		plain.Subscribe(44, refmqtt.Sub{Filter: "a", QoS: 0})
		vsched.Go("publisher", func() {
			p.Send(&refmqtt.Packet{Type: refmqtt.PUBLISH, Topic: "a", Payload: []byte("x1")})
			p.Send(&refmqtt.Packet{Type: refmqtt.PUBLISH, Topic: "a", Payload: []byte("x2")})
		})
		vsched.Go("leaver", func() {
			switch how {
			case 0:
				m1.Send(&refmqtt.Packet{Type: refmqtt.UNSUBSCRIBE, PacketID: 9, Filters: []string{"$share/g/a"}})
			case 1:
				m1.Close()
			case 2:
				w.Srv.ClientService().TerminateSession("m1")
			}
		})
		vsched.Go("joiner", func() {
			late.Send(&refmqtt.Packet{Type: refmqtt.SUBSCRIBE, PacketID: 5, Subs: []refmqtt.Sub{{Filter: "$share/g/a", QoS: 0}}, Props: &refmqtt.Props{SubIDs: []uint32{33}}})
		})
		vsched.Settle()
		count := func(cl *harness.Client, pl string) int {
			n := 0
			cl.Pump()
			for _, r := range cl.Inbox {
				if r.P != nil && r.P.Type == refmqtt.PUBLISH && string(r.P.Payload) == pl {
					n++
				}
			}
			return n
		}
		for _, pl := range []string{"x1", "x2"} {
			g := count(m1, pl) + count(m2, pl) + count(late, pl)
			// a message picked for m1 after its socket was closed (how 1, 2) is lost with the connection
			if g > 1 {
				bad("delivery", "group-got-more-than-one-copy-while-membership-changed", fmt.Sprintf("%s: m1=%d m2=%d late=%d", pl, count(m1, pl), count(m2, pl), count(late, pl)))
			}
			if g == 0 && how == 0 {
				bad("delivery", "group-with-live-members-got-no-copy-while-membership-changed", pl)
			}
			if n := count(plain, pl); n != 1 {
				bad("delivery", fmt.Sprintf("non-shared-subscriber-got-%d-copies-while-membership-changed", n), pl)
			}
		}
		// afterwards: m1 is out, m2 and late are members
		p.Send(&refmqtt.Packet{Type: refmqtt.PUBLISH, Topic: "a", Payload: []byte("x3")})
		vsched.Settle()
		if how == 0 && count(m1, "x3") != 0 {
			bad("delivery", "leaver-selected-after-its-leave-was-acknowledged", "x3 delivered to m1")
		}
		if g := count(m1, "x3") + count(m2, "x3") + count(late, "x3"); g != 1 {
			bad("delivery", fmt.Sprintf("group-got-%d-copies-after-the-membership-change", g), fmt.Sprintf("m1=%d m2=%d late=%d", count(m1, "x3"), count(m2, "x3"), count(late, "x3")))
		}
		if pn := w.SwallowedPanic(); pn != "" {
			bad("no-panic", "recovered: "+trimTo(pn, 80), pn)
		}
		obs.outcome = fmt.Sprintf("%d%d%d", count(m1, "x1")+count(m1, "x2"), count(m2, "x1")+count(m2, "x2"), count(late, "x1")+count(late, "x2"))
	}
}

func c11Race(c *explore.Ctx) {
	bound := 1
	if !c.Quick() {
		bound = 2
	}
	c.Extra["race_deviation_bound"] = bound
	for how, name := range []string{"unsubscribe", "connection-ends", "terminate-session"} {
		obs := &c11RaceObs{}
		schedScenario(c, "membership-change-vs-publishes-"+name, bound, func() [][3]string { return obs.problems }, func() string { return obs.outcome }, c11RaceBody(obs, how), map[string]any{"leave": name})
	}
}
