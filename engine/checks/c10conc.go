package checks

import (
	"fmt"
	"strings"
	"time"

	"github.com/DrmagicE/gmqtt"
	"github.com/DrmagicE/gmqtt/persistence/queue"
	qredis "github.com/DrmagicE/gmqtt/persistence/queue/redis"
	"github.com/DrmagicE/gmqtt/pkg/packets"
	"github.com/DrmagicE/gmqtt/zzverif/vsched"
	redigo "github.com/gomodule/redigo/redis"

	"verif/explore"
)

// c10RedisRace: two operations on one redis queue run concurrently, each on its own pooled
// connection (every redis command is a round trip the other thread can run in).  Whatever
// the interleaving, the outcome is conserving: every message is exactly one of stored
// (queued or in flight) or reported dropped, what Read handed out is stored as in flight,
// the stored list does not exceed the maximum and the reported counters equal it.  In these
// scenarios the order in which two runnable threads go when the running one blocks is a
// deviation too (which of two commands reaches the redis server first).
type c10RaceObs struct {
	problems [][3]string
	outcome  string
}

type c10RaceNotifier struct {
	drops          []string
	qDelta, iDelta int
}

func (n *c10RaceNotifier) NotifyDropped(e *queue.Elem, err error) {
	if p, ok := e.MessageWithID.(*queue.Publish); ok {
		n.drops = append(n.drops, string(p.Payload))
	} else {
		n.drops = append(n.drops, fmt.Sprintf("pubrel%d", e.MessageWithID.ID()))
	}
}
func (n *c10RaceNotifier) NotifyInflightAdded(d int) { n.iDelta += d }
func (n *c10RaceNotifier) NotifyMsgQueueAdded(d int) { n.qDelta += d }

func c10RedisRaceBody(c *explore.Ctx, obs *c10RaceObs, variant int) func() {
	return func() {
		*obs = c10RaceObs{}
		bad := func(rule, class, detail string) { obs.problems = append(obs.problems, [3]string{rule, class, detail}) }
		rd, db := c09DB(c, nil)
		if rd == nil {
			return
		}
		defer rd.DropDB(db)
		pool := &redigo.Pool{MaxIdle: 3, Dial: func() (redigo.Conn, error) {
			cn, err := vsched.RedisDial("tcp", rd.Addr())
			if err != nil {
				return nil, err
			}
			if _, err := cn.Do("SELECT", db); err != nil {
				cn.Close()
				return nil, err
			}
			return cn, nil
		}}
		defer pool.Close()
		n := &c10RaceNotifier{}
		q, err := qredis.New(qredis.Options{MaxQueuedMsg: 2, InflightExpiry: 30 * time.Second, ClientID: "c", DefaultNotifier: n, Pool: pool})
		if err != nil {
			bad("setup", "queue-new-failed", err.Error())
			return
		}
		if err := q.Init(&queue.InitOptions{CleanStart: true, Version: packets.Version5, ReadBytesLimit: 100, Notifier: n}); err != nil {
			bad("setup", "init-failed", err.Error())
			return
		}
		q.ReadInflight(1)
		add := func(pl string, qos byte) {
			q.Add(&queue.Elem{At: time.Unix(0, vsched.Now()), MessageWithID: &queue.Publish{Message: &gmqtt.Message{QoS: qos, Topic: "t", Payload: []byte(pl)}}})
		}
		add("m1", 1)
		add("m2", 1)
		var read []*queue.Elem
		var rerr error
		vsched.Go("Add", func() { add("m3", 1) })
		switch variant {
		case 0:
			vsched.Go("Read", func() { read, rerr = q.Read([]packets.PacketID{1, 2}) })
		case 1:
			vsched.Go("Add2", func() { add("m4", 0) })
		}
		vsched.Settle()
		if rerr != nil {
			bad("read", "error", rerr.Error())
			return
		}
		stored := map[string]uint16{}
		var order []string
		for _, b := range rd.List(db, "queue:c") {
			e := &queue.Elem{}
			if err := e.Decode(b); err != nil {
				bad("conservation", "undecodable-element-stored", err.Error())
				return
			}
			p, _ := e.MessageWithID.(*queue.Publish)
			if p == nil {
				continue
			}
			if _, dup := stored[string(p.Payload)]; dup {
				bad("conservation", "message-stored-twice", string(p.Payload))
			}
			stored[string(p.Payload)] = p.PacketID
			order = append(order, fmt.Sprintf("%s#%d", p.Payload, p.PacketID))
		}
		dropped := map[string]int{}
		for _, d := range n.drops {
			dropped[d]++
		}
		msgs := []string{"m1", "m2", "m3"}
		if variant == 1 {
			msgs = append(msgs, "m4")
		}
		for _, m := range msgs {
			_, st := stored[m]
			switch {
			case st && dropped[m] > 0:
				bad("conservation", "message-both-stored-and-reported-dropped", m+" list "+strings.Join(order, ","))
			case !st && dropped[m] == 0:
				bad("conservation", "message-silently-gone", m+" list "+strings.Join(order, ","))
			case dropped[m] > 1:
				bad("conservation", "message-reported-dropped-twice", m)
			}
		}
		for _, e := range read {
			p, _ := e.MessageWithID.(*queue.Publish)
			if p == nil {
				continue
			}
			if id, st := stored[string(p.Payload)]; !st || id != p.PacketID {
				cl := "message-handed-out-by-read-is-not-stored-in-flight"
				if dropped[string(p.Payload)] > 0 {
					cl = "message-both-handed-out-by-read-and-reported-dropped"
				}
				bad("conservation", cl, fmt.Sprintf("%s#%d, list %s, drops %v", p.Payload, p.PacketID, strings.Join(order, ","), n.drops))
			}
		}
		if len(order) > 2 {
			bad("bounded", "stored-list-exceeds-max", strings.Join(order, ","))
		}
		infl := 0
		for _, id := range stored {
			if id != 0 {
				infl++
			}
		}
		if n.qDelta != len(stored) || n.iDelta != infl {
			bad("counters", "reported-counters-differ-from-the-stored-list", fmt.Sprintf("queue %d in-flight %d, stored %s", n.qDelta, n.iDelta, strings.Join(order, ",")))
		}
		obs.outcome = strings.Join(order, ",") + " drops=" + strings.Join(n.drops, ",")
	}
}

func c10RedisRace(c *explore.Ctx) {
	bound := 1
	if !c.Quick() {
		bound = 2
	}
	c.Extra["redis_race_deviation_bound"] = bound
	for v, name := range []string{"redis-queue-add-on-full-queue-vs-read", "redis-queue-two-adds-on-full-queue"} {
		obs := &c10RaceObs{}
		schedScenario(c, name, bound, func() [][3]string { return obs.problems }, func() string { return obs.outcome }, c10RedisRaceBody(c, obs, v), map[string]any{"variant": v, "switch_choice": true})
	}
}
