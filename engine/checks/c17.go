package checks

import (
	"fmt"
	"sort"
	"strings"

	"github.com/DrmagicE/gmqtt"
	"github.com/DrmagicE/gmqtt/plugin/federation"
	"github.com/DrmagicE/gmqtt/server"
	"github.com/DrmagicE/gmqtt/zzverif/vsched"

	"verif/explore"
	"verif/harness"
	"verif/refmqtt"
)

func init() { register("C17", runC17) }

var c17Filters = []string{"a", "a/#", "+", "$share/g/a", "$share/h/a", "$SYS/a"}

type c17Sub struct {
	node   int
	filter string
}

func (s c17Sub) String() string { return fmt.Sprintf("n%d:%s", s.node+1, s.filter) }

type c17Pub struct {
	node   int
	topic  string
	retain int // 0 no, 1 retained, 2 retained with empty payload
}

func (p c17Pub) String() string {
	return fmt.Sprintf("n%d:%s retain=%d", p.node+1, p.topic, p.retain)
}

type c17Node struct {
	w    *harness.World
	fn   *federation.VerifNode
	sub  *harness.Client
	pub  *harness.Client
	name string
}

func c17World(c *explore.Ctx, nNodes int, subs []c17Sub, unsubFirst bool, pubs []c17Pub, sessionEnd ...bool) {
	endFirst := len(sessionEnd) > 0 && sessionEnd[0]
	cas0 := func() map[string]any {
		var ss []string
		for _, s := range subs {
			ss = append(ss, s.String())
		}
		if unsubFirst {
			ss = append(ss, "then UNSUBSCRIBE "+subs[0].String())
		}
		if endFirst {
			ss = append(ss, fmt.Sprintf("then n%d publishes to a, and its subscriber's connection (and session) ends", subs[0].node+1))
		}
		return map[string]any{"nodes": nNodes, "subscriptions": ss}
	}
	cur := ""
	cas := func() any {
		m := cas0()
		if cur != "" {
			m["publish"] = cur
		}
		return m
	}
	c.Count("executions", 1)
	execBody(c, "C17", cas, func() {
		nw := federation.NewVerifNet()
		nodes := make([]*c17Node, nNodes)
		for i := range nodes {
			name := fmt.Sprintf("n%d", i+1)
			fn := nw.AddNode(name, nil, nil, nil)
			w := harness.NewWorld(harness.DefaultConfig(), server.Hooks{}, server.WithPlugin(&federation.VerifPlugin{N: fn}))
			if w.InitErr != nil {
				c.Fatal("C17 init: %v", w.InitErr)
				return
			}
			nodes[i] = &c17Node{w: w, fn: fn, name: name}
		}
		for i, a := range nodes {
			for j, b := range nodes {
				if i != j {
					a.fn.Join(b.name)
				}
			}
		}
		vsched.Settle()
		for _, n := range nodes {
			n.sub = n.w.Dial("S" + n.name)
			n.sub.Connect(harness.ConnectOpts{ClientID: "s" + n.name, Clean: true, Version: refmqtt.V5})
			n.pub = n.w.Dial("P" + n.name)
			n.pub.Connect(harness.ConnectOpts{ClientID: "p" + n.name, Clean: true, Version: refmqtt.V311})
		}
		table := map[string]bool{} // node|filter
		idOf := map[uint32]c17Sub{}
		for si, s := range subs {
			idOf[uint32(si+1)] = s
			ack, _ := nodes[s.node].sub.Subscribe(uint32(si+1), refmqtt.Sub{Filter: s.filter, QoS: 1, RAP: true})
			if ack == nil || ack.Codes[0] >= 0x80 {
				c.Fatal("C17: subscribe refused %v", ack)
				return
			}
			table[fmt.Sprint(s.node, "|", s.filter)] = true
		}
		vsched.Settle()
		if unsubFirst {
			x := nodes[subs[0].node].sub
			x.Send(&refmqtt.Packet{Type: refmqtt.UNSUBSCRIBE, PacketID: 99, Filters: []string{subs[0].filter}})
			vsched.Settle()
			x.Recv()
			delete(table, fmt.Sprint(subs[0].node, "|", subs[0].filter))
		}
		if endFirst {
			// a message first (it is forwarded to the peers that need it only, so the node's event
			// queues are no longer in step), then the subscriber's session ends: every peer must
			// learn that all its subscriptions are gone
			k := subs[0].node
			nodes[k].pub.Send(&refmqtt.Packet{Type: refmqtt.PUBLISH, Topic: "a", Payload: []byte("warm-up")})
			vsched.Settle()
			for _, n := range nodes {
				for _, r := range n.sub.Recv() {
					if r.P != nil && r.P.Type == refmqtt.PUBLISH && r.P.QoS == 1 {
						n.sub.Send(&refmqtt.Packet{Type: refmqtt.PUBACK, PacketID: r.P.PacketID})
					}
				}
				n.fn.Published = nil
			}
			vsched.Settle()
			nodes[k].sub.Close()
			vsched.Settle()
			for key := range table {
				if strings.HasPrefix(key, fmt.Sprint(k, "|")) {
					delete(table, key)
				}
			}
		}
		c.Count("states", 1)
		// propagation complete: every node's view of every other node equals that node's local set
		for i, a := range nodes {
			for j, b := range nodes {
				if i == j {
					continue
				}
				if got, want := strings.Join(a.fn.ViewOf(b.name), ","), strings.Join(b.fn.LocalTopics(), ","); got != want {
					c.Violate("propagation", "view-differs-after-settle", cas(), want, got)
					return
				}
				// and equals what the harness itself subscribed on b (independent of the plugin's
				// own bookkeeping of local subscriptions)
				var ref []string
				for k := range table {
					parts := strings.SplitN(k, "|", 2)
					if parts[0] == fmt.Sprint(j) {
						ref = append(ref, parts[1])
					}
				}
				sort.Strings(ref)
				if got, want := strings.Join(a.fn.ViewOf(b.name), ","), strings.Join(ref, ","); got != want {
					c.Violate("propagation", "view-differs-from-the-subscriptions-made", cas(), want, got)
					return
				}
			}
		}
		retainedRef := map[string]string{}
		for pi, p := range pubs {
			cur = p.String()
			payload := fmt.Sprintf("x%d", pi)
			if p.retain == 2 {
				payload = ""
			}
			for _, n := range nodes {
				n.fn.Published = nil
			}
			nodes[p.node].pub.Send(&refmqtt.Packet{Type: refmqtt.PUBLISH, Topic: p.topic, QoS: 1, PacketID: uint16(pi + 1), Retain: p.retain != 0, Payload: []byte(payload)})
			vsched.Settle()
			c.Count("transitions", 1)
			// what each subscriber client received
			got := make([]int, nNodes)
			groupCopies := map[string]int{}
			for i, n := range nodes {
				for _, r := range n.sub.Recv() {
					if r.P != nil && r.P.Type == refmqtt.PUBLISH && r.P.Topic == p.topic && string(r.P.Payload) == payload {
						got[i]++
						if r.P.Props != nil {
							for _, id := range r.P.Props.SubIDs {
								if _, _, sh := refmqtt.SplitShared(idOf[id].filter); sh {
									groupCopies[idOf[id].filter]++
								}
							}
						}
						if r.P.QoS == 1 {
							n.sub.Send(&refmqtt.Packet{Type: refmqtt.PUBACK, PacketID: r.P.PacketID})
						}
					}
				}
				n.pub.Recv()
			}
			vsched.Settle()
			// expectations
			nonShared := make([]bool, nNodes)
			groups := map[string][]int{}
			anyMatch := make([]bool, nNodes)
			for k := range table {
				var node int
				var f string
				parts := strings.SplitN(k, "|", 2)
				fmt.Sscan(parts[0], &node)
				f = parts[1]
				g, filt, shared := refmqtt.SplitShared(f)
				if !refmqtt.Match(p.topic, filt) {
					continue
				}
				anyMatch[node] = true
				if shared {
					groups["$share/"+g+"/"+filt] = append(groups["$share/"+g+"/"+filt], node)
				} else {
					nonShared[node] = true
				}
			}
			// forwarding: an event reaches node N (its Publisher is called) iff N != origin and (retained or N has a match)
			for i, n := range nodes {
				fwd := len(n.fn.Published)
				want := 0
				if i != p.node && (p.retain != 0 || anyMatch[i]) {
					want = 1
				}
				switch {
				case i == p.node && fwd != 0:
					c.Violate("forwarding", "message-came-back-to-its-origin", cas(), "0 events at origin", fmt.Sprint(fwd))
					return
				case p.retain != 0 && fwd != want:
					c.Violate("forwarding", fmt.Sprintf("retained-message-forwarded-%d-times", fwd), cas(), fmt.Sprint(want), fmt.Sprint(fwd))
					return
				case p.retain == 0 && fwd > 1:
					c.Violate("forwarding", "forwarded-more-than-once-to-a-node", cas(), "<=1", fmt.Sprint(fwd))
					return
				case p.retain == 0 && !anyMatch[i] && fwd != 0:
					c.Violate("forwarding", "forwarded-to-node-without-matching-subscription", cas(), "0", fmt.Sprint(fwd))
					return
				case p.retain == 0 && nonShared[i] && i != p.node && fwd != 1:
					c.Violate("forwarding", "not-forwarded-to-node-with-matching-subscription", cas(), "1", fmt.Sprint(fwd))
					return
				}
			}
			// deliveries (each node has one subscriber client; onlyonce mode => one copy per
			// client from its non-shared matches, plus one copy per share group it is the
			// chosen member of)
			totalShared := 0
			for i := range nodes {
				base := 0
				if nonShared[i] {
					base = 1
				}
				extra := got[i] - base
				if extra < 0 {
					c.Violate("delivery", "non-shared-subscriber-missed-message", cas(), fmt.Sprintf("node %d: >=%d", i+1, base), fmt.Sprint(got))
					return
				}
				totalShared += extra
			}
			_ = totalShared
			if p.retain != 2 {
				var gnames []string
				for g := range groups {
					gnames = append(gnames, g)
				}
				sort.Strings(gnames)
				for _, g := range gnames {
					members := groups[g]
					n := groupCopies[g]
					if n == 1 {
						continue
					}
					onOrigin, remote := false, false
					for _, m := range members {
						if m == p.node {
							onOrigin = true
						} else {
							remote = true
						}
					}
					var cl string
					switch {
					case n > 1 && p.retain != 0:
						cl = "retained-message-delivered-to-several-members-of-a-group-spanning-nodes"
					case n > 1:
						cl = "share-group-got-several-copies"
						if len(groups) > 1 {
							cl += "-several-groups-on-the-receiving-node"
						}
					case onOrigin && !remote:
						cl = "share-group-local-to-the-origin-starved-while-another-group-was-served-remotely"
					case onOrigin:
						cl = "share-group-with-a-member-on-the-origin-starved"
					default:
						cl = "remote-share-group-starved"
					}
					c.Violate("delivery", cl, cas(), fmt.Sprintf("exactly one copy for %s (members on nodes %v)", g, members), fmt.Sprintf("%d copies; per node %v; groups %v; non-shared %v", n, got, groups, nonShared))
					return
				}
			}
			// retained stores
			if p.retain == 1 {
				retainedRef[p.topic] = payload
			} else if p.retain == 2 {
				delete(retainedRef, p.topic)
			}
			if p.retain != 0 {
				var want []string
				for t, pl := range retainedRef {
					want = append(want, t+"="+pl)
				}
				sort.Strings(want)
				for i, n := range nodes {
					var have []string
					n.w.Srv.RetainedService().Iterate(func(m *gmqtt.Message) bool {
						have = append(have, m.Topic+"="+string(m.Payload))
						return true
					})
					sort.Strings(have)
					if strings.Join(have, ",") != strings.Join(want, ",") {
						cl := "retained-store-differs-on-peer"
						if i == p.node {
							cl = "retained-store-differs-on-origin"
						}
						if p.retain == 2 {
							cl += "-after-clear"
						}
						c.Violate("retained", cl, cas(), strings.Join(want, ","), fmt.Sprintf("node %d: %s", i+1, strings.Join(have, ",")))
						return
					}
				}
			}
		}
		cur = ""
		for _, n := range nodes {
			swallowedPanic(c, n.w, cas)
			n.fn.Stop()
		}
		vsched.Settle()
	})
}

func runC17(c *explore.Ctx) {
	c.Level = "model_checking"
	c.Rule = "E2: 3 real in-process brokers, each with the real federation plugin code attached in-package (serf replaced by direct join calls, gRPC by a reliable in-memory transport), one subscriber and one publisher client per node. Every distribution of <=3 (thorough 4) subscriptions from {a, a/#, +, $share/g/a, $share/h/a, $SYS/a} over the nodes (optionally followed by an UNSUBSCRIBE, or by a publish and the end of one subscriber's session), propagation settled, then the whole publish battery (every origin node x topic {a, a/b, $SYS/a} x {plain, retained, retained-empty}, incl. an empty retained message for a topic that retains nothing - never set, or cleared before - and a replaced retained message); per publish: forwarded to exactly the nodes with a matching subscription (retained: all peers), once, never back; every matching non-shared subscriber gets it once; each share group gets exactly one copy federation-wide; retained stores of all nodes equal."
	c.Trusted = []string{"fake serf/gRPC (reliable here); vsched default schedule", "refmqtt"}
	if rc := replayCase(c); rc != nil {
		c.Fatal("C17 replay: re-run ./run.sh C17 quick (%v)", rc)
		return
	}
	nNodes := 3
	maxSubs := 3
	if !c.Quick() {
		maxSubs = 4
	}
	var cands []c17Sub
	for n := 0; n < nNodes; n++ {
		for _, f := range c17Filters {
			cands = append(cands, c17Sub{n, f})
		}
	}
	var pubs []c17Pub
	for n := 0; n < nNodes; n++ {
		for _, t := range []string{"a", "a/b", "$SYS/a"} {
			pubs = append(pubs, c17Pub{n, t, 0})
		}
	}
	// an empty retained message for a topic nobody retains (first thing, and again after a clear)
	pubs = append(pubs, c17Pub{0, "a", 2})
	for n := 0; n < nNodes; n++ {
		pubs = append(pubs, c17Pub{n, "a", 1}, c17Pub{n, "a", 0}, c17Pub{(n + 1) % nNodes, "a", 2}, c17Pub{(n + 2) % nNodes, "a", 2})
	}
	pubs = append(pubs, c17Pub{1, "a/b", 1}, c17Pub{1, "a/b", 1}, c17Pub{1, "a/b", 2}, c17Pub{1, "a/b", 2})
	var dists [][]c17Sub
	var rec func(start int, cur []c17Sub)
	rec = func(start int, cur []c17Sub) {
		dists = append(dists, append([]c17Sub{}, cur...))
		if len(cur) == maxSubs {
			return
		}
		for i := start; i < len(cands); i++ {
			// keep the larger tables to the filters that interact ($SYS/a only in tables of <=2)
			if len(cur) >= 2 && (cands[i].filter == "$SYS/a" || cur[1].filter == "$SYS/a" || cur[0].filter == "$SYS/a") {
				continue
			}
			rec(i+1, append(cur, cands[i]))
		}
	}
	rec(0, nil)
	c.Extra["nodes"] = nNodes
	c.Extra["subscription_distributions"] = len(dists)
	c.Extra["publishes_per_distribution"] = len(pubs)
	c.Units("distributions", len(dists), func(u int) {
		c17World(c, nNodes, dists[u], false, pubs)
		if len(dists[u]) == 2 {
			c17World(c, nNodes, dists[u], true, pubs[:nNodes*3])
			c17World(c, nNodes, dists[u], false, pubs[:nNodes*3], true)
		}
		if u%37 == 0 {
			var ss []string
			for _, s := range dists[u] {
				ss = append(ss, s.String())
			}
			c.Sample(map[string]any{"nodes": nNodes, "subscriptions": ss, "publishes": len(pubs)})
		}
	})
	c.Count("traces_validated_against_impl", c.Get("executions"))
}
