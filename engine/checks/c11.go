package checks

import (
	"fmt"
	"strings"
	"time"

	"github.com/DrmagicE/gmqtt/persistence/subscription"
	"github.com/DrmagicE/gmqtt/server"
	"github.com/DrmagicE/gmqtt/zzverif/vsched"

	"verif/explore"
	"verif/harness"
	"verif/refmqtt"
)

func init() { register("C11", runC11) }

var c11Topics = []string{"a", "b", "a/b", "a/a", "a/", "/", "a/b/c", "$SYS", "$SYS/a", "$share/g/a", "a/$b", "$SYS/$a"}

func c11StoreAlphabets(quick bool) [][]string {
	as := [][]string{
		{"$share/g/a", "$share/h/a"},
		{"$share/g/a", "$share/g/+", "a"},
		{"$share/g/a", "$share/h/a", "a"},
		{"$share/g/a/b", "$share/g/a", "$share/h/a/#"},
		{"$share/g/#", "$share/g/+/b", "#"},
		{"$share/g/a", "a", "$SYS/a"},
		{"$share/g/+", "$share/h/#", "$share/g/$SYS/a"},
		{"$share/g/a/", "$share/g/a/a", "$share/h/a/a"},
	}
	if !quick {
		as = append(as,
			[]string{"$share/g/a", "$share/h/a", "$share/g/a/b", "$share/h/a/b"},
			[]string{"$share/g/a", "$share/g/+", "$share/g/#", "a"},
			[]string{"$share/g/a", "$share/h/a", "$share/i/a"},
			[]string{"$share/g/+/a", "$share/h/a/+", "a/a", "+/a"},
		)
	}
	return as
}

// c11Store is the E1 part: the shared-subscription index of the real mem store after any
// join/leave history answers "who are the current members of each group on each
// matching filter" exactly.
func c11Store(c *explore.Ctx) {
	clients := []string{"c1", "c2", "c3"}
	alphas := c11StoreAlphabets(c.Quick())
	c.Extra["store_alphabets"] = len(alphas)
	c.Units("store-bfs", len(alphas), func(u int) {
		fs := alphas[u]
		cl := clients
		if len(fs) >= 4 {
			cl = clients[:2]
		}
		res := subBFS(c, cl, fs, []int{0}, c11Topics, func(st subscription.Store, ref *refTable, hist func() any) {
			checkSubStore(c, st, ref, cl, fs, c11Topics, hist, "mem", true)
		})
		c.Count("states", int64(res.States))
		c.Count("transitions", int64(res.Transitions))
		c.Count("traces_validated_against_impl", int64(res.Transitions))
		c.Count("alphabets_closed", b2i(res.Closed))
		c.Sample(map[string]any{"alphabet_filters": fs, "clients": cl, "states": res.States, "transitions": res.Transitions, "depth": res.Depth, "closed": res.Closed})
	})
}

func runC11(c *explore.Ctx) {
	c.Level = "model_checking"
	c.Rule = "E1: explicit-state BFS to closure over join (Subscribe) / leave (Unsubscribe, UnsubscribeAll) alphabets of shared and non-shared filters on the real mem subscription store; every new state: candidate members per (group, filter) for every topic vs the reference table."
	c.Trusted = []string{"refmqtt.Match (independent MQTT 4.7 matcher)", "statekey.Dump"}
	c.Rule += " E2 (wire): every sequence of join / leave (UNSUBSCRIBE, DISCONNECT with session end, take-over with clean start, TerminateSession, session expiry) / publish operations over 3 members, 2 groups, a wildcard shared filter and a non-shared subscription up to the depth on a fresh in-process broker; for every publish EVERY value of rand.Intn (the member pick) is enumerated: exactly one current member of every group receives the message, leavers never, non-shared subscribers always, no retained replay on shared subscribe, wildcard shared filters do not match $-topics."
	c11Wire(c)
	c11Store(c)
	c.Rule += " E3: a member leaves (UNSUBSCRIBE / its connection ends / TerminateSession) and another joins while two messages are published, every schedule with <=k deviations and every random pick: no message reaches two members, a non-shared subscriber gets every message, afterwards exactly one current member is picked."
	c11Race(c)
}

// ---- E2: wire level, every rand.Intn pick enumerated

var c11Ops = []string{
	"m1 joins $share/g/a (q1 id11)", "m2 joins $share/g/a (q0 id22)", "m3 joins $share/g/a (q2 id33)", "m1 joins $share/h/a (q2 id14)", "m2 subscribes a (q1 id25)", "m3 joins $share/g/# (q1 id36)",
	"m1 UNSUBSCRIBE $share/g/a", "m2 DISCONNECT (session ends)", "m3 taken over with clean start", "TerminateSession(m1)", "m3 closes and its session expires",
	"publish a", "publish $SYS/a",
	"m1 DISCONNECT with Session Expiry 0 (its session, connected with expiry 100, ends)",
}

type c11Member struct {
	cl     *harness.Client
	online bool
	subs   map[string]c11Sub // full filter -> granted qos, subscription identifier
}

type c11Sub struct {
	qos byte
	id  uint32
}

func c11WireBody(seq []int, report func(rule, class, want, got string), applied *int) func() {
	return func() {
		*applied = 0
		w := harness.NewWorld(harness.DefaultConfig(), server.Hooks{})
		if w.InitErr != nil {
			report("init", "failed", "", w.InitErr.Error())
			return
		}
		p := w.Dial("P")
		p.Connect(harness.ConnectOpts{ClientID: "pub", Clean: true, Version: refmqtt.V5})
		// a retained message on the topic: no shared SUBSCRIBE (first or repeated) may replay it
		p.Send(&refmqtt.Packet{Type: refmqtt.PUBLISH, Topic: "a", QoS: 0, Retain: true, Payload: []byte("kept")})
		vsched.Settle()
		ms := make([]*c11Member, 3)
		expiry := []uint32{100, 0, 5}
		connect := func(i int, name string) {
			cl := w.Dial(name)
			o := harness.ConnectOpts{ClientID: fmt.Sprintf("m%d", i+1), Clean: true, Version: refmqtt.V5}
			if expiry[i] != 0 {
				o.Props = &refmqtt.Props{SessionExpiry: harness.U32(expiry[i])}
			}
			cl.Connect(o)
			ms[i] = &c11Member{cl: cl, online: true, subs: map[string]c11Sub{}}
		}
		for i := range ms {
			connect(i, fmt.Sprintf("M%d", i+1))
		}
		join := func(i int, f string, q byte, id uint32) bool {
			m := ms[i]
			if !m.online {
				return false
			}
			ack, rest := m.cl.Subscribe(id, refmqtt.Sub{Filter: f, QoS: q})
			if ack == nil || ack.Codes[0] >= 0x80 {
				report("subscribe", "refused", "granted", fmt.Sprint(ack))
				return false
			}
			_, _, isShared := refmqtt.SplitShared(f)
			if isShared && len(rest) != 0 {
				cl := "packets-after-suback"
				if _, again := m.subs[f]; again {
					cl = "packets-after-suback-of-a-repeated-shared-subscribe"
				}
				report("no-retained-on-shared-subscribe", cl, "nothing", pktStrs(rest))
				return false
			}
			if !isShared {
				// the non-shared subscription gets the retained message (QoS 0, nothing to acknowledge)
				n := 0
				for _, r := range rest {
					if r != nil && r.Type == refmqtt.PUBLISH && string(r.Payload) == "kept" {
						n++
					}
				}
				if n != 1 || len(rest) != 1 {
					report("retained-on-non-shared-subscribe", fmt.Sprintf("%d-copies", n), "the retained message once", pktStrs(rest))
					return false
				}
			}
			if ack.Codes[0] != q {
				report("subscribe", "granted-qos-differs", fmt.Sprint(q), fmt.Sprint(ack.Codes[0]))
				return false
			}
			m.subs[f] = c11Sub{q, id}
			return true
		}
		npub := 0
		for i, op := range seq {
			ok := true
			switch op {
			case 0:
				ok = join(0, "$share/g/a", 1, 11)
			case 1:
				ok = join(1, "$share/g/a", 0, 22)
			case 2:
				ok = join(2, "$share/g/a", 2, 33)
			case 3:
				ok = join(0, "$share/h/a", 2, 14)
			case 4:
				ok = join(1, "a", 1, 25)
			case 5:
				ok = join(2, "$share/g/#", 1, 36)
			case 6:
				m := ms[0]
				if !m.online {
					ok = false
					break
				}
				m.cl.Send(&refmqtt.Packet{Type: refmqtt.UNSUBSCRIBE, PacketID: 50, Filters: []string{"$share/g/a"}})
				vsched.Settle()
				m.cl.Recv()
				delete(m.subs, "$share/g/a")
			case 7:
				m := ms[1]
				if !m.online {
					ok = false
					break
				}
				m.cl.Send(&refmqtt.Packet{Type: refmqtt.DISCONNECT})
				vsched.Settle()
				m.cl.Close()
				vsched.Settle()
				m.online, m.subs = false, map[string]c11Sub{}
			case 8:
				if !ms[2].online {
					ok = false
					break
				}
				connect(2, fmt.Sprintf("M3-%d", i))
			case 9:
				w.Srv.ClientService().TerminateSession("m1")
				vsched.Settle()
				ms[0].online, ms[0].subs = false, map[string]c11Sub{}
			case 10:
				m := ms[2]
				if !m.online {
					ok = false
					break
				}
				m.cl.Close()
				vsched.Settle()
				vsched.Advance(26 * time.Second)
				m.online, m.subs = false, map[string]c11Sub{}
			case 13:
				m := ms[0]
				if !m.online {
					ok = false
					break
				}
				m.cl.Send(&refmqtt.Packet{Type: refmqtt.DISCONNECT, Props: &refmqtt.Props{SessionExpiry: harness.U32(0)}})
				vsched.Settle()
				m.cl.Close()
				vsched.Settle()
				m.online, m.subs = false, map[string]c11Sub{}
			case 11, 12:
				topic := "a"
				if op == 12 {
					topic = "$SYS/a"
				}
				npub++
				pl := fmt.Sprintf("x%d", npub)
				p.Send(&refmqtt.Packet{Type: refmqtt.PUBLISH, Topic: topic, QoS: 2, PacketID: uint16(npub), Payload: []byte(pl)})
				vsched.Settle()
				p.Recv()
				p.Send(&refmqtt.Packet{Type: refmqtt.PUBREL, PacketID: uint16(npub)})
				vsched.Settle()
				p.Recv()
				// collect
				type copyT struct {
					m   int
					qos byte
					ids []uint32
				}
				var copies []copyT
				for mi, m := range ms {
					if !m.online {
						continue
					}
					for _, r := range m.cl.Recv() {
						if r.P != nil && r.P.Type == refmqtt.PUBLISH && string(r.P.Payload) == pl {
							cp := copyT{m: mi, qos: r.P.QoS}
							if r.P.Props != nil {
								cp.ids = r.P.Props.SubIDs
							}
							copies = append(copies, cp)
							if r.P.QoS == 1 {
								m.cl.Send(&refmqtt.Packet{Type: refmqtt.PUBACK, PacketID: r.P.PacketID})
							}
							if r.P.QoS == 2 {
								m.cl.Send(&refmqtt.Packet{Type: refmqtt.PUBREC, PacketID: r.P.PacketID})
							}
						}
						if r.P != nil && r.P.Type == refmqtt.PUBREL {
							m.cl.Send(&refmqtt.Packet{Type: refmqtt.PUBCOMP, PacketID: r.P.PacketID})
						}
					}
				}
				vsched.Settle()
				for _, m := range ms {
					if !m.online {
						continue
					}
					for _, r := range m.cl.Recv() {
						if r.P != nil && r.P.Type == refmqtt.PUBREL {
							m.cl.Send(&refmqtt.Packet{Type: refmqtt.PUBCOMP, PacketID: r.P.PacketID})
						}
					}
				}
				vsched.Settle()
				// expectation: one copy per (group, filter) with >=1 current member, to a current member,
				// at min(1, member qos); plus one per matching non-shared subscriber (onlyonce)
				per := make([]int, len(ms))
				for _, cp := range copies {
					per[cp.m]++
				}
				groups := map[string][]int{}
				nonShared := make([]int, len(ms))
				for mi, m := range ms {
					for f := range m.subs {
						g, filt, sh := refmqtt.SplitShared(f)
						if !refmqtt.Match(topic, filt) {
							continue
						}
						if sh {
							groups[g+"|"+filt] = append(groups[g+"|"+filt], mi)
						} else {
							nonShared[mi] = 1
						}
					}
				}
				total := 0
				for mi := range ms {
					extra := per[mi] - nonShared[mi]
					if extra < 0 {
						report("delivery", "non-shared-subscriber-missed-message", fmt.Sprint(nonShared), fmt.Sprint(per))
						return
					}
					// a member can be picked by at most the number of groups it is in
					ng := 0
					for _, mem := range groups {
						for _, x := range mem {
							if x == mi {
								ng++
							}
						}
					}
					if extra > ng {
						cl := "copy-for-a-client-that-is-not-a-current-member"
						if topic == "$SYS/a" {
							cl = "wildcard-shared-filter-matched-a-$-topic"
						}
						report("delivery", cl, fmt.Sprintf("member %d in %d matching groups", mi+1, ng), fmt.Sprint(per))
						return
					}
					total += extra
				}
				if total != len(groups) {
					cl := fmt.Sprintf("groups-with-members-%d-copies-%d", len(groups), total)
					if total < len(groups) {
						cl = "group-with-live-members-got-no-copy"
					} else {
						cl = "group-got-more-than-one-copy"
					}
					report("delivery", cl, fmt.Sprintf("one copy per group %v", groups), fmt.Sprint(per))
					return
				}
				// every copy a member received must be the copy of one of ITS OWN matching
				// subscriptions: QoS min(2, its granted QoS) and its own subscription identifier;
				// distinct copies stand for distinct subscriptions of that member
				for mi, m := range ms {
					type want struct {
						f   string
						qos byte
						id  uint32
					}
					var wants []want
					for f, si := range m.subs {
						_, filt, _ := refmqtt.SplitShared(f)
						if refmqtt.Match(topic, filt) {
							wants = append(wants, want{f, si.qos, si.id})
						}
					}
					for _, cp := range copies {
						if cp.m != mi {
							continue
						}
						hit := -1
						for k, wt := range wants {
							if cp.qos == wt.qos && len(cp.ids) == 1 && cp.ids[0] == wt.id {
								hit = k
								break
							}
						}
						if hit < 0 {
							cl := "copy-matches-no-subscription-of-the-receiver"
							for _, wt := range wants {
								if len(cp.ids) == 1 && cp.ids[0] == wt.id {
									cl = "copy-qos-is-not-min-of-published-and-the-members-granted-qos"
								}
							}
							for mj, o := range ms {
								for _, si := range o.subs {
									if mj != mi && len(cp.ids) == 1 && cp.ids[0] == si.id {
										cl = "copy-carries-another-members-subscription"
									}
								}
							}
							report("delivery", cl, fmt.Sprintf("member %d: one of (filter qos id) %v", mi+1, wants), fmt.Sprintf("qos %d ids %v", cp.qos, cp.ids))
							return
						}
						wants = append(wants[:hit], wants[hit+1:]...)
					}
				}
			}
			if !ok {
				return
			}
			*applied = i + 1
		}
		if pn := w.SwallowedPanic(); pn != "" {
			report("no-panic", "recovered: "+trimTo(pn, 80), "no panic", pn)
		}
	}
}

func c11Wire(c *explore.Ctx) {
	depth := 4
	if !c.Quick() {
		depth = 5
	}
	c.Extra["wire_depth"] = depth
	treeUnits(c, "wire", len(c11Ops), depth, func(seq []int) int {
		// only sequences that end with a publish are informative; others are prefixes
		names := func() []string {
			out := make([]string, len(seq))
			for i, e := range seq {
				out[i] = c11Ops[e]
			}
			return out
		}
		applied := 0
		var problems [][4]string
		body := c11WireBody(seq, func(rule, class, want, got string) { problems = append(problems, [4]string{rule, class, want, got}) }, &applied)
		maxApplied := 0
		n := explore.EnumerateFree(c, "c11-wire", func() { problems = nil; body() }, func(r *vsched.Result, choices []int) {
			cas := map[string]any{"part": "wire", "ops": names(), "seq": append([]int{}, seq...), "choices": choices}
			if r.Panic != "" {
				c.Violate("no-panic", panicClass(r.Panic), cas, "no panic", firstLines(r.Panic, 10))
			}
			if r.Deadlock {
				c.Violate("no-deadlock", "harness-blocked@"+r.ParkedMain, cas, "completes", strings.Join(r.Parked, ","))
			}
			for _, p := range problems {
				c.Violate(p[0], p[1], cas, p[2], p[3])
			}
			if applied > maxApplied {
				maxApplied = applied
			}
		})
		c.Count("rand_pick_executions", int64(n))
		return maxApplied
	})
}
