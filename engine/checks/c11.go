package checks

import (
	"github.com/DrmagicE/gmqtt/persistence/subscription"

	"verif/explore"
)

func init() { register("C11", runC11) }

var c11Topics = []string{"a", "b", "a/b", "a/a", "a/", "/", "a/b/c", "$SYS", "$SYS/a", "$share/g/a"}

func c11StoreAlphabets(quick bool) [][]string {
	as := [][]string{
		{"$share/g/a", "$share/h/a"},
		{"$share/g/a", "$share/g/+", "a"},
		{"$share/g/a", "$share/h/a", "a"},
		{"$share/g/a/b", "$share/g/a", "$share/h/a/#"},
		{"$share/g/#", "$share/g/+/b", "#"},
		{"$share/g/a", "a", "$SYS/a"},
		{"$share/g/+", "$share/h/#", "$share/g/$SYS/a"},
		{"$share/g/a/", "$share/g/a/a", "$share/h/a/a"},
	}
	if !quick {
		as = append(as,
			[]string{"$share/g/a", "$share/h/a", "$share/g/a/b", "$share/h/a/b"},
			[]string{"$share/g/a", "$share/g/+", "$share/g/#", "a"},
			[]string{"$share/g/a", "$share/h/a", "$share/i/a"},
			[]string{"$share/g/+/a", "$share/h/a/+", "a/a", "+/a"},
		)
	}
	return as
}

// c11Store is the E1 part: the shared-subscription index of the real mem store after any
// join/leave history answers "who are the current members of each group on each
// matching filter" exactly.
func c11Store(c *explore.Ctx) {
	clients := []string{"c1", "c2", "c3"}
	alphas := c11StoreAlphabets(c.Quick())
	c.Extra["store_alphabets"] = len(alphas)
	c.Units("store-bfs", len(alphas), func(u int) {
		fs := alphas[u]
		cl := clients
		if len(fs) >= 4 {
			cl = clients[:2]
		}
		res := subBFS(c, cl, fs, []int{0}, c11Topics, func(st subscription.Store, ref *refTable, hist func() any) {
			checkSubStore(c, st, ref, cl, fs, c11Topics, hist, "mem", true)
		})
		c.Count("states", int64(res.States))
		c.Count("transitions", int64(res.Transitions))
		c.Count("traces_validated_against_impl", int64(res.Transitions))
		c.Count("alphabets_closed", b2i(res.Closed))
		c.Sample(map[string]any{"alphabet_filters": fs, "clients": cl, "states": res.States, "transitions": res.Transitions, "depth": res.Depth, "closed": res.Closed})
	})
}

func runC11(c *explore.Ctx) {
	c.Level = "model_checking"
	c.Rule = "E1: explicit-state BFS to closure over join (Subscribe) / leave (Unsubscribe, UnsubscribeAll) alphabets of shared and non-shared filters on the real mem subscription store; every new state: candidate members per (group, filter) for every topic vs the reference table."
	c.Trusted = []string{"refmqtt.Match (independent MQTT 4.7 matcher)", "statekey.Dump"}
	c11Store(c)
}
