package checks

import (
	"context"
	"errors"
	"fmt"
	"strings"

	"github.com/DrmagicE/gmqtt/pkg/codes"
	"github.com/DrmagicE/gmqtt/server"
	"github.com/DrmagicE/gmqtt/zzverif/vsched"

	"verif/explore"
	"verif/harness"
	"verif/refmqtt"
)

// Inbound Receive Maximum as an operation-sequence search: the client's view of its
// own quota (QoS>0 PUBLISH packets it sent for which it has not yet received PUBACK,
// PUBCOMP or a failing PUBREC) is the reference; staying at or below the advertised
// Receive Maximum must never disconnect it, the first packet beyond it must be
// answered with DISCONNECT 0x93.

var c13QuotaEvents = []string{"publish(q1)", "publish(q2)", "publish(q2,hook-refuses-plain-error)", "publish(q2,hook-refuses-0x87)", "publish(q1,hook-refuses-plain-error)", "PUBREL(oldest)", "publish(q1,hook-refuses-0x87)"}

func c13Quota(c *explore.Ctx, r uint16, seq []int) int {
	cas := func() any {
		names := make([]string, len(seq))
		for i, e := range seq {
			names[i] = c13QuotaEvents[e]
		}
		return map[string]any{"part": "inbound-quota", "server_receive_maximum": r, "seq": append([]int{}, seq...), "events": names}
	}
	applied := 0
	execBody(c, "C13", cas, func() {
		cfg := harness.DefaultConfig()
		cfg.MQTT.ReceiveMax = r
		hooks := server.Hooks{OnMsgArrived: func(ctx context.Context, cl server.Client, req *server.MsgArrivedRequest) error {
			switch {
			case strings.HasPrefix(string(req.Publish.Payload), "plain"):
				return errors.New("refused")
			case strings.HasPrefix(string(req.Publish.Payload), "code"):
				return codes.NewError(codes.NotAuthorized)
			}
			return nil
		}}
		w := harness.NewWorld(cfg, hooks)
		watch := w.Dial("W")
		watch.Connect(harness.ConnectOpts{ClientID: "watch", Clean: true, Version: refmqtt.V311})
		watch.Subscribe(0, refmqtt.Sub{Filter: "#", QoS: 0})
		x := w.Dial("X")
		ack := x.Connect(harness.ConnectOpts{ClientID: "x", Clean: true, Version: refmqtt.V5})
		if ack == nil || ack.Code != 0 {
			c.Violate("config", "connect-refused", cas(), "CONNACK success", fmt.Sprint(ack))
			return
		}
		adv := uint16(65535)
		if ack.Props != nil && ack.Props.ReceiveMax != nil {
			adv = *ack.Props.ReceiveMax
		}
		if adv != r {
			c.Violate("inbound-receive-maximum", "advertised-differs-from-configured", cas(), fmt.Sprint(r), fmt.Sprint(adv))
			return
		}
		var outstanding []uint16
		pid := uint16(0)
		for i, e := range seq {
			if e == 5 {
				if len(outstanding) == 0 {
					return
				}
				id := outstanding[0]
				x.Send(&refmqtt.Packet{Type: refmqtt.PUBREL, PacketID: id})
				vsched.Settle()
				ok := false
				for _, rx := range x.Recv() {
					if rx.P != nil && rx.P.Type == refmqtt.PUBCOMP && rx.P.PacketID == id {
						ok = true
					}
				}
				if !ok || x.ClosedByBroker() {
					c.Violate("inbound-receive-maximum", "pubrel-not-completed", cas(), "PUBCOMP", fmt.Sprintf("after %s closed=%v %v", c13QuotaEvents[e], x.ClosedByBroker(), w.Closeds))
					return
				}
				outstanding = outstanding[1:]
				applied = i + 1
				c.Count("transitions", 1)
				continue
			}
			qos := byte(1)
			if e >= 1 && e <= 3 {
				qos = 2
			}
			payload, wantCode := "ok", byte(0)
			switch e {
			case 2, 4:
				payload, wantCode = "plain", 0x80
			case 3, 6:
				payload, wantCode = "code", 0x87
			}
			pid++
			x.Send(&refmqtt.Packet{Type: refmqtt.PUBLISH, Topic: "q", QoS: qos, PacketID: pid, Payload: []byte(fmt.Sprintf("%s%d", payload, pid))})
			vsched.Settle()
			applied = i + 1
			c.Count("transitions", 1)
			rx := x.Recv()
			if len(outstanding) >= int(r) {
				// beyond the advertised limit
				code, dis := byte(0), false
				for _, p := range rx {
					if p.P != nil && p.P.Type == refmqtt.DISCONNECT {
						code, dis = p.P.Code, true
					}
				}
				if !dis || code != 0x93 || !x.ClosedByBroker() {
					c.Violate("inbound-receive-maximum", "excess-not-rejected-with-0x93", cas(), "DISCONNECT 0x93 then close", fmt.Sprintf("disconnect=%v code=0x%02x closed=%v after %s", dis, code, x.ClosedByBroker(), c13QuotaEvents[e]))
				}
				return
			}
			wantType := byte(refmqtt.PUBACK)
			if qos == 2 {
				wantType = refmqtt.PUBREC
			}
			got := ""
			ok := false
			for _, p := range rx {
				if p.P == nil {
					continue
				}
				got += fmt.Sprintf("%s(id %d, 0x%02x) ", refmqtt.TypeNames[p.P.Type], p.P.PacketID, p.P.Code)
				if p.P.Type == wantType && p.P.PacketID == pid && p.P.Code == wantCode {
					ok = true
				}
			}
			if x.ClosedByBroker() {
				c.Violate("inbound-receive-maximum", "client-within-limit-disconnected", cas(), fmt.Sprintf("connection stays up (%d of %d outstanding before this packet)", len(outstanding), r), fmt.Sprintf("closed after %s: %s %v", c13QuotaEvents[e], got, w.Closeds))
				return
			}
			if !ok {
				c.Violate("inbound-receive-maximum", fmt.Sprintf("wrong-acknowledgement-for-%s", strings.SplitN(c13QuotaEvents[e], "(", 2)[1]), cas(), fmt.Sprintf("%s id %d code 0x%02x", refmqtt.TypeNames[wantType], pid, wantCode), got)
				return
			}
			if qos == 2 && wantCode == 0 {
				outstanding = append(outstanding, pid)
			}
		}
		swallowedPanic(c, w, cas)
	})
	return applied
}

func c13QuotaPhase(c *explore.Ctx) {
	rs := []uint16{1, 2}
	if !c.Quick() {
		rs = append(rs, 3)
	}
	for _, r := range rs {
		r := r
		depth := int(r) + 2
		if !c.Quick() && r < 3 {
			depth += 2
		}
		treeUnits(c, fmt.Sprintf("inbound-quota-r%d", r), len(c13QuotaEvents), depth, func(seq []int) int {
			n := c13Quota(c, r, seq)
			if n == len(seq) {
				c.Count("states", 1)
			}
			return n
		})
	}
}
