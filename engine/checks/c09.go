package checks

import (
	"fmt"
	"math"
	"runtime"
	"sort"
	"strings"
	"time"

	"github.com/DrmagicE/gmqtt"
	"github.com/DrmagicE/gmqtt/config"
	"github.com/DrmagicE/gmqtt/persistence/subscription"
	"github.com/DrmagicE/gmqtt/server"
	"github.com/DrmagicE/gmqtt/zzverif/vsched"

	"verif/explore"
	"verif/harness"
	"verif/refmqtt"
)

func init() { register("C09", runC09) }

var c09Events = []string{"S.connect(clean0)", "S.subscribe(t,q1)", "S.subscribe($share/g/t,q2,id7)", "S.unsubscribe(t)", "P.connect(clean0)", "P.publish(q1)", "P.publish(q2)", "P.pubrel", "S.ack-step", "S.close", "two clients without session expiry ('a0', 'm0') connect and stay", "S.subscribe(t,q2,id9,no-local): renews the options of t"}

const c09Sub, c09Pub = "sub1", "a1"

type c09SubOp struct {
	filter   string
	sub      bool
	req, ack int64
	qos      byte
	id       uint32
	noLocal  bool
}

type c09Msg struct {
	payload  string
	qos      byte
	pid      uint16
	reqStamp int64
	pubAck   int64  // PUBACK / PUBREC written by the broker
	pubrel   int64  // publisher sent PUBREL
	pubcomp  int64  // PUBCOMP written by the broker
	subDone  int64  // subscriber sent its final ack (PUBACK / PUBCOMP)
	subRec   int64  // subscriber sent PUBREC (QoS2)
	subPid   uint16 // packet identifier of the delivery the subscriber answered with PUBREC
}

type c09Hist struct {
	journal  []harness.RespCmd
	connack  map[string]int64
	subops   []c09SubOp
	msgs     []*c09Msg
	runPanic string
}

func c09Config(addr string, db int) config.Config {
	cfg := harness.DefaultConfig()
	cfg.Persistence.Type = config.PersistenceTypeRedis
	cfg.Persistence.Redis.Addr = addr
	cfg.Persistence.Redis.Database = uint(db)
	return cfg
}

var c09Respd *harness.Respd
var c09Runs int

// c09DB returns a logical database of the process-wide RESP server preloaded with cmds.
func c09DB(c *explore.Ctx, cmds []harness.RespCmd) (rd *harness.Respd, db int) {
	if c09Respd == nil {
		r, err := harness.NewRespd()
		if err != nil {
			c.Fatal("respd: %v", err)
			return nil, 0
		}
		c09Respd = r
		r.Virtual() // inside executions gmqtt reaches it through in-scheduler pipes
	}
	c09Runs++
	if c09Runs%200 == 0 {
		runtime.GC() // finalise the client sockets of finished executions
	}
	return c09Respd, c09Respd.NewDB(cmds)
}

func stampOf(cl *harness.Client, t byte, pid uint16) int64 {
	cl.Pump()
	for i := len(cl.Inbox) - 1; i >= 0; i-- {
		r := cl.Inbox[i]
		if r.P != nil && r.P.Type == t && (pid == 0 || r.P.PacketID == pid) {
			return r.Stamp
		}
	}
	return 0
}

// c09Phase1 runs the history on a fresh broker over a fresh respd.
func c09Phase1(c *explore.Ctx, seq []int, cas func() any) (*c09Hist, int) {
	h := &c09Hist{connack: map[string]int64{}}
	applied := 0
	rd, db := c09DB(c, nil)
	if rd == nil {
		return nil, 0
	}
	defer rd.DropDB(db)
	body := func() {
		w := harness.NewWorld(c09Config(rd.Addr(), db), server.Hooks{})
		if w.InitErr != nil {
			c.Violate("startup", "init-fails-on-empty-store", cas(), "Init succeeds", w.InitErr.Error())
			return
		}
		var S, P *harness.Client
		sOn, pOn := false, false
		ephemeral := false
		exp := func() *refmqtt.Props { return &refmqtt.Props{SessionExpiry: harness.U32(3600)} }
		npub := 0
		type deliv struct {
			pid  uint16
			qos  byte
			m    *c09Msg
			recd bool
		}
		var pending []*deliv // deliveries S has received and not completed
		syncDeliveries := func() {
			if !sOn {
				return
			}
			for _, r := range S.Recv() {
				if r.P == nil || r.P.Type != refmqtt.PUBLISH || r.P.QoS == 0 {
					continue
				}
				known := false
				for _, d := range pending {
					if d.pid == r.P.PacketID {
						known = true
					}
				}
				if known {
					continue
				}
				var m *c09Msg
				for _, x := range h.msgs {
					if x.payload == string(r.P.Payload) {
						m = x
					}
				}
				pending = append(pending, &deliv{pid: r.P.PacketID, qos: r.P.QoS, m: m})
			}
		}
		for i, e := range seq {
			valid := true
			switch e {
			case 0:
				if sOn {
					valid = false
					break
				}
				S = w.Dial(fmt.Sprintf("S%d", i))
				ack := S.Connect(harness.ConnectOpts{ClientID: c09Sub, Clean: false, Version: refmqtt.V5, Props: exp()})
				if ack == nil || ack.Code != 0 {
					c.Violate("history", "subscriber-connect-refused", cas(), "CONNACK", fmt.Sprint(ack, w.Closeds))
					return
				}
				if h.connack[c09Sub] == 0 {
					h.connack[c09Sub] = S.Inbox[0].Stamp
				}
				sOn = true
				pending = nil
			case 1, 2, 11:
				if !sOn {
					valid = false
					break
				}
				f, q, id, nl := "t", byte(1), uint32(0), false
				if e == 2 {
					f, q, id = "$share/g/t", 2, 7
				}
				if e == 11 {
					q, id, nl = 2, 9, true
				}
				op := c09SubOp{filter: f, sub: true, req: vsched.Stamp(), qos: q, id: id, noLocal: nl}
				pid := S.PID()
				p := &refmqtt.Packet{Type: refmqtt.SUBSCRIBE, PacketID: pid, Subs: []refmqtt.Sub{{Filter: f, QoS: q, NoLocal: nl}}}
				if id != 0 {
					p.Props = &refmqtt.Props{SubIDs: []uint32{id}}
				}
				S.Send(p)
				vsched.Settle()
				op.ack = stampOf(S, refmqtt.SUBACK, pid)
				h.subops = append(h.subops, op)
			case 3:
				if !sOn {
					valid = false
					break
				}
				op := c09SubOp{filter: "t", sub: false, req: vsched.Stamp()}
				pid := S.PID()
				S.Send(&refmqtt.Packet{Type: refmqtt.UNSUBSCRIBE, PacketID: pid, Filters: []string{"t"}})
				vsched.Settle()
				op.ack = stampOf(S, refmqtt.UNSUBACK, pid)
				h.subops = append(h.subops, op)
			case 4:
				if pOn {
					valid = false
					break
				}
				P = w.Dial(fmt.Sprintf("P%d", i))
				ack := P.Connect(harness.ConnectOpts{ClientID: c09Pub, Clean: false, Version: refmqtt.V5, Props: exp()})
				if ack == nil || ack.Code != 0 {
					c.Violate("history", "publisher-connect-refused", cas(), "CONNACK", fmt.Sprint(ack, w.Closeds))
					return
				}
				if h.connack[c09Pub] == 0 {
					h.connack[c09Pub] = P.Inbox[0].Stamp
				}
				pOn = true
			case 5, 6:
				if !pOn {
					valid = false
					break
				}
				npub++
				m := &c09Msg{payload: fmt.Sprintf("m%d", npub), qos: byte(e - 4), pid: uint16(npub), reqStamp: vsched.Stamp()}
				P.Send(&refmqtt.Packet{Type: refmqtt.PUBLISH, Topic: "t", QoS: m.qos, PacketID: m.pid, Payload: []byte(m.payload)})
				vsched.Settle()
				t := byte(refmqtt.PUBACK)
				if m.qos == 2 {
					t = refmqtt.PUBREC
				}
				m.pubAck = stampOf(P, t, m.pid)
				h.msgs = append(h.msgs, m)
			case 7:
				var m *c09Msg
				for _, x := range h.msgs {
					if x.qos == 2 && x.pubrel == 0 && x.pubAck != 0 {
						m = x
						break
					}
				}
				if !pOn || m == nil {
					valid = false
					break
				}
				m.pubrel = vsched.Stamp()
				P.Send(&refmqtt.Packet{Type: refmqtt.PUBREL, PacketID: m.pid})
				vsched.Settle()
				m.pubcomp = stampOf(P, refmqtt.PUBCOMP, m.pid)
			case 8:
				syncDeliveries()
				if !sOn || len(pending) == 0 {
					valid = false
					break
				}
				d := pending[0]
				switch {
				case d.qos == 1:
					if d.m != nil {
						d.m.subDone = vsched.Stamp()
					}
					S.Send(&refmqtt.Packet{Type: refmqtt.PUBACK, PacketID: d.pid})
					pending = pending[1:]
				case !d.recd:
					if d.m != nil {
						d.m.subRec = vsched.Stamp()
						d.m.subPid = d.pid
					}
					S.Send(&refmqtt.Packet{Type: refmqtt.PUBREC, PacketID: d.pid})
					d.recd = true
				default:
					if d.m != nil {
						d.m.subDone = vsched.Stamp()
					}
					S.Send(&refmqtt.Packet{Type: refmqtt.PUBCOMP, PacketID: d.pid})
					pending = pending[1:]
				}
				vsched.Settle()
			case 9:
				if !sOn {
					valid = false
					break
				}
				S.Close()
				vsched.Settle()
				sOn = false
			case 10:
				// clients whose session ends with the connection: their records are in the store at
				// the moment of the crash, sorted before / between the persistent ones
				if ephemeral {
					valid = false
					break
				}
				ephemeral = true
				for _, id := range []string{"a0", "m0"} {
					E := w.Dial(fmt.Sprintf("E%s%d", id, i))
					if ack := E.Connect(harness.ConnectOpts{ClientID: id, Clean: true, Version: refmqtt.V5}); ack == nil || ack.Code != 0 {
						c.Violate("history", "ephemeral-connect-refused", cas(), "CONNACK", fmt.Sprint(ack, w.Closeds))
						return
					}
				}
			}
			if !valid {
				return
			}
			syncDeliveries()
			applied = i + 1
		}
		if p := w.SwallowedPanic(); p != "" {
			c.Violate("no-panic", "recovered: "+trimTo(p, 90), cas(), "no panic", p)
		}
	}
	ok := true
	if c09Inline {
		body() // already inside an execution of the schedule search
	} else {
		ok = execBody(c, "C09", cas, body)
	}
	if !ok {
		return nil, applied
	}
	h.journal = append([]harness.RespCmd{}, rd.Journal...)
	return h, applied
}

// c09Inline: c09Phase1 is being run as the body of a schedule search (E3) instead of
// as an execution of its own.
var c09Inline bool

// c09Schedules: short histories are run under every schedule with <=1 deviation (the
// storage commands and the acknowledgements are issued by different goroutines, so their
// relative order is a matter of scheduling), and every crash point of every such
// execution is evaluated like those of the default schedule.
func c09Schedules(c *explore.Ctx) {
	hists := [][]int{{0, 1, 4, 6, 7}, {0, 1, 4, 5, 8}, {0, 1, 4, 6, 7, 8}}
	if c.Quick() {
		hists = hists[:2]
	}
	for hi, seq := range hists {
		seq := seq
		var h *c09Hist
		applied := 0
		names := make([]string, len(seq))
		for i, e := range seq {
			names[i] = c09Events[e]
		}
		var choices []int
		cas := func() any {
			return map[string]any{"seq": append([]int{}, seq...), "events": names, "schedule_choices": choices, "deviation_bound": 1}
		}
		explore.DFS(c, explore.DFSConfig{Name: fmt.Sprintf("c09-schedules-%d", hi), Bound: 1, ShardDepth: 1,
			Body: func() {
				c09Inline = true
				defer func() { c09Inline = false }()
				h, applied = c09Phase1(c, seq, cas)
			},
			Check: func(r *vsched.Result, ch []int) {
				choices = ch
				if r.Panic != "" {
					c.Violate("no-panic", panicClass(r.Panic), cas(), "no panic", firstLines(r.Panic, 12))
					return
				}
				if r.Deadlock || h == nil || applied < len(seq) {
					return
				}
				c.Count("schedules_with_crash_points", 1)
				c.Count("distinct_nontrivial", int64(len(h.journal)))
				for k := 0; k <= len(h.journal); k++ {
					c09Phase2(c, h, k, cas, true)
					c09Phase2(c, h, k, cas, false)
				}
			}})
	}
}

// c09Phase2 restarts a fresh broker on the store as it was after k journal commands.
// resend: the publisher retransmits the QoS 2 PUBLISH packets that await PUBREL before
// completing them (true) or goes straight to PUBREL, as a client that had received
// PUBREC before the crash does (false).
func c09Phase2(c *explore.Ctx, h *c09Hist, k int, cas0 func() any, resend bool) {
	crash := int64(math.MaxInt64)
	if k < len(h.journal) {
		crash = h.journal[k].Stamp
	}
	cas := func() any {
		m := cas0().(map[string]any)
		m["crash_after_commands"] = k
		m["publisher_retransmits_publish_after_restart"] = resend
		m["downtime_minutes"] = map[bool]int{true: 90, false: 0}[resend]
		m["journal_length"] = len(h.journal)
		if k > 0 {
			m["last_command_before_crash"] = h.journal[k-1].String()
		}
		if k < len(h.journal) {
			m["first_lost_command"] = h.journal[k].String()
		}
		return m
	}
	before := func(s int64) bool { return s != 0 && s < crash }
	rd, db := c09DB(c, h.journal[:k])
	if rd == nil {
		return
	}
	defer rd.DropDB(db)
	c.Count("evaluations", 1)
	execBody(c, "C09", cas, func() {
		if resend {
			// the broker comes back 90 minutes later: longer than the sessions' expiry interval
			// (which is measured from the end of a connection, not from CONNECT, and the broker
			// was not there to see any connection end), shorter than the message lifetime
			vsched.Advance(90 * time.Minute)
		}
		w := harness.NewWorld(c09Config(rd.Addr(), db), server.Hooks{})
		if w.InitErr != nil {
			c.Violate("startup", "init-fails-on-intermediate-store", cas(), "Init succeeds", w.InitErr.Error())
			return
		}
		// 1. sessions
		for id, st := range h.connack {
			if !before(st) {
				continue
			}
			s, err := w.Srv.ClientService().GetSession(id)
			if err != nil || s == nil || s.ClientID != id {
				got := "nil"
				if s != nil {
					got = fmt.Sprintf("session with client id %q", s.ClientID)
				}
				c.Violate("session-survives", "acknowledged-session-missing:"+id, cas(), "session "+id, fmt.Sprint(got, err))
				return
			}
		}
		// 2. subscriptions of sub1
		have := map[string]bool{}
		haveOpts := map[string]string{}
		w.Srv.SubscriptionService().Iterate(func(cid string, s *gmqtt.Subscription) bool {
			have[cid+"|"+s.GetFullTopicName()] = true
			haveOpts[cid+"|"+s.GetFullTopicName()] = fmt.Sprintf("qos=%d id=%d no-local=%v", s.QoS, s.ID, s.NoLocal)
			return true
		}, subscription.IterationOptions{Type: subscription.TypeAll})
		filters := map[string]bool{}
		for _, op := range h.subops {
			filters[op.filter] = true
		}
		subAcked := map[string]bool{}
		for f := range filters {
			var last *c09SubOp
			indeterminate := false
			for i := range h.subops {
				op := &h.subops[i]
				if op.filter != f {
					continue
				}
				if before(op.ack) {
					last = op
					indeterminate = false
				} else if op.req < crash {
					indeterminate = true
				}
			}
			if last == nil || indeterminate {
				continue
			}
			got := have[c09Sub+"|"+f]
			// also detect the subscription filed under a mangled client id
			other := ""
			for k := range have {
				if strings.HasSuffix(k, "|"+f) && !strings.HasPrefix(k, c09Sub+"|") {
					other = k
				}
			}
			if last.sub {
				subAcked[f] = true
			}
			if got != last.sub {
				cl := "acknowledged-subscription-missing-after-restart"
				if !last.sub {
					cl = "unsubscribed-filter-present-after-restart"
				} else if other != "" {
					cl = "subscription-restored-under-different-client-id"
				}
				c.Violate("subscriptions-survive", cl, cas(), fmt.Sprintf("%s subscribed=%v", f, last.sub), fmt.Sprintf("subscribed=%v all=%v", got, keysB(have)))
				return
			}
			if last.sub {
				// ... with the options of the last acknowledged SUBSCRIBE, provided no later
				// SUBSCRIBE for the filter was under way at the crash (checked above)
				want := fmt.Sprintf("qos=%d id=%d no-local=%v", last.qos, last.id, last.noLocal)
				if g := haveOpts[c09Sub+"|"+f]; g != want {
					c.Violate("subscriptions-survive", "restored-subscription-has-other-options-than-the-last-acknowledged-subscribe", cas(), f+" "+want, g)
					return
				}
			}
		}
		// 4. QoS2 identifiers awaiting PUBREL: resend, must get PUBREC, must not be forwarded again
		var resent []*c09Msg
		var PP, SS *harness.Client
		if before(h.connack[c09Pub]) {
			P := w.Dial("P")
			PP = P
			ack := P.Connect(harness.ConnectOpts{ClientID: c09Pub, Clean: false, Version: refmqtt.V5, Props: &refmqtt.Props{SessionExpiry: harness.U32(3600)}})
			if ack == nil || ack.Code != 0 || !ack.SessionPresent {
				c.Violate("session-survives", "publisher-session-not-resumed", cas(), "Session Present 1", fmt.Sprint(ack))
				return
			}
			for _, m := range h.msgs {
				if m.qos == 2 && before(m.pubAck) && !(m.pubrel != 0 && m.pubrel < crash) {
					if !resend {
						resent = append(resent, m)
						continue
					}
					P.Send(&refmqtt.Packet{Type: refmqtt.PUBLISH, Topic: "t", QoS: 2, Dup: true, PacketID: m.pid, Payload: []byte(m.payload)})
					vsched.Settle()
					if stampOf(P, refmqtt.PUBREC, m.pid) == 0 {
						c.Violate("qos2-dedup", "retransmitted-publish-not-acknowledged", cas(), fmt.Sprintf("PUBREC(%d)", m.pid), "none")
						return
					}
					resent = append(resent, m)
				}
			}
		}
		// 3. redelivery to the subscriber
		if before(h.connack[c09Sub]) {
			S := w.Dial("S")
			SS = S
			ack := S.Connect(harness.ConnectOpts{ClientID: c09Sub, Clean: false, Version: refmqtt.V5, Props: &refmqtt.Props{SessionExpiry: harness.U32(3600)}})
			if ack == nil || ack.Code != 0 {
				c.Violate("session-survives", "subscriber-reconnect-refused", cas(), "CONNACK", fmt.Sprint(ack, w.Closeds))
				return
			}
			if !ack.SessionPresent {
				c.Violate("session-survives", "subscriber-session-not-resumed", cas(), "Session Present 1", "0")
				return
			}
			vsched.Settle()
			copies := map[string]map[uint16]bool{}
			pubrels := map[uint16]bool{}
			for _, r := range S.Recv() {
				if r.P != nil && r.P.Type == refmqtt.PUBREL {
					pubrels[r.P.PacketID] = true
				}
				if r.P != nil && r.P.Type == refmqtt.PUBLISH {
					pl := string(r.P.Payload)
					if copies[pl] == nil {
						copies[pl] = map[uint16]bool{}
					}
					copies[pl][r.P.PacketID] = true
				}
			}
			for _, m := range h.msgs {
				// the subscription on t must have been acknowledged before the publish and not removed
				subscribed := false
				for _, op := range h.subops {
					if op.filter == "t" && op.ack != 0 && op.ack < m.reqStamp {
						subscribed = op.sub
					}
					if op.filter == "t" && !op.sub && op.req > m.reqStamp {
						// unsubscribed later: queued messages stay queued; keep requirement
					}
				}
				done := m.subDone != 0 && m.subDone < crash
				if subscribed && before(m.pubAck) && !done {
					// a delivery the subscriber had answered with PUBREC continues with PUBREL
					if len(copies[m.payload]) == 0 && !(m.subRec != 0 && m.subRec < crash && pubrels[m.subPid]) {
						cl := fmt.Sprintf("acknowledged-qos%d-message-not-redelivered", m.qos)
						if m.subRec != 0 && m.subRec < crash {
							cl += "-after-pubrec"
						}
						c.Violate("messages-survive", cl, cas(), m.payload+" delivered on reconnect", fmt.Sprint("received ", keysC(copies)))
						return
					}
				}
			}
			for _, m := range resent {
				// one queue entry per subscription that matched at publish time
				max := 1
				for _, op := range h.subops {
					if op.filter == "$share/g/t" && op.ack != 0 && op.ack < m.reqStamp {
						max = 2
					}
				}
				if len(copies[m.payload]) > max {
					c.Violate("qos2-dedup", "retransmitted-publish-forwarded-again-after-restart", cas(), "at most one queue entry for "+m.payload, fmt.Sprint(len(copies[m.payload]), " distinct packet ids"))
					return
				}
			}
		}
		// 5. the restarted broker completes the open QoS 2 flows and then treats their
		// identifiers as free again: PUBREL -> PUBCOMP, and a new message sent under the same
		// identifier is forwarded (not taken for a duplicate of the pre-crash one)
		if PP != nil && SS != nil && (have[c09Sub+"|t"] || have[c09Sub+"|$share/g/t"]) {
			// flows the publisher saw completed (PUBCOMP written before the crash): their
			// identifiers are free for the publisher, whatever the broker had stored by then
			for _, m := range h.msgs {
				if m.qos != 2 || !before(m.pubcomp) {
					continue
				}
				SS.Recv()
				fresh := fmt.Sprintf("reuse-%d", m.pid)
				PP.Send(&refmqtt.Packet{Type: refmqtt.PUBLISH, Topic: "t", QoS: 2, PacketID: m.pid, Payload: []byte(fresh)})
				vsched.Settle()
				PP.Send(&refmqtt.Packet{Type: refmqtt.PUBREL, PacketID: m.pid})
				vsched.Settle()
				n := 0
				for _, r := range SS.Recv() {
					if r.P != nil && r.P.Type == refmqtt.PUBLISH && string(r.P.Payload) == fresh {
						n++
						if r.P.QoS == 1 {
							SS.Send(&refmqtt.Packet{Type: refmqtt.PUBACK, PacketID: r.P.PacketID})
						} else if r.P.QoS == 2 {
							SS.Send(&refmqtt.Packet{Type: refmqtt.PUBREC, PacketID: r.P.PacketID})
						}
					}
				}
				vsched.Settle()
				if n == 0 {
					c.Violate("qos2-dedup", "identifier-of-a-flow-completed-before-the-crash-taken-for-a-duplicate-after-restart", cas(), "new message under the completed identifier forwarded", fresh+" not forwarded")
					return
				}
			}
			for _, m := range resent {
				PP.Send(&refmqtt.Packet{Type: refmqtt.PUBREL, PacketID: m.pid})
				vsched.Settle()
				if stampOf(PP, refmqtt.PUBCOMP, m.pid) == 0 {
					c.Violate("qos2-dedup", "pubrel-after-restart-not-completed", cas(), fmt.Sprintf("PUBCOMP(%d)", m.pid), "none")
					return
				}
				SS.Recv()
				fresh := fmt.Sprintf("fresh-%d", m.pid)
				PP.Send(&refmqtt.Packet{Type: refmqtt.PUBLISH, Topic: "t", QoS: 2, PacketID: m.pid, Payload: []byte(fresh)})
				vsched.Settle()
				PP.Send(&refmqtt.Packet{Type: refmqtt.PUBREL, PacketID: m.pid})
				vsched.Settle()
				n := 0
				for _, r := range SS.Recv() {
					if r.P != nil && r.P.Type == refmqtt.PUBLISH && string(r.P.Payload) == fresh {
						n++
						if r.P.QoS == 1 {
							SS.Send(&refmqtt.Packet{Type: refmqtt.PUBACK, PacketID: r.P.PacketID})
						} else if r.P.QoS == 2 {
							SS.Send(&refmqtt.Packet{Type: refmqtt.PUBREC, PacketID: r.P.PacketID})
						}
					}
				}
				vsched.Settle()
				if n == 0 {
					c.Violate("qos2-dedup", "identifier-of-a-flow-completed-after-restart-still-taken-for-a-duplicate", cas(), "new message under the completed identifier forwarded", fmt.Sprintf("%s not forwarded (acknowledged to the publisher: %v)", fresh, stampOf(PP, refmqtt.PUBCOMP, m.pid) != 0))
					return
				}
			}
		}
		if p := w.SwallowedPanic(); p != "" {
			c.Violate("no-panic", "recovered-after-restart: "+trimTo(p, 90), cas(), "no panic", p)
		}
	})
}

func keysB(m map[string]bool) []string {
	var k []string
	for x := range m {
		k = append(k, x)
	}
	sort.Strings(k)
	return k
}

func keysC(m map[string]map[uint16]bool) []string {
	var k []string
	for x := range m {
		k = append(k, x)
	}
	sort.Strings(k)
	return k
}

func c09Run(c *explore.Ctx, seq []int) int {
	names := func() []string {
		out := make([]string, len(seq))
		for i, e := range seq {
			out[i] = c09Events[e]
		}
		return out
	}
	cas := func() any { return map[string]any{"seq": append([]int{}, seq...), "events": names()} }
	c.Count("histories", 1)
	h, applied := c09Phase1(c, seq, cas)
	if h == nil || applied < len(seq) {
		return applied
	}
	c.Count("journal_commands", int64(len(h.journal)))
	c.Count("distinct_nontrivial", int64(len(h.journal)))
	qos2 := false
	for _, m := range h.msgs {
		if m.qos == 2 {
			qos2 = true
		}
	}
	for k := 0; k <= len(h.journal); k++ {
		c09Phase2(c, h, k, cas, true)
		if qos2 {
			c09Phase2(c, h, k, cas, false)
		}
	}
	return applied
}

func runC09(c *explore.Ctx) {
	c.Level = "fault_enumeration"
	c.Rule = "E4: client histories (two persistent v5 sessions, optionally two connected clients without session expiry whose records sit next to them in the store: subscribe incl. a shared filter with subscription id, unsubscribe, QoS1/QoS2 publishes, PUBREL, subscriber ack steps, disconnect/reconnect) are enumerated as a tree (directed prefix + depth) on a real in-process broker using the redis persistence backend over an in-process RESP server that journals every write command with a logical stamp. For EVERY prefix of the journal (a crash between two storage commands) the store is rebuilt, a fresh broker is started on it, and checked: start-up succeeds; sessions whose CONNACK was sent before the crash exist under their id; subscriptions equal the SUBACK/UNSUBACK-acknowledged ones, with the options (QoS, subscription identifier, No Local) of the last acknowledged SUBSCRIBE (a filter can be re-subscribed with other options); publisher-acknowledged, subscriber-unacknowledged QoS>0 messages are redelivered on Clean Start 0; QoS2 ids awaiting PUBREL are still recognised, their flows complete on the restarted broker (PUBREL -> PUBCOMP) and a new message under the completed identifier is forwarded. E3+E4: two (thorough three) short histories are also run under every schedule with <=1 deviation and every crash point of each such execution is evaluated the same way (a storage command and the acknowledgement that depends on it are issued by different goroutines). evaluations = restarted brokers; distinct_nontrivial = journal commands (distinct crash points)."
	c.Trusted = []string{"respd: fidelity to redis for the 14 commands gmqtt issues (implemented from the command reference; real redis is not installed)", "vsched default schedule, logical stamps ordering storage commands and packets"}
	c.Assumptions = []string{"redis executes each command atomically, so crash points are command boundaries (pipelined commands are split)", "an operation whose acknowledgement had not been sent before the crash may be in either state"}
	if rc := replayCase(c); rc != nil {
		c09Run(c, intsOf(rc["seq"]))
		return
	}
	depth := 3
	if !c.Quick() {
		depth = 4
	}
	c.Extra["depth_after_directed_prefix"] = depth
	prefixes := [][]int{{0, 1, 4}, {0, 2, 1, 4}, {0, 1, 4, 6}}
	for pi, prefix := range prefixes {
		prefix := prefix
		treeUnits(c, fmt.Sprintf("directed%d", pi), len(c09Events), depth, func(seq []int) int {
			full := append(append([]int{}, prefix...), seq...)
			n := c09Run(c, full) - len(prefix)
			if n < 0 {
				return 0
			}
			if n == len(seq) && c.Get("histories")%300 == 0 {
				c.Sample(map[string]any{"history": func() []string {
					out := []string{}
					for _, e := range full {
						out = append(out, c09Events[e])
					}
					return out
				}()})
			}
			return n
		})
	}
	treeUnits(c, "initial", len(c09Events), depth+1, func(seq []int) int { return c09Run(c, seq) })
	c09Schedules(c)
	if c.Get("evaluations") > 0 {
		c.Sample(map[string]any{"note": "every history is restarted after each prefix of its storage-command journal"})
	}
}
