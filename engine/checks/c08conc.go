package checks

import (
	"context"
	"fmt"
	"time"

	"github.com/DrmagicE/gmqtt/server"
	"github.com/DrmagicE/gmqtt/zzverif/vsched"

	"verif/explore"
	"verif/harness"
	"verif/refmqtt"
)

// E3 for C08: the end of the connection races a CONNECT that re-attaches (or takes over
// and cleans) the session, and the delayed-will timer races a re-attaching CONNECT.
// The expected number of copies an independent subscriber receives does not depend on
// the schedule (except in the timer race, where only "at most one" is decided).

type c08Race struct {
	name    string
	delay   uint32 // will delay interval (s)
	ending  int    // 0 socket close, 1 DISCONNECT(0x00) then close, 2 DISCONNECT(0x04) then close, 3 no ending (pure take-over)
	clean   bool   // the racing CONNECT uses Clean Start 1
	timer   bool   // the race is between the will timer and the CONNECT (ending happens first, sequentially)
	queued  bool   // PUBLISH and DISCONNECT were sent back to back and both read by the broker before the take-over starts; the PUBLISH is held in OnMsgArrived until the race begins
	version byte
}

func (r c08Race) want() (min, max int) {
	switch {
	case r.queued:
		// the broker had read the DISCONNECT off the socket before the CONNECT was even sent:
		// whatever ends the connection afterwards, the will is suppressed
		return 0, 0
	case r.ending == 1:
		// the DISCONNECT races the CONNECT: when the take-over is processed first the will
		// is due exactly as without the DISCONNECT; when the DISCONNECT is processed first, never
		if r.delay == 0 || r.clean {
			return 0, 1
		}
		return 0, 0
	case r.timer:
		return 0, 1
	case r.delay == 0 || r.clean:
		return 1, 1
	default:
		return 0, 0 // delayed will, session re-attached before the delay passed
	}
}

func c08RaceBody(obs *concObs, r c08Race) func() {
	return func() {
		*obs = concObs{}
		hooks := server.Hooks{}
		released := false
		if r.queued {
			hooks.OnMsgArrived = func(ctx context.Context, cl server.Client, req *server.MsgArrivedRequest) error {
				if cl.ClientOptions().ClientID == "c" {
					vsched.WaitUntil("msg-arrived-held", func() bool { return released })
				}
				return nil
			}
		}
		w := harness.NewWorld(harness.DefaultConfig(), hooks)
		watch := w.Dial("W")
		watch.Connect(harness.ConnectOpts{ClientID: "watch", Clean: true, Version: refmqtt.V5})
		watch.Subscribe(0, refmqtt.Sub{Filter: "w", QoS: 0})
		opts := harness.ConnectOpts{ClientID: "c", Clean: true, Version: r.version, Will: &harness.Will{Topic: "w", Payload: []byte("bye"), QoS: 1}}
		if r.version == refmqtt.V5 {
			opts.Props = &refmqtt.Props{SessionExpiry: harness.U32(100)}
			if r.delay != 0 {
				opts.Will.Props = &refmqtt.Props{WillDelay: harness.U32(r.delay)}
			}
		} else {
			opts.Clean = false
		}
		c := w.Dial("C")
		if ack := c.Connect(opts); ack == nil || ack.Code != 0 {
			obs.bad("setup", "connect-refused", fmt.Sprint(ack))
			return
		}
		end := func() {
			switch r.ending {
			case 1:
				c.Send(&refmqtt.Packet{Type: refmqtt.DISCONNECT})
			case 2:
				c.Send(&refmqtt.Packet{Type: refmqtt.DISCONNECT, Code: 0x04})
			}
			if r.ending != 3 {
				c.Close()
			}
		}
		var n *harness.Client
		dialN := func() {
			n = w.Dial("N")
			n.Version, n.ID = r.version, "c"
		}
		nopts := harness.ConnectOpts{ClientID: "c", Clean: r.clean, Version: r.version}
		if r.version == refmqtt.V5 {
			nopts.Props = &refmqtt.Props{SessionExpiry: harness.U32(100)}
		}
		if r.queued {
			// both packets are in the broker's hands (read loop queued them) while the PUBLISH is still being handled
			c.Send(&refmqtt.Packet{Type: refmqtt.PUBLISH, Topic: "x", Payload: []byte("p")})
			c.Send(&refmqtt.Packet{Type: refmqtt.DISCONNECT})
			vsched.Settle()
			dialN()
			vsched.Settle()
			vsched.Go("release", func() { released = true })
			vsched.Go("reconnect", func() { n.Send(harness.ConnectPacket(nopts)) })
		} else if r.timer {
			end()
			vsched.Settle()
			vsched.Advance(time.Duration(r.delay)*time.Second - time.Second)
			dialN() // only now: the broker gives a new connection 5s to send CONNECT
			vsched.Settle()
			vsched.Go("clock", func() { vsched.FireNext(vsched.Now() + int64(2*time.Second)) })
			vsched.Go("reconnect", func() { n.Send(harness.ConnectPacket(nopts)) })
		} else {
			dialN()
			vsched.Settle()
			vsched.Go("ending", end)
			vsched.Go("reconnect", func() { n.Send(harness.ConnectPacket(nopts)) })
		}
		vsched.Settle()
		count := func() int {
			k := 0
			watch.Pump()
			for _, rx := range watch.Inbox {
				if rx.P != nil && rx.P.Type == refmqtt.PUBLISH && rx.P.Topic == "w" {
					k++
					if string(rx.P.Payload) != "bye" {
						obs.bad("will-content", "payload-differs", string(rx.P.Payload))
					}
				}
			}
			return k
		}
		connack := false
		for _, rx := range n.Recv() {
			if rx.P != nil && rx.P.Type == refmqtt.CONNACK && rx.P.Code == 0 {
				connack = true
			}
		}
		if !connack {
			obs.bad("liveness", "racing-connect-not-acknowledged", fmt.Sprint(w.Closeds))
		}
		k1 := count()
		vsched.Advance(time.Duration(r.delay+2) * time.Second)
		k2 := count()
		// the new connection ends normally: it has no will, nothing more may appear
		n.Send(&refmqtt.Packet{Type: refmqtt.DISCONNECT})
		vsched.Settle()
		n.Close()
		vsched.Advance(time.Duration(r.delay+2) * time.Second)
		k3 := count()
		min, max := r.want()
		if k3 < min || k3 > max {
			obs.bad("will-count", fmt.Sprintf("published-%d-want-%d..%d", k3, min, max), fmt.Sprintf("after race %d, after delay %d, after the re-attached connection ended %d", k1, k2, k3))
		}
		if p := w.SwallowedPanic(); p != "" {
			obs.bad("no-panic", "recovered: "+trimTo(p, 80), p)
		}
		obs.outcome = fmt.Sprint(k1, k2, k3)
	}
}

func c08Races(quick bool) []c08Race {
	rs := []c08Race{
		{name: "close-vs-reattach-delay0", delay: 0, ending: 0, clean: false, version: refmqtt.V5},
		{name: "close-vs-reattach-delay5", delay: 5, ending: 0, clean: false, version: refmqtt.V5},
		{name: "close-vs-cleanstart-delay5", delay: 5, ending: 0, clean: true, version: refmqtt.V5},
		{name: "disconnect-vs-reattach-delay0", delay: 0, ending: 1, clean: false, version: refmqtt.V5},
		{name: "willtimer-vs-reattach-delay5", delay: 5, ending: 0, clean: false, timer: true, version: refmqtt.V5},
		{name: "takeover-only-delay5-cleanstart", delay: 5, ending: 3, clean: true, version: refmqtt.V5},
		{name: "willtimer-vs-cleanstart-delay5", delay: 5, ending: 0, clean: true, timer: true, version: refmqtt.V5},
		{name: "queued-disconnect-vs-takeover-delay0", delay: 0, ending: 3, queued: true, clean: false, version: refmqtt.V5},
	}
	if !quick {
		rs = append(rs,
			c08Race{name: "disconnect04-vs-reattach-delay0", delay: 0, ending: 2, clean: false, version: refmqtt.V5},
			c08Race{name: "disconnect-vs-cleanstart-delay5", delay: 5, ending: 1, clean: true, version: refmqtt.V5},
			c08Race{name: "close-vs-reattach-v3", delay: 0, ending: 0, clean: false, version: refmqtt.V311},
			c08Race{name: "takeover-only-delay0", delay: 0, ending: 3, clean: false, version: refmqtt.V5},
			c08Race{name: "queued-disconnect-vs-takeover-cleanstart-delay5", delay: 5, ending: 3, queued: true, clean: true, version: refmqtt.V5},
			c08Race{name: "queued-disconnect-vs-takeover-v3", delay: 0, ending: 3, queued: true, clean: false, version: refmqtt.V311},
		)
	}
	return rs
}

func c08RacePhase(c *explore.Ctx) {
	bound := 1
	if !c.Quick() {
		bound = 2
	}
	c.Extra["e3_deviation_bound"] = bound
	var names []string
	for _, r := range c08Races(c.Quick()) {
		r := r
		obs := &concObs{}
		names = append(names, r.name)
		schedScenario(c, "e3-"+r.name, bound, func() [][3]string { return obs.problems }, func() string { return obs.outcome }, c08RaceBody(obs, r), map[string]any{"e3": r.name})
	}
	c.Extra["e3_scenarios"] = names
}

func c08RaceReplay(c *explore.Ctx, rc map[string]any) bool {
	name, ok := rc["e3"].(string)
	if !ok {
		return false
	}
	for _, r := range c08Races(false) {
		if r.name != name {
			continue
		}
		obs := &concObs{}
		res, div := explore.RunPrefix(intsOf(rc["choices"]), nil, verbose, c08RaceBody(obs, r))
		for _, l := range res.Log {
			fmt.Println(l)
		}
		fmt.Println("divergence:", div, "outcome:", obs.outcome, "panic:", firstLines(res.Panic, 8), "deadlock:", res.Deadlock, res.Parked)
		for _, p := range obs.problems {
			c.Violate(p[0], "e3-"+name+":"+p[1], rc, "property holds in every schedule", p[2])
		}
	}
	return true
}
