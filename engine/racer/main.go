// racer drives the uninstrumented broker with real goroutines over loopback TCP while
// the Go race detector watches (build with -race).  It is the separate free-running
// pass that complements the cooperative-scheduler search of C15: the scheduler's
// hand-offs are happens-before edges, so unsynchronised accesses can only be seen here.
// The race detector's reports go to GORACE log_path files; this program only
// generates the concurrent traffic and reports how much it ran.
package main

import (
	"context"
	"encoding/json"
	"flag"
	"fmt"
	"net"
	"net/http"
	"os"
	"strings"
	"sync"
	"sync/atomic"
	"time"

	"github.com/DrmagicE/gmqtt"
	"github.com/DrmagicE/gmqtt/config"
	_ "github.com/DrmagicE/gmqtt/persistence"
	"github.com/DrmagicE/gmqtt/persistence/subscription"
	"github.com/DrmagicE/gmqtt/server"
	_ "github.com/DrmagicE/gmqtt/topicalias/fifo"
	"github.com/gorilla/websocket"

	"verif/refmqtt"
)

type cli struct {
	c   net.Conn
	ver byte
	buf []byte
	mu  sync.Mutex
}

// wsConn adapts a websocket client connection to net.Conn (binary messages).
type wsConn struct {
	c   *websocket.Conn
	rd  []byte
	wmu sync.Mutex
}

func (w *wsConn) Read(p []byte) (int, error) {
	for len(w.rd) == 0 {
		_, b, err := w.c.ReadMessage()
		if err != nil {
			return 0, err
		}
		w.rd = b
	}
	n := copy(p, w.rd)
	w.rd = w.rd[n:]
	return n, nil
}
func (w *wsConn) Write(p []byte) (int, error) {
	w.wmu.Lock()
	defer w.wmu.Unlock()
	if err := w.c.WriteMessage(websocket.BinaryMessage, p); err != nil {
		return 0, err
	}
	return len(p), nil
}
func (w *wsConn) ping() {
	w.wmu.Lock()
	defer w.wmu.Unlock()
	w.c.WriteMessage(websocket.PingMessage, []byte("p"))
}
func (w *wsConn) Close() error                       { return w.c.Close() }
func (w *wsConn) LocalAddr() net.Addr                { return w.c.LocalAddr() }
func (w *wsConn) RemoteAddr() net.Addr               { return w.c.RemoteAddr() }
func (w *wsConn) SetDeadline(t time.Time) error      { w.c.SetReadDeadline(t); return w.c.SetWriteDeadline(t) }
func (w *wsConn) SetReadDeadline(t time.Time) error  { return w.c.SetReadDeadline(t) }
func (w *wsConn) SetWriteDeadline(t time.Time) error { return nil }

func dial(addr string) *cli {
	if strings.HasPrefix(addr, "ws://") {
		d := websocket.Dialer{HandshakeTimeout: 2 * time.Second, Subprotocols: []string{"mqtt"}}
		c, _, err := d.Dial(addr, nil)
		if err != nil {
			return nil
		}
		return &cli{c: &wsConn{c: c}, ver: refmqtt.V5}
	}
	c, err := net.DialTimeout("tcp", addr, 2*time.Second)
	if err != nil {
		return nil
	}
	return &cli{c: c, ver: refmqtt.V5}
}

func (c *cli) send(p *refmqtt.Packet) {
	if c == nil {
		return
	}
	if p.Version == 0 {
		p.Version = c.ver
	}
	c.mu.Lock()
	c.c.SetWriteDeadline(time.Now().Add(2 * time.Second))
	c.c.Write(refmqtt.Encode(p))
	c.mu.Unlock()
}

// next returns the next packet or nil on close/timeout.
func (c *cli) next(d time.Duration) *refmqtt.Packet {
	if c == nil {
		return nil
	}
	deadline := time.Now().Add(d)
	tmp := make([]byte, 4096)
	for {
		if p, n, err := refmqtt.Decode(c.buf, c.ver); err != refmqtt.ErrIncomplete {
			if n == 0 {
				return nil
			}
			c.buf = c.buf[n:]
			return p
		}
		c.c.SetReadDeadline(deadline)
		n, err := c.c.Read(tmp)
		if n > 0 {
			c.buf = append(c.buf, tmp[:n]...)
			continue
		}
		if err != nil {
			return nil
		}
	}
}

// ackLoop acknowledges everything until the connection ends or stop is closed.
func (c *cli) ackLoop(stop <-chan struct{}, got *int64) {
	for {
		select {
		case <-stop:
			return
		default:
		}
		p := c.next(300 * time.Millisecond)
		if p == nil {
			select {
			case <-stop:
				return
			default:
			}
			if c == nil {
				return
			}
			// timeout or close: probe
			c.c.SetReadDeadline(time.Now().Add(time.Millisecond))
			one := make([]byte, 1)
			if _, err := c.c.Read(one); err != nil {
				if ne, ok := err.(net.Error); ok && ne.Timeout() {
					continue
				}
				return
			} else {
				c.buf = append(c.buf, one...)
			}
			continue
		}
		switch p.Type {
		case refmqtt.PUBLISH:
			atomic.AddInt64(got, 1)
			if p.QoS == 1 {
				c.send(&refmqtt.Packet{Type: refmqtt.PUBACK, PacketID: p.PacketID})
			} else if p.QoS == 2 {
				c.send(&refmqtt.Packet{Type: refmqtt.PUBREC, PacketID: p.PacketID})
			}
		case refmqtt.PUBREL:
			c.send(&refmqtt.Packet{Type: refmqtt.PUBCOMP, PacketID: p.PacketID})
		case refmqtt.PUBREC:
			c.send(&refmqtt.Packet{Type: refmqtt.PUBREL, PacketID: p.PacketID})
		}
	}
}

func connect(addr, id string, clean bool, will bool) *cli {
	c := dial(addr)
	if c == nil {
		return nil
	}
	p := &refmqtt.Packet{Type: refmqtt.CONNECT, Version: refmqtt.V5, ClientID: id, CleanStart: clean, KeepAlive: 30,
		Props: &refmqtt.Props{SessionExpiry: u32(60), ReceiveMax: u16(3), TopicAliasMax: u16(2)}}
	if will {
		p.WillFlag, p.WillTopic, p.WillPayload, p.WillQoS = true, "will/"+id, []byte("bye"), 1
		p.WillProps = &refmqtt.Props{WillDelay: u32(1)}
	}
	c.send(p)
	if ack := c.next(2 * time.Second); ack == nil || ack.Type != refmqtt.CONNACK {
		c.c.Close()
		return nil
	}
	return c
}

func u32(v uint32) *uint32 { return &v }
func u16(v uint16) *uint16 { return &v }

type world struct {
	srv    server.Server
	addr   string
	wsAddr string
	done   chan struct{}
}

func newWorld() (*world, error) {
	ln, err := net.Listen("tcp", "127.0.0.1:0")
	if err != nil {
		return nil, err
	}
	cfg := config.DefaultConfig()
	cfg.Listeners, cfg.PluginOrder, cfg.Plugins, cfg.API = nil, nil, nil, config.API{}
	cfg.MQTT = config.DefaultMQTTConfig
	cfg.MQTT.MaxInflight = 4
	cfg.MQTT.MaxQueuedMsg = 8
	// a free port for the websocket listener (gmqtt calls ListenAndServe itself)
	pl, err := net.Listen("tcp", "127.0.0.1:0")
	if err != nil {
		return nil, err
	}
	wsHost := pl.Addr().String()
	pl.Close()
	srv := server.New(server.WithConfig(cfg), server.WithTCPListener(ln), server.WithWebsocketServer(&server.WsServer{Server: &http.Server{Addr: wsHost}, Path: "/ws"}))
	if err := srv.Init(); err != nil {
		return nil, err
	}
	w := &world{srv: srv, addr: ln.Addr().String(), wsAddr: "ws://" + wsHost + "/ws", done: make(chan struct{})}
	go func() { srv.Run(); close(w.done) }()
	// wait for the websocket listener
	for i := 0; i < 200; i++ {
		if c, err := net.DialTimeout("tcp", wsHost, 100*time.Millisecond); err == nil {
			c.Close()
			break
		}
		time.Sleep(2 * time.Millisecond)
	}
	return w, nil
}

func (w *world) stop() bool {
	ctx, cancel := context.WithTimeout(context.Background(), 10*time.Second)
	defer cancel()
	w.srv.Stop(ctx)
	select {
	case <-w.done:
		return true
	case <-time.After(10 * time.Second):
		return false
	}
}

// scenario: everything at once on one broker
func scenario(round int, stopEarly bool) (delivered int64, stopped bool) {
	w, err := newWorld()
	if err != nil {
		fmt.Fprintln(os.Stderr, "racer: init:", err)
		return 0, false
	}
	var wg sync.WaitGroup
	quit := make(chan struct{})
	var got int64
	var ready sync.WaitGroup
	ready.Add(2)
	// subscribers
	for i := 0; i < 2; i++ {
		i := i
		wg.Add(1)
		go func() {
			defer wg.Done()
			s := connect(w.addr, fmt.Sprintf("s%d", i), false, i == 0)
			if s == nil {
				ready.Done()
				return
			}
			s.send(&refmqtt.Packet{Type: refmqtt.SUBSCRIBE, PacketID: 1, Subs: []refmqtt.Sub{{Filter: "t/#", QoS: byte(1 + i)}, {Filter: "$share/g/t/+", QoS: 1}}})
			s.next(time.Second) // SUBACK
			ready.Done()
			s.ackLoop(quit, &got)
			s.c.Close()
		}()
	}
	// publishers
	for i := 0; i < 2; i++ {
		i := i
		wg.Add(1)
		go func() {
			defer wg.Done()
			p := connect(w.addr, fmt.Sprintf("p%d", i), true, false)
			if p == nil {
				return
			}
			go p.ackLoop(quit, new(int64))
			if i == 0 {
				ready.Wait() // the other publisher starts at once and races the subscribes
			}
			for k := 1; k <= 12; k++ {
				pk := &refmqtt.Packet{Type: refmqtt.PUBLISH, Topic: fmt.Sprintf("t/%d", k%3), QoS: byte(k % 3), Payload: []byte("x"), Retain: k%5 == 0}
				if pk.QoS > 0 {
					pk.PacketID = uint16(k)
				}
				p.send(pk)
				if k%4 == 0 {
					time.Sleep(time.Millisecond)
				}
			}
			<-quit
			p.c.Close()
		}()
	}
	// take-over storm on one client id, one of them killed abruptly
	for i := 0; i < 3; i++ {
		i := i
		wg.Add(1)
		go func() {
			defer wg.Done()
			c := connect(w.addr, "dup", i == 2, true)
			if c == nil {
				return
			}
			c.send(&refmqtt.Packet{Type: refmqtt.SUBSCRIBE, PacketID: 1, Subs: []refmqtt.Sub{{Filter: "t/1", QoS: 1}}})
			c.send(&refmqtt.Packet{Type: refmqtt.PINGREQ})
			c.next(200 * time.Millisecond)
			if i == 0 {
				c.c.Close()
				return
			}
			c.ackLoop(quit, new(int64))
			c.c.Close()
		}()
	}
	// websocket clients: a subscriber that also sends websocket PING frames, and a
	// take-over storm on one client id (the displaced v5 connection is sent a DISCONNECT)
	wg.Add(1)
	go func() {
		defer wg.Done()
		s := connect(w.wsAddr, "w0", false, true)
		if s == nil {
			return
		}
		s.send(&refmqtt.Packet{Type: refmqtt.SUBSCRIBE, PacketID: 1, Subs: []refmqtt.Sub{{Filter: "t/#", QoS: 1}}})
		go func() {
			for k := 0; k < 20; k++ {
				select {
				case <-quit:
					return
				default:
				}
				if wc, ok := s.c.(*wsConn); ok {
					wc.ping()
				}
				time.Sleep(time.Millisecond)
			}
		}()
		s.ackLoop(quit, &got)
		s.c.Close()
	}()
	for i := 0; i < 3; i++ {
		i := i
		wg.Add(1)
		go func() {
			defer wg.Done()
			c := connect(w.wsAddr, "wdup", false, false)
			if c == nil {
				return
			}
			c.send(&refmqtt.Packet{Type: refmqtt.SUBSCRIBE, PacketID: 1, Subs: []refmqtt.Sub{{Filter: "t/2", QoS: byte(i % 2)}}})
			c.ackLoop(quit, new(int64))
			c.c.Close()
		}()
	}
	// administrative calls
	wg.Add(1)
	go func() {
		defer wg.Done()
		for k := 0; k < 30; k++ {
			select {
			case <-quit:
				return
			default:
			}
			w.srv.Publisher().Publish(&gmqtt.Message{Topic: "t/2", Payload: []byte("api"), QoS: byte(k % 2)})
			w.srv.SubscriptionService().Subscribe("api-client", &gmqtt.Subscription{TopicFilter: "t/0", QoS: 1})
			w.srv.SubscriptionService().Iterate(func(clientID string, sub *gmqtt.Subscription) bool { return true }, subscription.IterationOptions{Type: subscription.TypeAll})
			w.srv.SubscriptionService().Unsubscribe("api-client", "t/0")
			w.srv.ClientService().IterateClient(func(c server.Client) bool { _ = c.ClientOptions(); return true })
			w.srv.ClientService().IterateSession(func(s *gmqtt.Session) bool { return true })
			if c := w.srv.ClientService().GetClient("s1"); c != nil {
				_ = c.ConnectedAt()
				_ = c.SessionInfo()
			}
			_ = w.srv.StatsManager().GetGlobalStats()
			w.srv.StatsManager().GetClientStats("s0")
			w.srv.RetainedService().GetMatchedMessages("t/#")
			if k == 15 {
				w.srv.ClientService().TerminateSession("dup")
			}
			if k == 20 {
				w.srv.ClientService().TerminateSession("w0")
			}
			time.Sleep(200 * time.Microsecond)
		}
	}()
	if stopEarly {
		time.Sleep(time.Duration(round%7) * time.Millisecond)
		stopped = w.stop()
		close(quit)
		wg.Wait()
		return atomic.LoadInt64(&got), stopped
	}
	time.Sleep(60 * time.Millisecond)
	close(quit)
	wg.Wait()
	stopped = w.stop()
	return atomic.LoadInt64(&got), stopped
}

func main() {
	rounds := flag.Int("rounds", 10, "scenario rounds")
	out := flag.String("out", "", "summary json")
	flag.Parse()
	var total int64
	notStopped := 0
	for r := 0; r < *rounds; r++ {
		d, ok := scenario(r, r%2 == 1)
		total += d
		if !ok {
			notStopped++
		}
	}
	sum := map[string]any{"rounds": *rounds, "publishes_delivered_to_subscribers": total, "stop_did_not_return": notStopped}
	b, _ := json.Marshal(sum)
	if *out != "" {
		os.WriteFile(*out, b, 0o644)
	}
	fmt.Println(string(b))
}
