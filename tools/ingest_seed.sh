#!/bin/bash
# tools/ingest_seed.sh <Cxx> <mN> <agent output dir>: copies a sub-agent's deliverables into seeded/<Cxx>-<mN>/
cd "$(dirname "$0")/.."
p=$1; m=$2; src=$3; d=seeded/$p-$m
mkdir -p $d
cp $src/$m.diff $d/patch.diff
cp $src/${m}_demo_test.go $d/demo_test.go.txt
cp $src/NOTES.md $d/NOTES.md
git -C /repo rev-parse --short HEAD > $d/base
head -1 $d/demo_test.go.txt
