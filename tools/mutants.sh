#!/bin/bash
# Runs every seeded change (sub-agent mutants and reverse-applied fix commits) against the
# check of its property and prints one line per run.
cd "$(dirname "$0")/.."
V=$(pwd)
run() { # <label> <patch> <prop> [tier]
  local out rc
  out=$(timeout 1500 ./mut.sh "$2" "$3" "${4:-quick}" 2>&1); rc=$?
  local n=$(echo "$out" | grep -c '^VIOLATION')
  local cls=$(echo "$out" | grep -E '^  rule=' | sed 's/ occurrences.*//' | head -3 | tr '\n' ';')
  echo "$1 | $3 | exit=$rc | violations=$n | $cls"
}
# optional arguments: only the seeds / unfix-<commit> entries whose label matches one of the given shell patterns
want() { [ $# -eq 1 ] && [ -z "${FILTERS:-}" ] && return 0; for f in $FILTERS; do case "$1" in $f) return 0;; esac; done; return 1; }
FILTERS="$*"
for d in seeded/C*-m*; do
  id=$(basename $d); prop=${id%%-*}
  want $id || continue
  p=$d/patch.diff; [ -f $d/patch.rebased.diff ] && p=$d/patch.rebased.diff
  extra=$(python3 -c "import json,os;m=json.load(open('$d/meta.json')) if os.path.exists('$d/meta.json') else {};print(' '.join(m.get('also_run',[])))" 2>/dev/null)
  run $id $p $prop
  for e in $extra; do run $id $p $e; done
done
python3 - <<'PY' > /tmp/unfix.list
import json
seen=set()
for f in json.load(open('known_findings.json')):
    if f['status']=='fixed' and (f['commit'],f['property']) not in seen:
        seen.add((f['commit'],f['property'])); print(f['commit'],f['property'])
PY
while read c p; do
  want unfix-$c || continue
  [ -f seeded/unfix/$c.diff ] && run unfix-$c seeded/unfix/$c.diff $p
done < /tmp/unfix.list
