#!/usr/bin/env python3
"""Merges the outputs of tools/mutants.sh runs (given in chronological order) into
seeded/RESULTS.md: the latest line per (change, check) wins."""
import sys, re, collections
rows = collections.OrderedDict()
for f in sys.argv[1:]:
    for l in open(f, errors='replace'):
        m = re.match(r'(\S+) \| (C\d\d) \| exit=(\d) \| violations=(\d+) \|(.*)$', l.rstrip('\n'))
        if m:
            rows[(m.group(1), m.group(2))] = (m.group(3), m.group(4), m.group(5).strip())
def key(k):
    lab, chk = k
    return (lab.startswith('unfix'), lab, chk)
out = ["# Seeded changes and reverse-applied fixes against the checks (quick tier)", "",
       "One line per run of `./mut.sh <patch> <check> quick` (a scratch copy of /repo with the patch applied;",
       "`tools/mutants.sh`). exit=1: the check reported a violation; exit=0: it did not; exit=2: the patch does not",
       "apply to / build on the repaired tree any more (see notes). Where a change is reported by the check of a",
       "neighbouring property, both lines are listed. Sampling part (C15's race pass) can make C15-m4 / C18-m4 flaky.", "",
       "| change | check | exit | violations | first classes |", "|---|---|---|---|---|"]
for k in sorted(rows, key=key):
    e, v, cls = rows[k]
    out.append("| %s | %s | exit=%s | violations=%s | %s |" % (k[0], k[1], e, v, cls.replace('|', '/')[:300]))
out += ["", "Notes:",
        "* C11-m1: equivalent after fix 81148dc (it relied on the bare-filter index); the patch no longer applies.",
        "* unfix-81148dc, unfix-8f74d54: later fixes touch the same lines; the reverse patch alone does not apply / build.",
        "* unfix-ccaf9cc: masked by fbaa1fe when reverted alone.",
        "* C01-m8, C08-m8, C11-m8, C19-m8: not detected (DESIGN.md 16.7 says why).",
        "* C09-m8 is the same change as C09-m7 and is not kept."]
open('seeded/RESULTS.md', 'w').write('\n'.join(out) + '\n')
print(len(rows), "rows")
