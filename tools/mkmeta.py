#!/usr/bin/env python3
"""Writes seeded/<id>/meta.json for every seeded change from its NOTES.md section,
verify.txt (what was confirmed in a scratch worktree) and seeded/RESULTS.md (which
checks report it)."""
import json, os, re, glob
V = os.path.dirname(os.path.dirname(os.path.abspath(__file__)))
os.chdir(V)
results = {}
if os.path.exists('seeded/RESULTS.md'):
    for l in open('seeded/RESULTS.md'):
        m = re.match(r'\| *(\S+) *\| *(C\d\d) *\| *exit=(\d) *\| *violations=(\d+) *\| *(.*)\|?$', l.strip())
        if m:
            results.setdefault(m.group(1), []).append({"check": m.group(2), "exit": int(m.group(3)), "violations": int(m.group(4)), "classes": m.group(5).strip(' |')})
also = {"C03-m8": ["C10"], "C12-m8": ["C10"], "C14-m8": ["C08"], "C17-m8": ["C16"], "C20-m8": ["C15"], "C01-m7": ["C13"], "C03-m7": ["C07"], "C05-m7": ["C15"], "C17-m7": ["C16"], "C20-m7": ["C06"], "C20-m6": ["C10"], "C11-m6": ["C05"], "C12-m5": ["C10"], "C01-m6": ["C04"], "C01-m3": ["C10", "C13"], "C04-m4": ["C13"], "C18-m4": ["C15"], "C04-m5": ["C09"], "C01-m5": ["C13"], "C17-m2": ["C16"]}
for d in sorted(glob.glob('seeded/C*-m*')):
    sid = os.path.basename(d); prop, mut = sid.split('-')
    notes = os.path.join(d, 'NOTES.md')
    if not os.path.exists(notes):
        notes = os.path.join('seeded', prop + '-m1', 'NOTES.md')
    txt = open(notes).read()
    own = os.path.exists(os.path.join(d, 'NOTES.md'))
    # the section of this mutant: files of the first rounds describe m1 and m2 in one NOTES.md
    secs = re.split(r'\n(?=## )', txt)
    sec = next((s for s in secs if re.match(r'## *' + mut + r'\b', s)), None)
    if sec is None:
        sec = txt if own else ''
    lines = [l for l in sec.split('\n') if l.strip()]
    title = ''
    for l in lines:
        if l.startswith('#'):
            title = l.lstrip('# ').strip()
            break
    if not title and lines:
        title = lines[0].strip()
    # "what is needed for it to manifest": the section whose heading says so, else the first paragraph that does
    needs_txt = ''
    hsecs = re.split(r'\n(?=#{2,3} )', sec)
    for hs in hsecs:
        head = hs.split('\n', 1)[0]
        if re.search(r'need|manifest|trigger|require', head, re.I) and '\n' in hs:
            body = re.sub(r'```.*?```', '', hs.split('\n', 1)[1], flags=re.S)
            needs_txt = ' '.join(body.split())[:1500]
            break
    if not needs_txt:
        paras = [p.strip() for p in re.split(r'\n\s*\n', re.sub(r'```.*?```', '', sec, flags=re.S))]
        for p_ in paras:
            if re.search(r'\b(needs?|needed|manifests?|only (shows|when)|requires?)\b', p_, re.I) and not p_.startswith('#'):
                needs_txt = ' '.join(p_.split())[:1500]
                break
    if not needs_txt:
        needs_txt = title
    ver = open(os.path.join(d, 'verify.txt')).read() if os.path.exists(os.path.join(d, 'verify.txt')) else ''
    base = open(os.path.join(d, 'base')).read().strip() if os.path.exists(os.path.join(d, 'base')) else 'dcff49b'
    meta = {
        "id": sid, "property": prop, "summary": title,
        "base_commit": base,
        "needs_to_manifest": needs_txt,
        "confirmed_in_scratch_worktree": {
            "how": "tools/verify_seeds.sh: git worktree of base_commit under /tmp; demo copied in and run without the change, patch applied with git apply, go build ./..., demo run again, demo removed, whole suite run; worktree removed",
            "demo_without_change": "ok" if re.search(r'^demo without change: ok', ver, re.M) else "see verify.txt",
            "demo_with_change": "FAIL" if re.search(r'^demo with change: .*FAIL', ver, re.M) else "see verify.txt",
            "build_with_change": "ok" if 'build with change: ok' in ver else "see verify.txt",
            "existing_suite_with_change": "only TestRedis fails (needs docker; fails on the pinned commit too)" if re.search(r'expected\): --- FAIL: TestRedis \([0-9.]+s\) FAIL FAIL\tgithub.com/DrmagicE/gmqtt/persistence\t[0-9.]+s FAIL *$', ver, re.M) else "see verify.txt",
        },
        "checks_run": results.get(sid, []),
        "how_checks_were_run": "tools/mutants.sh -> ./mut.sh <patch> <Cxx> quick (rsync copy of /repo under /tmp with the patch applied, VERIF_REPO pointing at it; copy removed afterwards)",
    }
    if sid in also:
        meta["also_run"] = also[sid]
    if os.path.exists(os.path.join(d, 'patch.rebased.diff')):
        meta["note"] = "patch.diff is relative to the pinned commit; patch.rebased.diff is the same change on top of the fix commits and is what the checks are run against"
    json.dump(meta, open(os.path.join(d, 'meta.json'), 'w'), indent=1)
print("meta.json written for", len(glob.glob('seeded/C*-m*/meta.json')))
