#!/usr/bin/env python3
"""Regenerates /verif/MANIFEST.json from the table below (kept here so that MANIFEST stays valid)."""
import json, os, sys
V = os.path.dirname(os.path.dirname(os.path.abspath(__file__)))
props = [json.loads(l) for l in open(os.path.join(V, 'properties.jsonl'))]

# id -> (category, technique, text, note, design_ref)
CHECKS = {
 "C02": ("model_checking", "explicit-state BFS to closure on the real mem subscription store vs reference matcher; exhaustive bounded-string enumeration for TopicMatch",
  "Every reachable private state of the real mem subscription store, for every pair (quick) / triple (thorough) of filters of the universe and 2 clients, is reached by BFS until no new state appears; in each state the full lookup battery (by topic, exact filter, client, type mask; counts) is compared with an independent MQTT 4.7 matcher. Closure means the answers are right after histories of any length over each alphabet. TopicMatch is compared on every (valid topic, valid filter) pair of strings up to length 5/6 over {a / + # $}.",
  "Trusted: refmqtt matcher/validators, the reflection state dump. Alphabets are pairs/triples of filters from a 44 (quick) / 71 (thorough) filter universe, so interactions needing 4+ distinct filters are not covered. redis wrapper is covered through C09's journal checks, not here.", "DESIGN.md 8/C02"),
 "C11": ("model_checking", "explicit-state BFS to closure on the real mem subscription store (shared groups) vs reference membership table",
  "BFS to closure over join/leave alphabets (Subscribe / Unsubscribe / UnsubscribeAll, 3 clients, shared and non-shared filters on overlapping topics, same client in several groups) on the real store; in every state the candidate members per (group, filter) for every probe topic must equal the reference membership.",
  "Trusted: refmqtt matcher, state dump. The wire-level part (exactly one member receives, every rand.Intn pick enumerated) is described in DESIGN.md and added as it is built.", "DESIGN.md 8/C11"),
 "C04": ("model_checking", "exhaustive scenario-tree enumeration (all publisher event sequences to a depth) on the real in-process broker under a cooperative scheduler, reference 'awaiting PUBREL' set as oracle",
  "All sequences of QoS2 publish (2 ids, DUP retransmissions) / PUBREL / QoS1 publish / cut+reconnect (clean 0, clean 1) / take-over events up to depth 5 (quick) / 7 (thorough), for a v5 and a v3.1.1 publisher, run on a fresh real broker each; after every event the acks and the messages forwarded to an independent subscriber must equal the reference model.",
  "Default schedule only (0 scheduling deviations): C04 quantifies over histories, not schedules. Trusted: vsched/memconn semantics, refmqtt codec. redis unack store is exercised by C09.", "DESIGN.md 8/C04"),
 "C07": ("model_checking", "explicit-state BFS to closure on the real retained trie store vs map + reference matcher",
  "BFS to closure over AddOrReplace/Remove/ClearAll on the real retained store (topics incl. prefixes of each other, empty levels, $-topics); every state: GetRetainedMessage, GetMatchedMessages for every filter of the C02 universe, Iterate, and copy-independence of results. Wire-level replay-on-subscribe enumeration is added as built (DESIGN.md).",
  "Trusted: refmqtt matcher, state dump.", "DESIGN.md 8/C07"),
 "C10": ("model_checking", "explicit-state BFS (depth-bounded, virtual clock, blocking Read as a scheduler thread) on the real mem queue vs a reference list model",
  "Every operation sequence over Add(6 variants)/Read/ReadInflight/Remove/Replace/Init/Close/Advance up to depth 6 (quick) / 8 (thorough), plus breadth-first continuation from directed resumed-session states, for max in {1,2,3} x inflight_expiry in {0,30s}, on the real mem queue; after every operation the private list is compared with the reference list (conservation, bound), outputs with the FIFO/id/expiry/oversize/replay rules, the drop victim with the documented ladder, and the summed notifier deltas with the contents.",
  "Callers respect the documented preconditions (drain ReadInflight before Read; Init only after Close). Counters are compared from the last Init(clean). The redis queue is covered via C09's crash/restart histories rather than by this operation-level search. Trusted: vsched Cond/clock semantics, state dump.", "DESIGN.md 8/C10"),
 "C18": ("exploration", "exhaustive small-scope enumeration of websocket message segmentations x read-size patterns through the broker's real upgrader and wsConn adapter",
  "Every sequence of <=3 binary messages of 0..6 bytes x every cyclic pattern of <=2 (quick) / <=3 (thorough) read sizes 1..7, boundary message sizes around the 1024-byte reader x boundary read sizes, text messages at every position, and write-side framing, all through the real defaultUpgrader + wsConn (client frames come from an independent RFC 6455 framer).",
  "Enumeration of inputs (the property quantifies over inputs only). Trusted: harness framer, in-memory conn; the HTTP server and TCP are not in the loop (the handler is driven through a fake hijackable ResponseWriter).", "DESIGN.md 8/C18"),
 "C01": ("model_checking", "exhaustive scenario enumeration (all subscription tables of a bounded alphabet x full publish battery) on the real in-process broker under a cooperative scheduler, brute-force reference matcher as oracle",
  "Every subscription table of 1..2 subscriptions (plus an UNSUBSCRIBE history and, thorough, a third overlapping subscription) over 3 subscribers (v5, v3.1.1, and the v5 publisher itself) x 6 filters x QoS x option shapes, in both delivery modes, installed through real SUBSCRIBE packets on a fresh broker; then 72 publishes (v5 client, v3 client, Publisher API x topics x QoS x retain x properties), every delivery acknowledged. After each publish every socket is compared with the expected multiset of copies (count, QoS, RETAIN, subscription ids, properties), per-publisher order, and the publisher's ack id / reason code.",
  "Default schedule only in this check (0 scheduling deviations); concurrent publishers under all schedules are explored by the schedule DFS scenarios (C15/C01-E3 when registered). Trusted: vsched/memconn, refmqtt.", "DESIGN.md 8/C01"),
 "C03": ("model_checking", "exhaustive scenario-tree enumeration on the real in-process broker with a wire monitor as oracle, plus explicit-state BFS on the real packet-id limiter",
  "All sequences of publish QoS1/QoS2, subscriber ack steps (oldest/newest outstanding, PUBREC error), cut, reconnect and take-over (clean 0) up to depth 6 (quick) / 7 (thorough) for 5-7 subscriber variants (v5 Receive Maximum vs max_inflight, v3.1.1), each on a fresh broker; the monitor on the subscriber socket checks id uniqueness among outstanding PUBLISH/PUBREL, the window (never exceeded, never idle while messages wait), DUP flags, exact retransmission order after every reconnect, FIFO of new messages. The packet-id limiter is searched breadth-first (poll/release/batch release, cursor jumps to 65534/65535 standing for long histories) for limits 1..3.",
  "Default schedule; races between acks, publishes and connection loss are explored by the schedule DFS scenarios of C15. Trusted: vsched/memconn, refmqtt.", "DESIGN.md 8/C03"),
 "C05": ("model_checking", "exhaustive scenario-tree enumeration with a virtual clock on the real in-process broker vs a reference session model; stateless schedule DFS (deviation-bounded) for simultaneous CONNECTs",
  "All sequences of connect variants (v3/v5, clean 0/1, expiry absent/5/MAX, take-over), subscribe, helper publish, DISCONNECT (with new expiry), abrupt close, TerminateSession and clock advances up to depth 4 full / 5 reduced alphabet (quick; +1 thorough) for session_expiry 10s and 2h; the reference decides Session Present, offline-message delivery and subscription survival, observed through a probe publish after every connect and clock step. Simultaneous CONNECTs with one client id (fresh id, stored offline session, clean or not; 2-3 connections) are explored under every schedule with <=1 (quick) / <=2 (thorough) demotions of the running thread: at most one attached socket, displaced socket closed before the displacer's CONNACK, exactly one socket answers PINGREQ, every CONNECT answered.",
  "Reconnects within 1s of the expiry instant are accepted either way. Schedule exploration is bounded by the number of deviations (a deviation pauses the running thread until all others are blocked). Trusted: vsched/memconn/virtual clock, refmqtt.", "DESIGN.md 8/C05"),
 "C06": ("exploration", "exhaustive small-scope input enumeration (all byte strings to a length, mutation closure of a generated valid corpus, bounded string alphabets for the validators) against an independent reference codec",
  "Every byte string of length <=3 and reduced-alphabet strings to length 4 (quick) / 5 (thorough) under v3.1, v3.1.1 and v5; allocation measured for every packet type with declared lengths up to 268435455 and 0..8 bytes supplied; a generated corpus of well-formed values of all 15 packet types x versions x every property is round-tripped gmqtt<->refmqtt in both directions (field equality, TotalBytes, Message.TotalBytes); every truncation, single-byte substitution, deletion and insertion of each corpus packet is decoded (no panic, bounded consumption, accepted => re-encodes to an equal packet); validators compared on all strings <=5 over a 12-byte alphabet.",
  "Written by a sub-agent to the C06 design, triaged by hand. Behaviours MQTT forbids but the property statement does not mention (5+ byte remaining length, reserved ack flags, EOF inside the fixed header read as length 0, will-only properties in CONNECT) are counted in the evidence (beyond_statement:*) and not reported. Trusted: refmqtt reference codec.", "DESIGN.md 8/C06"),
 "C08": ("model_checking", "exhaustive enumeration of will settings x connection endings x follow-up sequences with a virtual clock on the real in-process broker vs a reference will machine",
  "Every will setting (QoS, retain, delay, properties, version, session expiry) x 9 ways a connection can end x every sequence of <=2 (quick) / <=3 (thorough) follow-ups (clock advances around the delay and the sweeper tick, reconnect clean 0/1) on a fresh broker; after every step the number of will copies received by an independent Retain-As-Published subscriber and their content (topic, payload, QoS, RETAIN, properties) must equal the reference will machine.",
  "Default schedule; virtual time moves only between quiescent points. A reconnect within 1s of the due instant is not judged. Stop() as an ending is left to C15. Trusted: vsched clock/memconn deadlines, refmqtt.", "DESIGN.md 8/C08"),
 "C12": ("model_checking", "exhaustive grid enumeration with a virtual clock on the real in-process broker (expiry x configured cap x waiting mode x waiting time x versions)",
  "The full grid of Message Expiry Interval {absent,2,5,100} x message_expiry {none,3s,10s} x {online, offline then reconnect, window full} x waiting time {0, L-1, L+1, L+30} x publisher/subscriber versions x QoS, each point on a fresh broker: delivered exactly once with the remaining lifetime, or not delivered and reported dropped as expired exactly once.",
  "W == L is not generated (boundary second). For intervals above the configured cap both E-W and M-W are accepted as forwarded value. Trusted: virtual clock, refmqtt.", "DESIGN.md 8/C12"),
 "C13": ("model_checking", "exhaustive enumeration of outbound publish sequences x client limits, and of boundary probes over every validator-accepted configuration of a grid, on the real in-process broker",
  "Outbound: client Maximum Packet Size {none,30,40} x Topic Alias Maximum {0,1,2} x subscription id x fresh/resumed session x every publish sequence of length 3 (quick) / 4 (thorough) over 3 topics with payload lengths sweeping the limit; every received packet is measured on the wire and resolved through a client-side alias table. Inbound: all 96 validator-accepted configurations of the grid; alias values {0,1,max-1,max,max+1,65535} with topic, empty topic and rebinding; r and r+1 outstanding QoS2 publishes; packets of exactly max_packet_size and +1; DISCONNECT reason codes; no panic; broker still serves afterwards.",
  "Default schedule. Receive-maximum probes are skipped for r=65535 and size probes for max_packet_size 2^28-1 (too large to generate). Trusted: refmqtt (wire sizes are measured, not computed), vsched.", "DESIGN.md 8/C13"),
 "C14": ("model_checking", "exhaustive enumeration of plugin orders x a trigger script firing all 19 hook kinds, and of the verdict table x versions x deciding-plugin position, on the real in-process broker with recording plugins",
  "All 15 non-empty permutations of subsets of three recording plugins as plugin_order: per hook kind the call log must be enter(order) base exit(reverse), every exposed wrapper installed, Load/Unload once in order. Every verdict of the table (basic/enhanced auth, OnSubscribe, OnUnsubscribe, OnMsgArrived, OnWillPublish) x v3.1.1/v5 x deciding plugin alone/inner/outer: wire acks, ClientService/SubscriptionService/RetainedService contents and what an independent '#' subscriber receives must equal the verdict. Multi-round enhanced authentication is driven in-package through the real connect state machine.",
  "Default schedule. The multi-round AUTH exchange cannot be completed over the wire on the unchanged broker (known finding), so its verdicts are checked through an in-package accessor (VerifRunConnect). Trusted: vsched, refmqtt, the recording plugins.", "DESIGN.md 8/C14"),
 "C20": ("model_checking", "exhaustive scenario-tree enumeration on the real in-process broker; every statistics counter compared with the harness's own packet log and session/queue model at every quiescent point",
  "Every sequence of an 18-event alphabet (connects v5 persistent / clean / take-over, v3 clean, subscribe, unsubscribe, publish QoS0/1/2, ack, duplicate PUBACK, PINGREQ, DISCONNECT, abrupt close, clock advance, TerminateSession) up to depth 4 (quick) / 5 (thorough), plus breadth-first continuation from two directed states (subscriber offline with backlog; subscriber online with an in-flight message), for two broker configurations; after every event every uint64 leaf of GetGlobalStats()/GetClientStats() except the drop and subscription counters is compared with ground truth (wire lengths, per-QoS PUBLISH counts, session and queue model).",
  "Per-client statistics restart when the session is terminated (the broker deletes them). Drop counters are exercised by C10/C12/C13 through the drop hook; AUTH packet counters are not exercised. Default schedule. Trusted: refmqtt, vsched.", "DESIGN.md 8/C20"),
 "C19": ("model_checking", "exhaustive enumeration of the CONNECT credential space x hash algorithms, of account-API histories with broker restarts, and of unauthenticated packet sequences on TCP and WebSocket, on the real in-process broker with the real auth plugin",
  "For each of plain/md5/sha256/bcrypt: every combination of version x user name shape x password shape x v5 authentication-method properties; CONNACK success iff the user is a stored account whose stored hash matches; refused connects leave no client/session. Every sequence of <=3 (quick) / <=4 (thorough) account operations (create, change, delete, restart) x hash x absolute/relative password file, probing four credential pairs after every step and parsing the file on disk. Every sequence of <=2 packets of 8 kinds before CONNECT and after a failed CONNECT, v3.1.1/v5, TCP and WebSocket handler: services unchanged, bystander receives nothing, no reply other than a failing CONNACK/DISCONNECT.",
  "The gRPC/HTTP account API transport is not in the loop (the handlers are called directly). WebSocket is driven through the real handler over an in-memory conn with a fake hijackable ResponseWriter. Trusted: reference hashing (std lib, x/crypto), refmqtt.", "DESIGN.md 8/C19"),
 "C15": ("model_checking", "stateless schedule model checking of the real broker under a cooperative scheduler: deviation-bounded DFS over all synchronisation points of 9 concurrent scenarios",
  "Nine concurrent scenarios (two take-overs of an online client, subscribe vs publish vs kill, QoS2 flow vs acks vs DISCONNECT, Stop vs CONNECT vs API publish, TerminateSession vs reconnect vs sweeper tick, API publish/subscribe/stats vs client publish, delayed-will timer vs Stop, take-over of a stalled reader, client killed with a full in-flight window then reconnect) are executed under every schedule with <=1 (quick) / <=2 (thorough) deviations; after each execution: no panic (escaped or recovered), no deadlock, every request answered or its socket closed, Stop returns with listener and connections closed, Unload and OnStop exactly once, no broker goroutine left.",
  "Schedules switch only at synchronisation operations (sound for data-race-free code); a deviation demotes the running thread until all others are blocked. Data-race freedom itself cannot be decided by a cooperative scheduler (its hand-offs are happens-before edges) and is NOT claimed by this check. Weak memory effects and TCP RST are not modelled.", "DESIGN.md 8/C15"),
}
NA_DEFAULT = "check not built yet in this session (planned design in DESIGN.md section 8)"

m = {
 "version": 1,
 "setup_cmd": "./setup.sh",
 "hooks": {
  "guard": "verif",
  "enable": "./run.sh regenerates a `go build -overlay` from /repo's working tree on every check run: engine/xform rewrites sync/atomic/time/math-rand imports, go statements, channel operations, select and map ranges onto the vsched cooperative scheduler (virtual package <repo>/zzverif/*), and adds engine/inpkg/** as zz_verif_*.go files built with -tags verif. Nothing is committed to /repo for instrumentation.",
  "baseline_off_cmd": "cd /repo && go test -mod=mod -json -vet=off -count=1 -timeout 25m ./...",
  "source_commits": [],
  "add_only": True,
 },
 "engines": [
  {"name": "vx", "path": "engine/", "serves_properties": sorted(CHECKS), "kind_free_text": "hand-written explorer: cooperative scheduler (vsched) under overlay-instrumented gmqtt, explicit-state BFS on real objects, scenario-tree and schedule-DFS enumeration, sharded over 16 worker processes"},
 ],
 "checks": [],
 "notes": "Genuine defects repaired as 'fix:' commits in /repo are listed in known_findings.json with status fixed. See DESIGN.md.",
 "not_applicable": [],
}
for p in props:
    i = p["id"]
    if i in CHECKS:
        cat, tech, text, note, ref = CHECKS[i]
        m["checks"].append({
         "property_id": i,
         "quick_cmd": f"./run.sh {i} quick",
         "thorough_cmd": f"./run.sh {i} thorough",
         "evidence_file": f"/verif/evidence/{i}.json",
         "replay_cmd_template": f"./run.sh {i} replay {{path}}",
         "engine": "vx",
         "level_claimed": {"category": cat, "text": text, "design_ref": ref},
         "level_note": note,
         "technique": tech,
        })
    else:
        m["not_applicable"].append({"property_id": i, "reason": NA_DEFAULT})
json.dump(m, open(os.path.join(V, 'MANIFEST.json'), 'w'), indent=1)
print("checks:", len(m["checks"]), "not_applicable:", len(m["not_applicable"]))
