#!/bin/bash
# runs every registered quick (or $1=thorough) check sequentially and prints one line each
cd "$(dirname "$0")/.."
TIER="${1:-quick}"
for id in $(python3 -c "import json;print(' '.join(c['property_id'] for c in json.load(open('MANIFEST.json'))['checks']))"); do
  s=$(date +%s)
  out=$(timeout 1800 ./run.sh $id $TIER 2>&1); rc=$?
  echo "$id rc=$rc $(($(date +%s)-s))s $(echo "$out" | grep -cE '^VIOLATION') violations; $(echo "$out" | grep -cE '^KNOWN-FINDING') known; $(echo "$out" | grep -E "^$id $TIER" | grep -o 'exhaustive=[a-z]*')"
  echo "$out" | grep -E "^(VIOLATION|MACHINERY|  rule)" | head -6
done
