#!/bin/bash
# Confirms, for every seeded change, in a scratch worktree of the pinned commit (or of the
# commit named in seeded/<id>/base):
# builds; the existing suite passes (only TestRedis fails); the demonstration fails with
# the change and passes without it.  Writes seeded/<id>/verify.txt.
cd "$(dirname "$0")/.."
V=$(pwd)
PIN=dcff49b
declare -A DIR=( [C02]=persistence/subscription/mem [C06-m1]=. [C06-m2]=pkg/packets [C09-m1]=persistence/queue/redis [C09-m2]=persistence/subscription/redis [C10]=persistence/queue/mem [C10-m3]=persistence/queue/redis [C06-m3]=pkg/packets [C06-m4]=pkg/packets [C09-m4]=persistence [C11-m4]=server [C02-m5]=persistence/subscription/mem [C06-m5]=pkg/packets [C09-m5]=persistence [C10-m5]=persistence/queue/mem [C09-m3]=persistence [C11-m3]=server [C13-m2]=topicalias/fifo [C16]=plugin/federation [C17]=plugin/federation [C19]=plugin/auth )
one() {
  id=$1; d=$V/seeded/$id; prop=${id%%-*}
  tgt=${DIR[$id]:-${DIR[$prop]:-server}}
  hdr=$(head -1 $d/demo_test.go.txt | sed -n 's#^// *dir: *\([A-Za-z0-9_/.-]*\).*#\1#p'); [ -n "$hdr" ] && tgt=$hdr
  wt=/tmp/sv-$id
  pin=$PIN; [ -f $d/base ] && pin=$(cat $d/base)
  git -C /repo worktree remove --force $wt >/dev/null 2>&1
  git -C /repo worktree add -f --detach $wt $pin >/dev/null 2>&1 || { echo "$id worktree failed"; return; }
  (
    cd $wt
    demo=$tgt/zz_seed_${id//-/_}_test.go
    cp $d/demo_test.go.txt $demo
    runarg=""; [ -f $d/run ] && runarg="-run $(cat $d/run)"
    base=$(go test -mod=mod -vet=off -count=1 $runarg ./$tgt/ 2>&1 | tail -3 | tr '\n' ' ')
    basepass=$(echo "$base" | grep -c '^ok\|ok  ')
    git apply $d/patch.diff || { echo "$id: patch does not apply to $pin"; exit; }
    build=$(go build -mod=mod ./... 2>&1 | tail -2)
    with=$(go test -mod=mod -vet=off -count=1 $runarg ./$tgt/ 2>&1 | tail -3 | tr '\n' ' ')
    rm $demo
    suite=$(go test -mod=mod -vet=off -count=1 ./... 2>&1 | grep -E '^(FAIL|---)' | tr '\n' ' ')
    echo "id=$id target=$tgt base=$pin"
    echo "demo without change: $base"
    echo "build with change: ${build:-ok}"
    echo "demo with change: $with"
    echo "existing suite with change (failures listed; only TestRedis expected): $suite"
  ) > $d/verify.txt 2>&1
  git -C /repo worktree remove --force $wt >/dev/null 2>&1
  echo "$id done: $(grep -c 'FAIL' $d/verify.txt) FAIL lines"
}
ids=$(ls -d seeded/C*-m* | xargs -n1 basename)
if [ -n "$1" ]; then ids="$@"; fi
N=4; i=0
for id in $ids; do
  one $id &
  i=$((i+1)); if [ $((i%N)) -eq 0 ]; then wait; fi
done
wait
