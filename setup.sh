#!/bin/bash
# Build the verification framework from files on disk only (offline).
set -e
cd "$(dirname "$0")"
exec ./run.sh setup
