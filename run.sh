#!/bin/bash
# ./run.sh setup                     build the framework, warm the build cache
# ./run.sh <Cxx> quick|thorough      run one check against $VERIF_REPO (default /repo)
# ./run.sh <Cxx> replay <file>       re-run one recorded violation with a step log
# exit 0 = property held on everything explored, 1 = VIOLATION, 2 = machinery error
set -u
VERIF="$(cd "$(dirname "$0")" && pwd)"
REPO="${VERIF_REPO:-/repo}"
export VERIF_DIR="$VERIF"
export PATH=/opt/veriftools/go1.26.8/bin:$PATH
export GOFLAGS=-mod=mod GOPROXY=off GOSUMDB=off GOTOOLCHAIN=local CGO_ENABLED=0
WORK="$VERIF/.work"
mkdir -p "$WORK/bin"

build_xform() {
  (cd "$VERIF/engine/xform" && go build -o "$WORK/bin/xform" .) || { echo "MACHINERY-ERROR: xform build failed"; exit 2; }
}

# build_vx <dir>: transform $REPO and build the instrumented binary into <dir>/vx
build_vx() {
  local d="$1"
  rm -rf "$d/src" "$d/overlay.json"
  mkdir -p "$d"
  "$WORK/bin/xform" -repo "$REPO" -out "$d" -shims "$VERIF/engine/zzverif" -extra "$VERIF/engine/inpkg" 2> "$d/xform.log" || { cat "$d/xform.log"; echo "MACHINERY-ERROR: xform failed"; exit 2; }
  if [ -n "${VERIF_EXCLUDE:-}" ]; then   # development aid: leave out check files that are being written
    for f in $VERIF_EXCLUDE; do jq --arg k "$VERIF/engine/checks/$f" '.Replace[$k]=""' "$d/overlay.json" > "$d/overlay.tmp" && mv "$d/overlay.tmp" "$d/overlay.json"; done
  fi
  sed "s#@REPO@#$REPO#" "$VERIF/engine/go.mod.tmpl" > "$d/go.mod"
  cp "$REPO/go.sum" "$d/go.sum"
  (cd "$VERIF/engine" && go build -modfile="$d/go.mod" -overlay "$d/overlay.json" -tags verif -o "$d/vx" ./cmd/vx) > "$d/build.log" 2>&1 || { cat "$d/build.log"; echo "MACHINERY-ERROR: build of instrumented gmqtt failed (does /repo still compile?)"; exit 2; }
}

# build_racer <dir>: the uninstrumented broker plus a traffic driver, with the Go race
# detector (free-running pass of C15); failure to build is not fatal for the search
build_racer() {
  local d="$1"
  (cd "$VERIF/engine" && CGO_ENABLED=1 go build -race -modfile="$d/go.mod" -o "$d/racer" ./racer) > "$d/racer-build.log" 2>&1 || { echo "note: race-detector build failed (see $d/racer-build.log); C15 runs without the free-running pass"; rm -f "$d/racer"; }
}

case "${1:-}" in
  setup)
    build_xform
    build_vx "$WORK/b-setup"
    build_racer "$WORK/b-setup"
    echo "setup ok"
    exit 0 ;;
  "")
    echo "usage: $0 setup | <Cxx> quick|thorough | <Cxx> replay <file>"; exit 2 ;;
esac

PROP="$1"; TIER="${2:-quick}"
[ -x "$WORK/bin/xform" ] || build_xform
D="$WORK/b-$PROP${VERIF_WORKTAG:-}"
build_vx "$D"
if [ "$PROP" = C15 ] && [ "$TIER" != replay ]; then
  build_racer "$D"
  [ -x "$D/racer" ] && export VERIF_RACER="$D/racer"
fi
if [ "$TIER" = replay ]; then
  exec "$D/vx" -prop "$PROP" -tier quick -replay "$3"
fi
exec "$D/vx" -prop "$PROP" -tier "$TIER"
